//! C08 — zone answers follow RFC 1034/4592 and depend only on content.
//!
//! Enumerates ALL zone contents over a 7-name tree x RRset kinds, ALL
//! (qname, qtype) over the closure, and ALL histories of the listed shapes
//! ending in each content; compares every answer of the real in-memory zone
//! with an independent reference resolver over plain data.
use domain::base::iana::Rtype;
use domain::base::MessageBuilder;
use domain::zonetree::update::ZoneUpdater;
use domain::zonetree::types::{StoredName, ZoneUpdate};
use domain::zonetree::{ReadableZone, Zone};
use mc::zfix::*;
use mc::*;
use rayon::prelude::*;
use serde_json::{json, Value};
use std::collections::BTreeSet;

#[derive(Clone, Copy, Debug, PartialEq)]
enum K {
    None,
    A,
    Txt,
    ATxt,
    Cname,
    Ns,
    NsDs,
    NsIn,
    NsInDs,
    NsBA,
}

fn apply_kind(c: &mut Content, name: &str, k: K, a_id: u8) {
    match k {
        K::None => {}
        K::A => c.add(name, Rd::A(a_id)),
        K::Txt => c.add(name, Rd::Txt(format!("t{a_id}"))),
        K::ATxt => {
            c.add(name, Rd::A(a_id));
            c.add(name, Rd::Txt(format!("t{a_id}")));
        }
        K::Cname => c.add(name, Rd::Cname),
        K::Ns => c.add(name, Rd::NsOut),
        K::NsDs => {
            c.add(name, Rd::NsOut);
            c.add(name, Rd::Ds);
        }
        K::NsIn => c.add(name, Rd::NsIn),
        K::NsInDs => {
            c.add(name, Rd::NsIn);
            c.add(name, Rd::Ds);
        }
        K::NsBA => c.add(name, Rd::NsBA),
    }
}

/// One zone content = a kind per universe name (slot).
const SLOTS: [&str; 6] = ["a", "b.a", "*.a", "c", "d.c", "*"];

fn menus(quick: bool) -> Vec<Vec<K>> {
    let _ = quick;
    vec![
        vec![K::None, K::A, K::Txt, K::ATxt, K::Cname, K::Ns, K::NsDs, K::NsBA],
        vec![K::None, K::A, K::Txt, K::Cname],
        vec![K::None, K::A, K::Txt, K::Cname],
        vec![K::None, K::A, K::NsIn, K::NsInDs, K::NsBA],
        vec![K::None, K::A],
        vec![K::None, K::A, K::Txt, K::Cname],
    ]
}

fn valid(ks: &[K]) -> bool {
    // below a cut at `a` only nothing / glue-like A may exist
    // nothing below the cut at `a` (occluded data is outside the property's zone model)
    if matches!(ks[0], K::Ns | K::NsDs) && (ks[1] != K::None || ks[2] != K::None) {
        return false;
    }
    // below the cut at `c` only the glue of its own in-bailiwick target may exist
    if ks[3] == K::NsBA && ks[4] != K::None {
        return false;
    }
    // `a` delegated to its own in-bailiwick server b.a: only that glue may exist below
    if ks[0] == K::NsBA && (!matches!(ks[1], K::None | K::A) || ks[2] != K::None) {
        return false;
    }
    // below the cut at `c` only glue for the in-bailiwick NS target d.c
    if !matches!(ks[3], K::NsIn | K::NsInDs) && false {
        return false;
    }
    true
}

fn content_of(ks: &[K], serial: u32) -> Content {
    let mut c = Content::base(serial);
    for (i, k) in ks.iter().enumerate() {
        apply_kind(&mut c, SLOTS[i], *k, 10 + i as u8);
    }
    c
}

fn all_contents(quick: bool) -> Vec<Vec<K>> {
    let m = menus(quick);
    let sizes: Vec<usize> = m.iter().map(|x| x.len()).collect();
    let mut v = Vec::new();
    product(&sizes, |ix| {
        let ks: Vec<K> = ix.iter().enumerate().map(|(i, j)| m[i][*j]).collect();
        if valid(&ks) {
            v.push(ks);
        }
    });
    v
}

const QNAMES: [&str; 16] = ["", "a", "b.a", "*.a", "c", "d.c", "*", "x", "x.a", "y.b.a", "y.x.a", "x.c", "y.d.c", "y.*", "y.*.a", "b.x"];
const QTYPES: [Rtype; 6] = [Rtype::A, Rtype::TXT, Rtype::NS, Rtype::DS, Rtype::CNAME, Rtype::SOA];

/// Check every query against the reference. `prev`: content the zone held
/// before (for classifying history-dependent mismatches).
/// Nodes the tree holds after building/writing content `c`: names with data and their ancestors.
fn nodes_of(c: &Content) -> BTreeSet<RelName> {
    let mut s = BTreeSet::new();
    for (n, d) in &c.names {
        if !d.is_empty() {
            for i in 1..=n.len() {
                s.insert(n[..i].to_vec());
            }
        }
    }
    s
}

/// Which known mechanism can explain a history-dependent mismatch at `q`?
/// prevs: contents whose nodes exist in the tree from earlier in the history.
fn cause_of(prevs: &[&Content], c: &Content, q: &RelName, hist: &str, e: &Expected) -> &'static str {
    let mut prev_nodes: BTreeSet<RelName> = BTreeSet::new();
    for p in prevs {
        prev_nodes.extend(nodes_of(p));
    }
    let from = prevs[0];
    let on_path = |n: &RelName| -> bool {
        (n.len() <= q.len() && q[..n.len()] == n[..]) || (n.last().map(|l| l == "*").unwrap_or(false) && n.len() - 1 <= q.len() && q[..n.len() - 1] == n[..n.len() - 1])
    };
    // the updater stores NS and CNAME as plain RRsets: no cut / CNAME semantics
    if hist.starts_with("updater") {
        let special_on_path = (1..=q.len()).any(|i| {
            let p = q[..i].to_vec();
            c.is_cut(&p) || !c.rrset(&p, Rtype::CNAME).is_empty()
        }) || {
            // wildcard CNAME
            matches!(e.kind, Kind::Cname)
        };
        if special_on_path {
            return "updater-stores-NS/CNAME-as-plain-rrsets";
        }
        // glue below a cut added as ordinary nodes
    }
    // a node that existed earlier in the history and has no data or descendants now
    if prev_nodes.iter().any(|n| !c.exists(n) && on_path(n)) {
        return "stale-node-of-removed-name-on-lookup-path";
    }
    // an empty non-terminal on the path whose NxDomain marker was set by the write interface
    let ent_marked = (1..=q.len()).any(|i| {
        let p = q[..i].to_vec();
        c.exists(&p) && !c.has_data(&p) && (!nodes_of(from).contains(&p) || from.has_data(&p) || prevs.len() > 1)
    });
    if ent_marked {
        return "empty-non-terminal-marked-NXDOMAIN-by-write-interface";
    }
    "unexplained"
}

fn check_zone(ctx: &Ctx, stats: &Stats, zone: &Zone, c: &Content, hist: &str, prev: Option<&[&Content]>, case: &dyn Fn() -> Value) {
    check_zone_q(ctx, stats, zone, c, hist, prev, case, &QNAMES)
}

fn check_zone_q(ctx: &Ctx, stats: &Stats, zone: &Zone, c: &Content, hist: &str, prev: Option<&[&Content]>, case: &dyn Fn() -> Value, qnames: &[&str]) {
    let qnames: Vec<RelName> = qnames.iter().map(|qn| rel(qn)).collect();
    check_zone_rel(ctx, stats, zone, c, hist, prev, case, &qnames, &QTYPES)
}

/// A query name as text: labels left to right, octets that are not letters, digits, '*', '-' or '_' as \DDD
/// (for the plain names of the main universe this is the name as the QNAMES table spells it).
fn qshow(q: &RelName) -> String {
    q.iter()
        .rev()
        .map(|l| label_octets(l).iter().map(|b| if b.is_ascii_alphanumeric() || matches!(b, b'*' | b'-' | b'_') { (*b as char).to_string() } else { format!("\\{b:03}") }).collect::<String>())
        .collect::<Vec<_>>()
        .join(".")
}

fn check_zone_rel(ctx: &Ctx, stats: &Stats, zone: &Zone, c: &Content, hist: &str, prev: Option<&[&Content]>, case: &dyn Fn() -> Value, qnames: &[RelName], qtypes: &[Rtype]) {
    let read = zone.read();
    for q in qnames.iter() {
        let q = q.clone();
        let qn = qshow(&q);
        let qn = qn.as_str();
        for qt in qtypes.iter().copied() {
            stats.eval();
            let e = resolve(c, &q, qt);
            let o = match guard(|| query(read.as_ref(), &q, qt)) {
                Ok(o) => o,
                Err(p) => {
                    ctx.violation(&format!("C08|{hist}|panic|{}", panic_class(&p)), &p, json!({"zone": case(), "qname": qn, "qtype": qt.to_string()}));
                    continue;
                }
            };
            stats.count(&format!("answers.{:?}", e.kind));
            if let Err(why) = compare(&e, &o) {
                // structural cause of a history-dependent mismatch
                let what = why.split_whitespace().take(2).collect::<Vec<_>>().join("-");
                let sig = match prev {
                    None => format!("C08|{hist}|qname={}|expected={:?}|observed={:?}|{}", e.qclass, e.kind, o.kind(), what),
                    Some(prevs) => {
                        let cause = cause_of(prevs, c, &q, hist, &e);
                        let fam = if hist.starts_with("updater") { "updater" } else { "write" };
                        if cause == "unexplained" {
                            format!("C08|{hist}|cause=unexplained|qname={}|expected={:?}|observed={:?}|{}", e.qclass, e.kind, o.kind(), what)
                        } else {
                            // each cause implies its observable symptom; anything else is reported in full
                            // (and only a wrong kind of answer: a right kind with wrong sections is not what they describe)
                            let implied = e.kind != o.kind() && match cause {
                                "empty-non-terminal-marked-NXDOMAIN-by-write-interface" => o.kind() == Kind::NxDomain,
                                "stale-node-of-removed-name-on-lookup-path" => matches!(o.kind(), Kind::NxDomain | Kind::NoData),
                                _ => false,
                            };
                            if implied {
                                format!("C08|{fam}|cause={cause}|observed={:?}", o.kind())
                            } else {
                                format!("C08|{hist}|cause={cause}-but-unexpected-symptom|qname={}|expected={:?}|observed={:?}|{}", e.qclass, e.kind, o.kind(), what)
                            }
                        }
                    }
                };
                ctx.violation(&sig, &format!("{qn:?}/{qt}: {why}; expected {:?}, observed {:?}", e.kind, o.kind()), json!({"zone": case(), "history": hist, "qname": qn, "qtype": qt.to_string()}));
            }
        }
    }
    // walk enumerates exactly the records (glue appears under the cut)
    stats.eval();
    match guard(|| walk(read.as_ref())) {
        Ok((w, dup)) => {
            let want = content_as_walk(c);
            if w != want || dup {
                let missing = want.difference(&w).count();
                let extra = w.difference(&want).count();
                let fam = if prev.is_none() { "built" } else if hist.starts_with("updater") { "updater" } else { "write" };
                ctx.violation(&format!("C08|{fam}|walk|missing={}|extra={}|dup={dup}", missing.min(1), extra.min(1)), &format!("walk() enumerates {} records, content has {} (missing {missing}, extra {extra})", w.len(), want.len()), json!({"zone": case(), "history": hist}));
            }
        }
        Err(p) => {
            ctx.violation(&format!("C08|{hist}|walk|panic|{}", panic_class(&p)), &p, json!({"zone": case(), "history": hist}));
        }
    }
}

fn soa_record(c: &Content) -> domain::zonetree::types::StoredRecord {
    record_of(&vec![], &c.soa())
}

/// History U: ZoneUpdater, AXFR-style full replacement of `from` by `to`.
fn updater_replace(from: &Content, to: &Content) -> Result<Zone, String> {
    let zone = build_direct(from, false);
    updater_replace_on(&zone, to)?;
    Ok(zone)
}

fn updater_replace_on(zone: &Zone, to: &Content) -> Result<(), String> {
    let rt = rt();
    rt.block_on(async {
        let mut up = ZoneUpdater::<domain::zonetree::types::StoredName>::new(zone.clone()).await.map_err(|e| format!("{e:?}"))?;
        up.apply(ZoneUpdate::DeleteAllRecords).await.map_err(|e| format!("{e:?}"))?;
        for (n, r) in to.records() {
            if matches!(r, Rd::Soa(_)) {
                continue;
            }
            up.apply(ZoneUpdate::AddRecord(record_of(&n, &r))).await.map_err(|e| format!("{e:?}"))?;
        }
        up.apply(ZoneUpdate::Finished(soa_record(to))).await.map_err(|e| format!("{e:?}"))?;
        Ok::<(), String>(())
    })
}

/// History E: ZoneUpdater, IXFR-style edit from `from` to `to`.
fn updater_edit(from: &Content, to: &Content) -> Result<Zone, String> {
    let zone = build_direct(from, false);
    updater_edit_on(&zone, from, to)?;
    Ok(zone)
}

fn updater_edit_on(zone: &Zone, from: &Content, to: &Content) -> Result<(), String> {
    let rt = rt();
    let (fr, tr) = (from.records(), to.records());
    rt.block_on(async {
        let mut up = ZoneUpdater::<domain::zonetree::types::StoredName>::new(zone.clone()).await.map_err(|e| format!("{e:?}"))?;
        up.apply(ZoneUpdate::BeginBatchDelete(soa_record(from))).await.map_err(|e| format!("{e:?}"))?;
        for (n, r) in fr.difference(&tr) {
            if matches!(r, Rd::Soa(_)) {
                continue;
            }
            up.apply(ZoneUpdate::DeleteRecord(record_of(n, r))).await.map_err(|e| format!("{e:?}"))?;
        }
        up.apply(ZoneUpdate::BeginBatchAdd(soa_record(to))).await.map_err(|e| format!("{e:?}"))?;
        for (n, r) in tr.difference(&fr) {
            if matches!(r, Rd::Soa(_)) {
                continue;
            }
            up.apply(ZoneUpdate::AddRecord(record_of(n, r))).await.map_err(|e| format!("{e:?}"))?;
        }
        up.apply(ZoneUpdate::Finished(soa_record(to))).await.map_err(|e| format!("{e:?}"))?;
        Ok::<(), String>(())
    })
}

/// History W: write interface edit, optionally preceded by an abandoned attempt.
fn write_edit(from: &Content, to: &Content, abandoned_first: Option<&Content>, via_remove_all: bool) -> Zone {
    write_edit_opt(from, to, abandoned_first, via_remove_all, false)
}

fn write_edit_opt(from: &Content, to: &Content, abandoned_first: Option<&Content>, via_remove_all: bool, churn: bool) -> Zone {
    write_edit_full(from, to, abandoned_first, false, via_remove_all, churn)
}

/// `abandon_as_replacement`: the abandoned attempt is a full replacement (remove_all, then the junk
/// content is written), as an AXFR that dies half way does it.
fn write_edit_full(from: &Content, to: &Content, abandoned_first: Option<&Content>, abandon_as_replacement: bool, via_remove_all: bool, churn: bool) -> Zone {
    let zone = build_direct(from, false);
    let rt = rt();
    rt.block_on(async {
        if let Some(junk) = abandoned_first {
            let w = zone.write().await;
            let apex = w.open(false).await.unwrap();
            let mut names: BTreeSet<RelName> = from.names.keys().cloned().collect();
            names.extend(junk.names.keys().cloned());
            if abandon_as_replacement {
                apex.remove_all().await.unwrap();
            }
            for n in &names {
                write_name(apex.as_ref(), junk, if abandon_as_replacement { None } else { Some(from) }, n).await;
            }
            drop(apex);
            drop(w); // never committed
        }
        let mut w = zone.write().await;
        let apex = w.open(false).await.unwrap();
        let mut names: BTreeSet<RelName> = from.names.keys().cloned().collect();
        names.extend(to.names.keys().cloned());
        if via_remove_all {
            apex.remove_all().await.unwrap();
            for n in &names {
                write_name(apex.as_ref(), to, None, n).await;
            }
        } else {
            // names whose data differs, plus - because glue lives inside the
            // cut and cut status changes the representation of everything
            // below - the cut above and all names below a changed name
            let changed: Vec<&RelName> = names.iter().filter(|n| from.names.get(*n) != to.names.get(*n)).collect();
            let dirty: Vec<&RelName> = names
                .iter()
                .filter(|n| {
                    changed.iter().any(|ch| {
                        // (the apex always changes - its SOA serial does - but it is never a cut: only the apex itself is rewritten then)
                        let below = if ch.is_empty() { n.is_empty() } else { n.len() >= ch.len() && n[..ch.len()] == ch[..] };
                        let cut_above = ch.len() > n.len() && ch[..n.len()] == n[..] && (from.is_cut(n) || to.is_cut(n));
                        // the glue of a cut is part of the cut: rewrite it when a target's addresses change
                        let glue_of = ns_targets(from, n).contains(ch) || ns_targets(to, n).contains(ch);
                        below || cut_above || glue_of
                    })
                })
                .collect();
            // cuts first? no: parents before children so that nodes exist in path order
            for n in dirty {
                write_name_opt(apex.as_ref(), to, Some(from), n, churn).await;
            }
        }
        drop(apex);
        w.commit(false).await.unwrap();
    });
    zone
}

/// Two committed write batches: from2 -> from -> to.
fn write_edit2(from2: &Content, from: &Content, to: &Content) -> Zone {
    let zone = build_direct(from2, false);
    let rt = rt();
    rt.block_on(async {
        for (a, b) in [(from2, from), (from, to)] {
            let mut w = zone.write().await;
            let apex = w.open(false).await.unwrap();
            let mut names: BTreeSet<RelName> = a.names.keys().cloned().collect();
            names.extend(b.names.keys().cloned());
            let changed: Vec<&RelName> = names.iter().filter(|n| a.names.get(*n) != b.names.get(*n)).collect();
            let dirty: Vec<&RelName> = names
                .iter()
                .filter(|n| {
                    changed.iter().any(|ch| {
                        // (the apex always changes - its SOA serial does - but it is never a cut: only the apex itself is rewritten then)
                        let below = if ch.is_empty() { n.is_empty() } else { n.len() >= ch.len() && n[..ch.len()] == ch[..] };
                        let cut_above = ch.len() > n.len() && ch[..n.len()] == n[..] && (a.is_cut(n) || b.is_cut(n));
                        let glue_of = ns_targets(a, n).contains(ch) || ns_targets(b, n).contains(ch);
                        below || cut_above || glue_of
                    })
                })
                .collect();
            for n in dirty {
                write_name(apex.as_ref(), b, Some(a), n).await;
            }
            drop(apex);
            w.commit(false).await.unwrap();
        }
    });
    zone
}

fn neighbours(ks: &[K], quick: bool) -> Vec<Vec<K>> {
    let m = menus(quick);
    let mut v = Vec::new();
    for i in 0..ks.len() {
        for k in &m[i] {
            if *k != ks[i] {
                let mut n = ks.to_vec();
                n[i] = *k;
                if valid(&n) {
                    v.push(n);
                }
            }
        }
    }
    v
}

/// Contents without NS/DS/CNAME: the ZoneUpdater has no notion of cuts and
/// CNAME nodes (known finding, witnessed separately), so its histories are
/// explored over plain-data contents only.
fn plain(ks: &[K]) -> bool {
    ks.iter().all(|k| matches!(k, K::None | K::A | K::Txt | K::ATxt))
}

fn desc(ks: &[K]) -> Value {
    json!(SLOTS.iter().zip(ks.iter()).map(|(s, k)| format!("{s}={k:?}")).collect::<Vec<_>>())
}

// ---------------------------------------------------------------------------
// Part T: the set of zones (zonetree::tree::ZoneTree).
// RFC 1034 4.3.2 step 2: the zone that answers a query is the nearest
// ancestor zone of QNAME among the zones present - a function of the present
// set only, whatever inserts and removals led to it.
// ---------------------------------------------------------------------------
const T_ZONES: [(&str, u16); 7] = [("z.", 1), ("a.z.", 1), ("b.a.z.", 1), ("c.z.", 1), ("y.", 1), (".", 1), ("a.z.", 3)];
const T_QNAMES: [&str; 12] = [".", "z.", "a.z.", "b.a.z.", "x.b.a.z.", "x.a.z.", "c.z.", "x.c.z.", "x.z.", "y.", "x.y.", "w."];

fn t_zone(i: usize) -> Zone {
    use domain::base::iana::Class;
    let (n, c) = T_ZONES[i];
    domain::zonetree::ZoneBuilder::new(sname(n), Class::from_int(c)).build()
}

fn t_wire(name: &str) -> Vec<u8> {
    let mut w = Vec::new();
    for l in name.split('.').filter(|l| !l.is_empty()) {
        w.push(l.len() as u8);
        w.extend(l.to_ascii_lowercase().bytes());
    }
    w.push(0);
    w
}

/// reference: index of the present zone of that class whose apex is the longest suffix of qname
fn t_reference(present: u8, qname: &str, class: u16) -> Option<usize> {
    let q = t_wire(qname);
    let mut best: Option<(usize, usize)> = None;
    for (i, (n, c)) in T_ZONES.iter().enumerate() {
        if present & (1 << i) == 0 || *c != class {
            continue;
        }
        let a = t_wire(n);
        // suffix at a label boundary
        let mut off = 0usize;
        let mut hit = false;
        loop {
            if q[off..] == a[..] {
                hit = true;
                break;
            }
            let l = q[off] as usize;
            if l == 0 {
                break;
            }
            off += 1 + l;
        }
        if hit && best.map(|(_, len)| a.len() > len).unwrap_or(true) {
            best = Some((i, a.len()));
        }
    }
    best.map(|b| b.0)
}

fn zone_tree_part(ctx: &Ctx, stats: &Stats, quick: bool) -> (u64, u64) {
    use domain::base::iana::Class;
    use domain::zonetree::ZoneTree;
    let depth = if quick { 4 } else { 5 };
    let nops = T_ZONES.len() * 2; // insert i / remove i
    let total = (1..=depth).map(|d| (nops as u64).pow(d as u32)).sum::<u64>();
    let seqs: Vec<Vec<usize>> = {
        let mut all = vec![vec![]];
        let mut layer: Vec<Vec<usize>> = vec![vec![]];
        for _ in 0..depth {
            let mut next = Vec::with_capacity(layer.len() * nops);
            for s in &layer {
                for o in 0..nops {
                    let mut t = s.clone();
                    t.push(o);
                    next.push(t);
                }
            }
            all.extend(next.iter().cloned());
            layer = next;
        }
        all
    };
    let states = std::sync::Mutex::new(BTreeSet::new());
    // only maximal sequences need running: every prefix is checked on the way
    seqs.par_iter().filter(|s| s.len() == depth).for_each(|seq| {
        let show = |upto: usize| -> Vec<String> { seq[..upto].iter().map(|o| format!("{} {}/{}", if o % 2 == 0 { "insert" } else { "remove" }, T_ZONES[o / 2].0, T_ZONES[o / 2].1)).collect() };
        let r = guard(|| {
            let mut tree = ZoneTree::new();
            let mut present: u8 = 0;
            let mut out: Vec<(String, String, usize)> = Vec::new();
            for (k, o) in seq.iter().enumerate() {
                let i = o / 2;
                let (n, c) = T_ZONES[i];
                let was = present & (1 << i) != 0;
                if o % 2 == 0 {
                    let res = tree.insert_zone(t_zone(i));
                    if was && res.is_ok() {
                        out.push(("C08|zone-tree|insert-of-existing-apex-accepted".into(), format!("insert_zone({n}/{c}) returned Ok although that apex and class is present"), k + 1));
                    }
                    if !was && res.is_err() {
                        out.push(("C08|zone-tree|insert-of-absent-apex-refused".into(), format!("insert_zone({n}/{c}) returned {:?} although no such zone is present", res.err()), k + 1));
                    }
                    present |= 1 << i;
                } else {
                    // the Result for an absent zone is not specified ("Removes the specified zone, if any")
                    let _ = tree.remove_zone(&sname(n), Class::from_int(c));
                    present &= !(1 << i);
                }
                stats.eval();
                // observe
                for q in T_QNAMES {
                    for class in [1u16, 3u16] {
                        let got = tree.find_zone(&sname(q), Class::from_int(class)).map(|z| (format!("{}", z.apex_name()), z.class().to_int()));
                        let want = t_reference(present, q, class).map(|i| (T_ZONES[i].0.to_string(), T_ZONES[i].1));
                        let norm = |x: Option<(String, u16)>| x.map(|(n, c)| (if n.ends_with('.') { n } else { format!("{n}.") }, c));
                        let (got, want) = (norm(got), norm(want));
                        if got != want {
                            let kind = match (&got, &want) {
                                (None, Some(_)) => "present-zone-not-found",
                                (Some(_), None) => "removed-or-foreign-zone-found",
                                _ => "not-the-nearest-ancestor",
                            };
                            out.push((format!("C08|zone-tree|find_zone|{kind}|last-op={}", if o % 2 == 0 { "insert" } else { "remove" }), format!("find_zone({q}, class {class}) = {:?}, nearest present ancestor zone is {:?}", got, want), k + 1));
                        }
                    }
                }
                for (j, (n2, c2)) in T_ZONES.iter().enumerate() {
                    let got = tree.get_zone(&sname(n2), Class::from_int(*c2)).is_some();
                    if got != (present & (1 << j) != 0) {
                        out.push((format!("C08|zone-tree|get_zone|{}", if got { "removed-zone-still-there" } else { "present-zone-missing" }), format!("get_zone({n2}/{c2}) = {got}"), k + 1));
                    }
                }
                let mut listed: Vec<(String, u16)> = tree.iter_zones().map(|z| (format!("{}", z.apex_name()), z.class().to_int())).map(|(n, c)| (if n.ends_with('.') { n } else { format!("{n}.") }, c)).collect();
                listed.sort();
                let mut want: Vec<(String, u16)> = T_ZONES.iter().enumerate().filter(|(j, _)| present & (1 << j) != 0).map(|(_, (n, c))| (n.to_string(), *c)).collect();
                want.sort();
                if listed != want {
                    out.push(("C08|zone-tree|iter_zones-differs-from-present-set".into(), format!("iter_zones() = {:?}, present {:?}", listed, want), k + 1));
                }
                if !out.is_empty() {
                    break; // do not explore through a violating state
                }
            }
            (out, present)
        });
        match r {
            Ok((out, present)) => {
                states.lock().unwrap().insert(present);
                for (sig, what, upto) in out {
                    ctx.violation(&sig, &what, json!({"zone_tree_ops": show(upto)}));
                }
            }
            Err(p) => {
                ctx.violation(&format!("C08|zone-tree|panic|{}", panic_class(&p)), &p, json!({"zone_tree_ops": show(seq.len())}));
            }
        }
    });
    stats.count_n("zone-tree.sequences", total);
    let n_states = states.lock().unwrap().len() as u64;
    (total, n_states)
}

// ---------------------------------------------------------------------------
// TTL-aware observation by an arbitrary (any spelling) query name.
// ---------------------------------------------------------------------------
/// (owner lower-cased wire, type, TTL, normalised RDATA)
type RecT = (Vec<u8>, u16, u32, Vec<u8>);

#[derive(Clone, Debug, PartialEq)]
struct ObsT {
    o: Observed,
    /// answer / authority / additional with TTLs
    t: [BTreeSet<RecT>; 3],
}

/// Err(()) = the zone refused the name as not being inside it.
fn query_name(read: &dyn ReadableZone, name: &StoredName, qtype: Rtype) -> Result<ObsT, ()> {
    let a = read.query(name.clone(), qtype).map_err(|_| ())?;
    let mut q = MessageBuilder::new_vec();
    q.header_mut().set_id(77);
    let mut q = q.question();
    q.push((name.clone(), qtype)).unwrap();
    let qmsg = q.into_message();
    let out = a.to_message(&qmsg, MessageBuilder::new_vec());
    let octets = out.as_slice().to_vec();
    let raw = mc::wire::read_message(&octets).expect("observe: to_message output unreadable");
    let mut o = Observed { rcode: (raw.flags & 0xF) as u8, aa: raw.flags & 0x0400 != 0, answer: BTreeSet::new(), authority: BTreeSet::new(), additional: BTreeSet::new(), dup: false };
    let mut t: [BTreeSet<RecT>; 3] = Default::default();
    for (i, sec) in raw.sections.iter().enumerate() {
        for r in sec {
            // owners are compared case-insensitively: the spelling echoed is the implementation's choice
            let labels: Vec<Vec<u8>> = r.owner.iter().map(|l| mc::wire::lower(l)).collect();
            let item = (mc::wire::to_wire(&labels), r.rtype, norm_rdata(&octets, r.rtype, r.rdata_pos, &r.rdata));
            t[i].insert((item.0.clone(), item.1, r.ttl, item.2.clone()));
            let fresh = match i {
                0 => o.answer.insert(item),
                1 => o.authority.insert(item),
                _ => o.additional.insert(item),
            };
            if !fresh {
                o.dup = true;
            }
        }
    }
    Ok(ObsT { o, t })
}

// ---------------------------------------------------------------------------
// Part N1: the case axis of the query alphabet. DNS names are compared
// case-insensitively (RFC 1034 3.1, RFC 4343): every spelling of a name
// inside the zone gets the answer the reference prescribes for that name -
// never "out of zone" - and the same records, TTLs included, as the
// lower-case spelling (owners compared case-insensitively).
// ---------------------------------------------------------------------------
fn check_case(ctx: &Ctx, stats: &Stats, zone: &Zone, c: &Content, hist: &str, qtypes: &[Rtype], case: &dyn Fn() -> Value) {
    let read = zone.read();
    for qn in QNAMES {
        let q = rel(qn);
        let low_name = spelled_name(&q, Spelling::Lower);
        for qt in qtypes.iter().copied() {
            let e = resolve(c, &q, qt);
            let low = guard(|| query_name(read.as_ref(), &low_name, qt));
            for sp in SPELLINGS {
                let name = spelled_name(&q, sp);
                if name.as_slice() == low_name.as_slice() {
                    continue; // nothing to upper-case in this name
                }
                stats.eval();
                stats.count(&format!("query-case.{sp:?}"));
                let replay = || json!({"part": "N1", "zone": case(), "history": hist, "qname": format!("{name}"), "qtype": qt.to_string()});
                match guard(|| query_name(read.as_ref(), &name, qt)) {
                    Err(p) => {
                        ctx.violation(&format!("C08|query-case|panic|{}", panic_class(&p)), &p, replay());
                    }
                    Ok(Err(())) => {
                        ctx.violation(&format!("C08|query-case|name-inside-the-zone-refused-as-out-of-zone|spelling={sp:?}"), &format!("{name}/{qt}: query() refuses a name that is inside the zone (apex {})", zone.apex_name()), replay());
                    }
                    Ok(Ok(o)) => {
                        if let Err(why) = compare(&e, &o.o) {
                            let what = why.split_whitespace().take(2).collect::<Vec<_>>().join("-");
                            ctx.violation(&format!("C08|query-case|{hist}|spelling={sp:?}|qname={}|expected={:?}|observed={:?}|{}", e.qclass, e.kind, o.o.kind(), what), &format!("{name}/{qt}: {why}; expected {:?}, observed {:?}", e.kind, o.o.kind()), replay());
                        } else if let Ok(Ok(l)) = &low {
                            if l.t != o.t || l.o != o.o {
                                ctx.violation(&format!("C08|query-case|{hist}|spelling={sp:?}|answer-differs-from-the-lower-case-query|kind={:?}", o.o.kind()), &format!("{name}/{qt}: {:?} but {low_name}/{qt}: {:?}", o.t, l.t), replay());
                            }
                        }
                    }
                }
            }
        }
    }
}

// ---------------------------------------------------------------------------
// Reduced universes for the parts S / N2 / N3.
// ---------------------------------------------------------------------------
fn small_menus() -> Vec<Vec<K>> {
    vec![vec![K::None, K::A, K::Cname, K::NsDs], vec![K::None, K::A], vec![K::None, K::Txt], vec![K::None, K::A, K::NsInDs], vec![K::None, K::A], vec![K::None, K::Txt]]
}

fn small_contents() -> Vec<Vec<K>> {
    let m = small_menus();
    let sizes: Vec<usize> = m.iter().map(|x| x.len()).collect();
    let mut v = Vec::new();
    product(&sizes, |ix| {
        let ks: Vec<K> = ix.iter().enumerate().map(|(i, j)| m[i][*j]).collect();
        if valid(&ks) {
            v.push(ks);
        }
    });
    v
}

/// A content of the S universe: a kind per slot plus an optional TXT at the apex.
#[derive(Clone, Debug, PartialEq)]
struct SC {
    ks: Vec<K>,
    apex_txt: bool,
}

impl SC {
    fn content(&self, serial: u32) -> Content {
        let mut c = content_of(&self.ks, serial);
        if self.apex_txt {
            c.add("", Rd::Txt("apex".into()));
        }
        c
    }
    fn desc(&self) -> Value {
        let mut v: Vec<String> = SLOTS.iter().zip(self.ks.iter()).map(|(s, k)| format!("{s}={k:?}")).collect();
        v.push(format!("@txt={}", self.apex_txt));
        json!(v)
    }
    /// every single-slot change over the small menus, the apex TXT toggled; `None` = no RRset edit at all
    fn edits(&self) -> Vec<Option<SC>> {
        let m = small_menus();
        let mut v = vec![None];
        for i in 0..self.ks.len() {
            for k in &m[i] {
                if *k != self.ks[i] {
                    let mut n = self.ks.clone();
                    n[i] = *k;
                    if valid(&n) {
                        v.push(Some(SC { ks: n, apex_txt: self.apex_txt }));
                    }
                }
            }
        }
        v.push(Some(SC { ks: self.ks.clone(), apex_txt: !self.apex_txt }));
        v
    }
}

fn bases(quick: bool) -> Vec<SC> {
    let mut v = vec![
        SC { ks: vec![K::None; 6], apex_txt: false },
        SC { ks: vec![K::A, K::None, K::Txt, K::None, K::None, K::Txt], apex_txt: false },
        SC { ks: vec![K::None, K::A, K::None, K::NsInDs, K::A, K::None], apex_txt: true },
    ];
    if !quick {
        v.push(SC { ks: vec![K::Cname, K::None, K::None, K::A, K::None, K::A], apex_txt: false });
        v.push(SC { ks: vec![K::ATxt, K::A, K::A, K::A, K::None, K::Txt], apex_txt: true });
    }
    v
}

/// Names to rewrite to get from `a` to `b` (see write_edit_full).
fn dirty_names(a: &Content, b: &Content) -> Vec<RelName> {
    let mut names: BTreeSet<RelName> = a.names.keys().cloned().collect();
    names.extend(b.names.keys().cloned());
    let changed: Vec<&RelName> = names.iter().filter(|n| a.names.get(*n) != b.names.get(*n)).collect();
    names
        .iter()
        .filter(|n| {
            changed.iter().any(|ch| {
                let below = if ch.is_empty() { n.is_empty() } else { n.len() >= ch.len() && n[..ch.len()] == ch[..] };
                let cut_above = ch.len() > n.len() && ch[..n.len()] == n[..] && (a.is_cut(n) || b.is_cut(n));
                let glue_of = ns_targets(a, n).contains(ch) || ns_targets(b, n).contains(ch);
                below || cut_above || glue_of
            })
        })
        .cloned()
        .collect()
}

// ---------------------------------------------------------------------------
// Part S: how a write-interface batch ends. The zone's SOA is part of its
// content; a commit either leaves it alone, or the caller stored a new one,
// or the library is asked to derive one (commit(bump_soa_serial = true):
// the old SOA with the serial advanced by one in RFC 1982 arithmetic, unless
// the batch stored a new SOA itself). After every commit of a chain of
// commits: every negative answer carries exactly the zone's current SOA, a
// direct SOA query at the apex returns the same record, all answers are
// those of the reference over the model content and - TTLs included - those
// of a fresh ZoneBuilder-built zone with the same records.
// ---------------------------------------------------------------------------
#[derive(Clone, Copy, Debug, PartialEq)]
enum Flav {
    /// the batch stores a new SOA; commit(false)
    Explicit,
    /// the batch does not touch the SOA; commit(false)
    Untouched,
    /// the batch does not touch the SOA; commit(true)
    Bump,
    /// the batch stores a new SOA; commit(true)
    ExplicitBump,
}
const FLAVS: [Flav; 4] = [Flav::Explicit, Flav::Untouched, Flav::Bump, Flav::ExplicitBump];
const S_QNAMES: [&str; 8] = ["", "a", "b.a", "c", "x", "x.a", "y.d.c", "y.*"];
/// the SOA MINIMUM field of the fixture's SOA records
const SOA_MINIMUM: u32 = 13;

#[derive(Clone, Copy, Debug, PartialEq)]
struct SoaM {
    serial: u32,
    ttl: u32,
}

fn soa_rrset(m: SoaM) -> domain::zonetree::SharedRrset {
    with_fix_opts(FixOpts { soa_ttl: m.ttl, ..Default::default() }, || rrset_of(&[Rd::Soa(m.serial)]))
}

/// What the caller stores when the flavour says "explicit": another serial and another TTL.
fn explicit_next(m: SoaM) -> SoaM {
    SoaM { serial: m.serial.wrapping_add(2), ttl: if m.ttl == TTL { 77 } else { TTL } }
}

/// The model: the SOA after a commit of that flavour.
fn model_next(m: SoaM, f: Flav) -> SoaM {
    match f {
        Flav::Explicit | Flav::ExplicitBump => explicit_next(m),
        Flav::Untouched => m,
        // RFC 1982 3.1: s' = (s + n) modulo 2^32; everything else as it was
        Flav::Bump => SoaM { serial: ((m.serial as u64 + 1) % (1u64 << 32)) as u32, ttl: m.ttl },
    }
}

/// One committed batch on `zone`: the RRset edits a -> b (same SOA in both), the SOA handled as `explicit` / `bump` say.
fn commit_step(zone: &Zone, a: &Content, b: &Content, explicit: Option<SoaM>, bump: bool, create_diff: bool) {
    let rt = rt();
    rt.block_on(async {
        let mut w = zone.write().await;
        let apex = w.open(create_diff).await.unwrap();
        for n in dirty_names(a, b) {
            if n.is_empty() {
                // the apex: everything but the SOA (the SOA is the flavour's business) and the NS (fixed)
                for t in [Rtype::A, Rtype::TXT] {
                    let (old, new) = (a.rrset(&n, t), b.rrset(&n, t));
                    if new.is_empty() && !old.is_empty() {
                        apex.remove_rrset(t).await.unwrap();
                    } else if new != old {
                        apex.update_rrset(rrset_of(&new)).await.unwrap();
                    }
                }
            } else {
                write_name(apex.as_ref(), b, Some(a), &n).await;
            }
        }
        if let Some(m) = explicit {
            apex.update_rrset(soa_rrset(m)).await.unwrap();
        }
        drop(apex);
        w.commit(bump).await.unwrap();
    });
}

/// An ordinary write-interface edit from -> to on an existing zone (the new SOA stored, commit(false)).
fn write_step(zone: &Zone, from: &Content, to: &Content) {
    let Rd::Soa(serial) = to.soa() else { unreachable!() };
    let mut a = from.clone();
    a.set_serial(serial);
    commit_step(zone, &a, to, Some(SoaM { serial, ttl: TTL }), false, false)
}

/// The SOA oracle proper (see part S).
fn check_soa(ctx: &Ctx, stats: &Stats, zone: &Zone, c: &Content, m: SoaM, last: &str, case: &dyn Fn() -> Value) {
    let fresh = with_fix_opts(FixOpts { soa_ttl: m.ttl, ..Default::default() }, || build_direct(c, false));
    let (read, fread) = (zone.read(), fresh.read());
    let apex_wire = mc::wire::to_wire(&[APEX.as_bytes().to_vec()]);
    let soa_wire = Rd::Soa(m.serial).wire();
    // RFC 2308 3: the negative answer's SOA has the SOA's TTL or, capped, the MINIMUM field if that is lower
    let neg_ttls = [m.ttl, m.ttl.min(SOA_MINIMUM)];
    for qn in S_QNAMES {
        let q = rel(qn);
        for qt in QTYPES {
            stats.eval();
            let name = abs_name(&q);
            let replay = || json!({"part": "S", "chain": case(), "qname": qn, "qtype": qt.to_string()});
            let o = match guard(|| query_name(read.as_ref(), &name, qt)) {
                Ok(Ok(o)) => o,
                Ok(Err(())) => {
                    ctx.violation("C08|write-commit|name-inside-the-zone-refused-as-out-of-zone", &format!("{qn:?}/{qt}"), replay());
                    continue;
                }
                Err(p) => {
                    ctx.violation(&format!("C08|write-commit|query-panic|{}", panic_class(&p)), &p, replay());
                    continue;
                }
            };
            // every negative answer the zone gives - right or wrong about the name - carries the current SOA
            if matches!(o.o.kind(), Kind::NxDomain | Kind::NoData) {
                stats.count("commit-flavours.negative-answers");
                let soas: Vec<&RecT> = o.t[1].iter().filter(|r| r.1 == 6).collect();
                let why = if soas.is_empty() {
                    Some("no-soa")
                } else if o.t[1].len() != 1 {
                    Some("more-than-the-soa")
                } else if soas[0].0 != apex_wire {
                    Some("owner-is-not-the-apex")
                } else if soas[0].3 != soa_wire {
                    // serial = the 4 octets before the last 16
                    let n = soa_wire.len();
                    if soas[0].3.len() == n && soas[0].3[..n - 20] == soa_wire[..n - 20] && soas[0].3[n - 16..] == soa_wire[n - 16..] {
                        Some("serial-is-not-the-current-one")
                    } else {
                        Some("rdata-is-not-the-current-soas")
                    }
                } else if !neg_ttls.contains(&soas[0].2) {
                    Some("ttl-is-neither-the-soas-nor-capped-by-minimum")
                } else {
                    None
                };
                if let Some(why) = why {
                    ctx.violation(&format!("C08|write-commit|last-commit={last}|negative-answer|authority-soa|{why}"), &format!("{qn:?}/{qt}: authority {:?}; the zone's SOA is serial {} TTL {}", o.t[1], m.serial, m.ttl), replay());
                }
            }
            // a direct SOA query at the apex: that very record, with its own TTL
            if q.is_empty() && qt == Rtype::SOA {
                let want: BTreeSet<RecT> = [(apex_wire.clone(), 6u16, m.ttl, soa_wire.clone())].into_iter().collect();
                if o.t[0] != want {
                    ctx.violation(&format!("C08|write-commit|last-commit={last}|apex-soa-query|not-the-current-soa"), &format!("answer {:?}; the zone's SOA is serial {} TTL {}", o.t[0], m.serial, m.ttl), replay());
                }
            }
            // answers that are right (wrong ones are classified by check_zone): positive TTLs are the RRsets',
            // and everything equals what a fresh zone with the same records says
            let e = resolve(c, &q, qt);
            if compare(&e, &o.o).is_ok() {
                if let Some(bad) = o.t[0].iter().find(|r| r.2 != if r.1 == 6 { m.ttl } else { TTL }) {
                    ctx.violation(&format!("C08|write-commit|last-commit={last}|answer-ttl-is-not-the-rrsets|kind={:?}", e.kind), &format!("{qn:?}/{qt}: {:?}", bad), replay());
                }
                match guard(|| query_name(fread.as_ref(), &name, qt)) {
                    Ok(Ok(f)) => {
                        if f.t != o.t {
                            let sec = (0..3).find(|i| f.t[*i] != o.t[*i]).map(|i| ["answer", "authority", "additional"][i]).unwrap_or("?");
                            ctx.violation(&format!("C08|write-commit|last-commit={last}|differs-from-fresh-zone-with-the-same-records|kind={:?}|section={sec}", e.kind), &format!("{qn:?}/{qt}: {:?}, fresh zone: {:?}", o.t, f.t), replay());
                        }
                    }
                    _ => {} // a builder-built zone failing is the main part's business
                }
            }
        }
    }
}

fn commit_flavour_part(ctx: &Ctx, stats: &Stats, quick: bool) -> u64 {
    // chains of (edit, flavour) steps
    #[derive(Clone)]
    struct Chain {
        contents: Vec<SC>, // c0, c1, ..
        flavs: Vec<Flav>,
        serial0: u32,
        diff: bool,
    }
    let serials: &[u32] = if quick { &[7, 0xFFFF_FFFF] } else { &[7, 0xFFFF_FFFF, 0xFFFF_FFFE, 0x7FFF_FFFF, 0] };
    let mut chains: Vec<Chain> = Vec::new();
    for k in bases(quick) {
        for e in k.edits() {
            // shapes: edit then revert; nothing then edit; thorough: edit then nothing; edit, nothing, revert
            let k1 = e.clone().unwrap_or(k.clone());
            let mut shapes: Vec<Vec<SC>> = vec![vec![k.clone(), k1.clone(), k.clone()]];
            if e.is_some() {
                shapes.push(vec![k.clone(), k.clone(), k1.clone()]);
                if !quick {
                    shapes.push(vec![k.clone(), k1.clone(), k1.clone()]);
                }
            }
            if !quick {
                shapes.push(vec![k.clone(), k1.clone(), k1.clone(), k.clone()]);
            }
            for sh in shapes {
                let steps = sh.len() - 1;
                let sizes = vec![FLAVS.len(); steps];
                product(&sizes, |ix| {
                    for s0 in serials {
                        for diff in if quick { vec![false] } else { vec![false, true] } {
                            chains.push(Chain { contents: sh.clone(), flavs: ix.iter().map(|i| FLAVS[*i]).collect(), serial0: *s0, diff });
                        }
                    }
                });
            }
        }
    }
    chains.par_iter().for_each(|ch| {
        let mut m = SoaM { serial: ch.serial0, ttl: TTL };
        let case_upto = |upto: usize| json!({"contents": ch.contents[..=upto].iter().map(|c| c.desc()).collect::<Vec<_>>(), "commits": ch.flavs[..upto].iter().map(|f| format!("{f:?}")).collect::<Vec<_>>(), "serial0": ch.serial0, "create_diff": ch.diff});
        let r = guard(|| {
            let zone = build_direct(&ch.contents[0].content(m.serial), false);
            let mut prevs: Vec<Content> = Vec::new();
            for (i, f) in ch.flavs.iter().enumerate() {
                let (a, b) = (ch.contents[i].content(m.serial), ch.contents[i + 1].content(m.serial));
                let explicit = if matches!(f, Flav::Explicit | Flav::ExplicitBump) { Some(explicit_next(m)) } else { None };
                commit_step(&zone, &a, &b, explicit, matches!(f, Flav::Bump | Flav::ExplicitBump), ch.diff);
                m = model_next(m, *f);
                prevs.push(a);
                let c = ch.contents[i + 1].content(m.serial);
                let case = || case_upto(i + 1);
                let pr: Vec<&Content> = prevs.iter().collect();
                stats.count(&format!("commit-flavours.{f:?}"));
                check_zone_q(ctx, stats, &zone, &c, "write-commit-flavours", Some(&pr), &case, &S_QNAMES);
                check_soa(ctx, stats, &zone, &c, m, &format!("{f:?}"), &case);
            }
        });
        if let Err(p) = r {
            ctx.violation(&format!("C08|write-commit|panic|{}", panic_class(&p)), &p, json!({"part": "S", "chain": case_upto(ch.flavs.len())}));
        }
    });
    stats.count_n("commit-flavours.chains", chains.len() as u64);
    chains.len() as u64
}

// ---------------------------------------------------------------------------
// Parts N2 / N3: the case axis on the writing side. An owner name inside
// the zone is accepted in every spelling by every interface that takes owner
// names (ZoneBuilder::insert_*, parsed::Zonefile, update_child, ZoneUpdater
// AddRecord / DeleteRecord / SOA records) and lands at the node of its
// lower-case spelling: the zone then answers like the reference over the
// (case-less) content. N3: the same for a zone whose apex is stored as "Z.".
// ---------------------------------------------------------------------------
fn owner_case_part(ctx: &Ctx, stats: &Stats, quick: bool, all: &[Vec<K>]) -> u64 {
    let zones = std::sync::atomic::AtomicU64::new(0);
    let universe: Vec<Vec<K>> = if quick { small_contents() } else { all.to_vec() };
    let bare = Content::base(0);
    let busy = content_of(&[K::ATxt, K::A, K::A, K::A, K::None, K::Txt], 0);
    // (label, options while building the start zone, options while feeding owner names)
    let mut axes: Vec<(String, FixOpts, FixOpts)> = SPELLINGS.iter().map(|sp| (format!("owners={sp:?}"), FixOpts::default(), FixOpts { owners: *sp, ..Default::default() })).collect();
    axes.push(("apex-stored-upper".into(), FixOpts { zone_apex_upper: true, ..Default::default() }, FixOpts { zone_apex_upper: true, ..Default::default() }));
    axes.push(("apex-stored-upper,owners=AltOdd".into(), FixOpts { zone_apex_upper: true, ..Default::default() }, FixOpts { zone_apex_upper: true, owners: Spelling::AltOdd, ..Default::default() }));
    let refused = |iface: &str, axis: &str, what: &str, case: Value| {
        ctx.violation(&format!("C08|owner-case|{iface}|owner-inside-the-zone-refused|{axis}"), what, case);
    };
    // the result of a guarded history: Ok(zone) or the failure text
    let run = |iface: &str, axis: &str, hist: &str, c: &Content, prev: Option<&[&Content]>, case: &dyn Fn() -> Value, z: Result<Result<Zone, String>, String>, with_case_queries: bool| match z {
        Ok(Ok(z)) => {
            zones.fetch_add(1, std::sync::atomic::Ordering::Relaxed);
            stats.count(&format!("owner-case.{iface}"));
            check_zone(ctx, stats, &z, c, hist, prev, case);
            if with_case_queries {
                check_case(ctx, stats, &z, c, hist, &QTYPES, case);
            }
        }
        Ok(Err(e)) => refused(iface, axis, &e, case()),
        Err(p) => refused(iface, axis, &p, case()),
    };
    universe.par_iter().for_each(|ks| {
        let c = content_of(ks, 1);
        for (axis, o_build, o_feed) in &axes {
            let case = || json!({"part": "N2", "contents": desc(ks), "axis": axis});
            let upper_apex = o_build.zone_apex_upper;
            // ZoneBuilder / parsed zonefile fed with the spelled owners
            run("ZoneBuilder", axis, "owner-case-builder", &c, None, &case, guard(|| Ok(with_fix_opts(*o_feed, || build_direct(&c, false)))), upper_apex);
            run("parsed-zonefile", axis, "owner-case-parsed", &c, None, &case, guard(|| with_fix_opts(*o_feed, || build_parsed(&c))), upper_apex);
            // write interface / updater: the start zone as o_build says, the batch with spelled owners
            run(
                "write-interface",
                axis,
                "write-owner-case-from-bare",
                &c,
                Some(&[&bare]),
                &case,
                guard(|| {
                    let z = with_fix_opts(*o_build, || build_direct(&bare, false));
                    with_fix_opts(*o_feed, || write_step(&z, &bare, &c));
                    Ok(z)
                }),
                false,
            );
            if plain(ks) {
                run(
                    "ZoneUpdater",
                    axis,
                    "updater-owner-case-replace-from-busy",
                    &c,
                    Some(&[&busy]),
                    &case,
                    guard(|| {
                        let z = with_fix_opts(*o_build, || build_direct(&busy, false));
                        with_fix_opts(*o_feed, || updater_replace_on(&z, &c))?;
                        Ok(z)
                    }),
                    false,
                );
            }
        }
    });
    // edits of an existing (lower-case built) zone: the spelled owner must reach the node that is there
    let mut edits: Vec<(SC, SC)> = Vec::new();
    for k in bases(quick) {
        for e in k.edits().into_iter().flatten() {
            if e.apex_txt != k.apex_txt {
                continue; // (the apex has no label to spell; its owner spelling is covered by the SOA/NS records above)
            }
            edits.push((k.clone(), e.clone()));
            edits.push((e, k.clone()));
        }
    }
    edits.par_iter().for_each(|(from_sc, to_sc)| {
        let (from, to) = (from_sc.content(0), to_sc.content(1));
        for (axis, o_build, o_feed) in &axes {
            let case = || json!({"part": "N2", "from": from_sc.desc(), "to": to_sc.desc(), "axis": axis});
            run(
                "write-interface",
                axis,
                "write-owner-case-edit",
                &to,
                Some(&[&from]),
                &case,
                guard(|| {
                    let z = with_fix_opts(*o_build, || build_direct(&from, false));
                    with_fix_opts(*o_feed, || write_step(&z, &from, &to));
                    Ok(z)
                }),
                false,
            );
            if plain(&from_sc.ks) && plain(&to_sc.ks) {
                run(
                    "ZoneUpdater",
                    axis,
                    "updater-owner-case-edit",
                    &to,
                    Some(&[&from]),
                    &case,
                    guard(|| {
                        let z = with_fix_opts(*o_build, || build_direct(&from, false));
                        with_fix_opts(*o_feed, || updater_edit_on(&z, &from, &to))?;
                        Ok(z)
                    }),
                    false,
                );
            }
        }
    });
    zones.load(std::sync::atomic::Ordering::Relaxed)
}

// ---------------------------------------------------------------------------
// Part L: the label-octet axis. A label is an arbitrary string of 1..63
// octets (RFC 1035 3.1, RFC 2181 11): 0x00, '.', octets that look like a
// length octet, '*' inside a longer label and octets above 0x7F are ordinary
// content; two labels are the same iff they have the same length and the same
// octets up to ASCII case (RFC 4343) - and only A-Z/a-z fold. The tree descent
// must therefore tell any two different labels of the menu apart and find
// every one of them again, at the first level below the apex and one level
// deeper, whichever interface stored the name.
//
// Universe: for every ordered pair (p, q) of different menu labels the
// records P: p A, Q: q A+TXT, QP: q.p A, PQ: p.q A (q an empty non-terminal
// unless Q), W: * A+TXT, WP: *.p TXT; contents = a menu of subsets (4, thorough
// 8). Queries: the apex, m, m.p and m.q for EVERY menu label m (present
// and absent ones) x {A, TXT}, lower-case and with the labels upper-cased.
// Oracle: the reference resolver (labels compared as octet strings), walk().
// ---------------------------------------------------------------------------
fn l_menu(quick: bool) -> Vec<Vec<u8>> {
    let mut v: Vec<Vec<u8>> = vec![
        b"a".to_vec(),
        b"ab".to_vec(),    // a sibling that is a proper extension of "a"
        b"a\0".to_vec(),   // ends in NUL
        b"b\0".to_vec(),   // another one that ends in NUL
        b"\0".to_vec(),    // NUL only
        b"a\0b".to_vec(),  // NUL inside
        b"\0a".to_vec(),   // NUL first
        b"a.b".to_vec(),   // '.' as an octet
        b"\x01a".to_vec(), // content that reads like the wire form of the label "a"
        b"\x01z".to_vec(), // content that reads like the wire form of the apex label
        b"*".to_vec(),     // the wildcard label
        b"*a".to_vec(),    // '*' inside a longer label: not a wildcard
        b"a*".to_vec(),
        b"@".to_vec(),     // 0x40 / 0x60 and 0x5B / 0x7B differ by the case bit but are not letters
        b"`".to_vec(),
        b"[".to_vec(),
        b"{".to_vec(),
        vec![b'a'; 63],    // the longest label (and "a", "ab" are its prefixes)
        vec![0xFF],
        vec![0xC1],        // 0xC1 / 0xE1 differ by the case bit, too
        vec![0xE1],
    ];
    if !quick {
        let mut l62b = vec![b'a'; 62];
        l62b.push(b'b');
        v.extend([b"\0\0".to_vec(), b".".to_vec(), b"**".to_vec(), b" ".to_vec(), b";".to_vec(), b"\"".to_vec(), b"\\".to_vec(), b"(".to_vec(), b"$".to_vec(), b"\x7f".to_vec(), vec![0x80], b"0".to_vec(), b"\x02ab".to_vec(), b"a\0\0".to_vec(), l62b]);
    }
    v
}

const L_P: u8 = 1;
const L_Q: u8 = 2;
const L_QP: u8 = 4;
const L_PQ: u8 = 8;
const L_W: u8 = 16;
const L_WP: u8 = 32;
const L_BITS: [(u8, &str); 6] = [(L_P, "P"), (L_Q, "Q"), (L_QP, "QP"), (L_PQ, "PQ"), (L_W, "W"), (L_WP, "WP")];

fn l_masks(quick: bool) -> Vec<u8> {
    let mut v = vec![L_P | L_QP, L_P | L_QP | L_W | L_WP, L_P | L_PQ, L_P | L_Q | L_QP | L_PQ | L_W];
    if !quick {
        // siblings only; p an empty non-terminal above q.p / above *.p; everything
        v.extend([L_P | L_Q, L_Q | L_QP, L_Q | L_WP, L_P | L_Q | L_QP | L_PQ | L_W | L_WP]);
    }
    v
}

fn l_content(p: &str, q: &str, mask: u8, serial: u32) -> Content {
    let mut c = Content::base(serial);
    let star = "*".to_string();
    let mut add = |n: Vec<String>, rd: Rd| {
        c.names.entry(n).or_default().insert(rd);
    };
    if mask & L_P != 0 {
        add(vec![p.into()], Rd::A(1));
    }
    if mask & L_Q != 0 {
        add(vec![q.into()], Rd::A(4));
        add(vec![q.into()], Rd::Txt("q".into()));
    }
    if mask & L_QP != 0 {
        add(vec![p.into(), q.into()], Rd::A(2));
    }
    if mask & L_PQ != 0 {
        add(vec![q.into(), p.into()], Rd::A(3));
    }
    if mask & L_W != 0 {
        add(vec![star.clone()], Rd::A(9));
        add(vec![star.clone()], Rd::Txt("w".into()));
    }
    if mask & L_WP != 0 {
        add(vec![p.into(), star.clone()], Rd::Txt("wp".into()));
    }
    c
}

/// Names that exist without data of their own.
fn l_ents(c: &Content) -> Vec<RelName> {
    nodes_of(c).into_iter().filter(|n| !c.has_data(n)).collect()
}

/// A wildcard name that exists only as an empty non-terminal is a question of tree shape, not of
/// label octets (and the fixture's resolver does not model it): such contents are left out.
fn l_valid(c: &Content) -> bool {
    !l_ents(c).iter().any(|n| n.last().map(|l| l == "*").unwrap_or(false))
}

/// The content as zone-file text: every owner absolute, octets outside [A-Za-z0-9*_-] as \DDD.
fn l_zone_text(c: &Content, upper: bool) -> String {
    let mut recs: Vec<(RelName, Rd)> = c.records().into_iter().collect();
    recs.sort_by_key(|(n, r)| (!matches!(r, Rd::Soa(_)), n.clone(), r.clone()));
    let mut t = String::new();
    for (n, r) in recs {
        let mut owner = qshow(&n);
        if upper {
            owner = owner.to_ascii_uppercase();
        }
        if !owner.is_empty() {
            owner.push('.');
        }
        owner.push_str("z.");
        let data = match &r {
            Rd::A(k) => format!("A 192.0.2.{k}"),
            Rd::Txt(s) => format!("TXT \"{s}\""),
            Rd::Soa(serial) => format!("SOA ns.other. hm.other. {serial} 10 11 12 13"),
            Rd::NsOut => "NS ns.other.".to_string(),
            other => unreachable!("part L has no {other:?}"),
        };
        t.push_str(&format!("{owner} {TTL} IN {data}\n"));
    }
    t
}

fn l_build_text(c: &Content, upper: bool) -> Result<Zone, String> {
    let text = l_zone_text(c, upper);
    let zf = domain::zonefile::inplace::Zonefile::from(text.as_bytes());
    Zone::try_from(zf).map_err(|e| format!("{e}"))
}

fn label_octet_part(ctx: &Ctx, stats: &Stats, quick: bool) -> (u64, u64, usize) {
    use std::sync::atomic::{AtomicU64, Ordering};
    let menu: Vec<String> = l_menu(quick).iter().map(|o| octets_label(o)).collect();
    let masks = l_masks(quick);
    let (zones, contents) = (AtomicU64::new(0), AtomicU64::new(0));
    let mut pairs: Vec<(usize, usize)> = Vec::new();
    for i in 0..menu.len() {
        for j in 0..menu.len() {
            if i != j {
                pairs.push((i, j));
            }
        }
    }
    let bare = Content::base(0);
    let upper_owners = FixOpts { owners: Spelling::RelUpper, ..Default::default() };
    pairs.par_iter().for_each(|(i, j)| {
        let (p, q) = (&menu[*i], &menu[*j]);
        // every menu label at the first level and below both names of the pair
        let mut qnames: Vec<RelName> = vec![vec![]];
        for m in &menu {
            qnames.push(vec![m.clone()]);
            qnames.push(vec![p.clone(), m.clone()]);
            qnames.push(vec![q.clone(), m.clone()]);
        }
        for mask in &masks {
            let c = l_content(p, q, *mask, 1);
            if !l_valid(&c) {
                continue;
            }
            contents.fetch_add(1, Ordering::Relaxed);
            stats.distinct(fnv(format!("L{:?}", c).as_bytes()));
            let present: Vec<&str> = L_BITS.iter().filter(|(b, _)| mask & b != 0).map(|(_, n)| *n).collect();
            let case_of = |extra: Value| json!({"part": "L", "p": qshow(&vec![p.clone()]), "q": qshow(&vec![q.clone()]), "records": present, "edit": extra});
            let case = || case_of(Value::Null);
            // the oracle for one zone
            let check = |zone: &Zone, c: &Content, hist: &str, prev: Option<&[&Content]>, case: &dyn Fn() -> Value| {
                zones.fetch_add(1, Ordering::Relaxed);
                stats.count(&format!("label-octets.{hist}"));
                check_zone_rel(ctx, stats, zone, c, hist, prev, case, &qnames, &[Rtype::A, Rtype::TXT]);
                // the labels upper-cased: the answer of the lower-case spelling (owners compared case-insensitively)
                // (quick: on the zones built in one go; the read path is the same for all)
                if quick && prev.is_some() {
                    return;
                }
                let read = zone.read();
                for qn in &qnames {
                    let (low, up) = (spelled_name(qn, Spelling::Lower), spelled_name(qn, Spelling::RelUpper));
                    if low.as_slice() == up.as_slice() {
                        continue;
                    }
                    for qt in [Rtype::A, Rtype::TXT] {
                        stats.eval();
                        let replay = || json!({"zone": case(), "history": hist, "qname": qshow(qn), "spelling": "RelUpper", "qtype": qt.to_string()});
                        match (guard(|| query_name(read.as_ref(), &low, qt)), guard(|| query_name(read.as_ref(), &up, qt))) {
                            (_, Err(pn)) => {
                                ctx.violation(&format!("C08|label-octets|query-case|panic|{}", panic_class(&pn)), &pn, replay());
                            }
                            (_, Ok(Err(()))) => {
                                ctx.violation("C08|label-octets|query-case|name-inside-the-zone-refused-as-out-of-zone", &format!("{}/{qt}", qshow(qn)), replay());
                            }
                            (Ok(Ok(l)), Ok(Ok(u))) => {
                                if l.o != u.o || l.t != u.t {
                                    ctx.violation(&format!("C08|label-octets|query-case|answer-differs-from-the-lower-case-query|lower={:?}|upper={:?}", l.o.kind(), u.o.kind()), &format!("{}/{qt} upper-cased: {:?}, lower-case: {:?}", qshow(qn), u.t, l.t), replay());
                                }
                            }
                            _ => {} // the lower-case query failing is reported by check_zone_rel
                        }
                    }
                }
            };
            // a route that hands back a zone or refuses the content
            let run = |hist: &str, c: &Content, prev: Option<&[&Content]>, case: &dyn Fn() -> Value, z: Result<Result<Zone, String>, String>| match z {
                Ok(Ok(z)) => check(&z, c, hist, prev, case),
                Ok(Err(e)) => {
                    ctx.violation(&format!("C08|{hist}|content-refused"), &e, json!({"zone": case(), "history": hist}));
                }
                Err(pn) => {
                    ctx.violation(&format!("C08|{hist}|panic|{}", panic_class(&pn)), &pn, json!({"zone": case(), "history": hist}));
                }
            };
            run("label-octets-builder-fwd", &c, None, &case, guard(|| Ok(build_direct(&c, false))));
            run("label-octets-builder-rev-upper-owners", &c, None, &case, guard(|| Ok(with_fix_opts(upper_owners, || build_direct(&c, true)))));
            run("label-octets-parsed", &c, None, &case, guard(|| build_parsed(&c)));
            run("label-octets-zonefile-text", &c, None, &case, guard(|| l_build_text(&c, false)));
            if !quick {
                run("label-octets-builder-rev", &c, None, &case, guard(|| Ok(build_direct(&c, true))));
                run("label-octets-parsed-upper-owners", &c, None, &case, guard(|| with_fix_opts(upper_owners, || build_parsed(&c))));
                run("label-octets-zonefile-text-upper-owners", &c, None, &case, guard(|| l_build_text(&c, true)));
            }
            // Histories through the write interface and the ZoneUpdater. Their known defects (an empty
            // non-terminal created by update_child, the node a removed name leaves behind) are findings of
            // the main part; here only histories that create neither are run, so that every mismatch counts.
            if l_ents(&c).is_empty() {
                run("write-label-octets-from-bare", &c, Some(&[&bare]), &case, guard(|| Ok(write_edit(&bare, &c, None, false))));
                run("updater-label-octets-replace-from-bare", &c, Some(&[&bare]), &case, guard(|| updater_replace(&bare, &c)));
                if !quick {
                    run("updater-label-octets-replace-from-bare-upper-owners", &c, Some(&[&bare]), &case, guard(|| {
                        let z = build_direct(&bare, false);
                        with_fix_opts(upper_owners, || updater_replace_on(&z, &c))?;
                        Ok(z)
                    }));
                }
                // one record set added to / removed from a builder-built zone: the edit must reach the node of exactly that name
                for (bit, bname) in L_BITS {
                    if mask & bit == 0 || mask == &bit {
                        continue;
                    }
                    // quick: the two names whose labels both come from the menu (q beside p, q below p)
                    if quick && bit != L_Q && bit != L_QP {
                        continue;
                    }
                    let less = l_content(p, q, mask & !bit, 0);
                    if !l_valid(&less) {
                        continue;
                    }
                    let case_add = || case_of(json!({"added": bname}));
                    run("updater-label-octets-edit-add", &c, Some(&[&less]), &case_add, guard(|| updater_edit(&less, &c)));
                    run("write-label-octets-edit-add", &c, Some(&[&less]), &case_add, guard(|| Ok(write_edit(&less, &c, None, false))));
                    // removal: every name of the smaller content keeps data or a descendant with data, the removed
                    // name (if it was a leaf) leaves its node behind - the known stale-node answers are classified
                    // by check_zone_rel; a record removed from the WRONG node shows in walk() and in the answers elsewhere
                    if l_ents(&less).is_empty() {
                        let (mut from, mut to) = (c.clone(), less.clone());
                        from.set_serial(0);
                        to.set_serial(1);
                        let case_del = || case_of(json!({"removed": bname}));
                        run("updater-label-octets-edit-delete", &to, Some(&[&from]), &case_del, guard(|| updater_edit(&from, &to)));
                        if !quick {
                            run("write-label-octets-edit-delete", &to, Some(&[&from]), &case_del, guard(|| Ok(write_edit(&from, &to, None, false))));
                        }
                    }
                }
            }
        }
    });
    (zones.load(Ordering::Relaxed), contents.load(Ordering::Relaxed), menu.len())
}

fn main() {
    let ctx = Ctx::new("C08", "model_checking");
    let stats = Stats::new();
    let quick = ctx.quick();
    let contents = all_contents(quick);
    let transitions = std::sync::atomic::AtomicU64::new(0);
    let tr = |n: u64| {
        transitions.fetch_add(n, std::sync::atomic::Ordering::Relaxed);
    };
    let replay_zone: Option<Vec<String>> = ctx.replay.as_ref().map(|p| {
        let v: Value = serde_json::from_str(&std::fs::read_to_string(p).expect("replay")).expect("json");
        println!("replaying {}: {}", v["signature"], v["what"]);
        v["case"]["zone"]["to"].as_array().or(v["case"]["zone"].as_array()).map(|a| a.iter().map(|x| x.as_str().unwrap_or("").to_string()).collect()).unwrap_or_default()
    });

    contents.par_iter().for_each(|ks| {
        if let Some(z) = &replay_zone {
            let d: Vec<String> = desc(ks).as_array().unwrap().iter().map(|x| x.as_str().unwrap().to_string()).collect();
            if &d != z {
                return;
            }
        }
        let c = content_of(ks, 1);
        stats.distinct(fnv(format!("{:?}", ks).as_bytes()));
        let case = || desc(ks);
        // B: builder, two insertion orders
        for (h, rev) in [("builder-fwd", false), ("builder-rev", true)] {
            match guard(|| build_direct(&c, rev)) {
                Ok(z) => {
                    tr(1);
                    check_zone(&ctx, &stats, &z, &c, h, None, &case);
                    // N1: every spelling of every query name (quick: one builder order, the type menu
                    // cut to an ordinary type and the one answered from the parent side of a cut)
                    if !quick || !rev {
                        check_case(&ctx, &stats, &z, &c, h, if quick { &[Rtype::A, Rtype::DS] } else { &QTYPES }, &case);
                    }
                }
                Err(p) => {
                    ctx.violation(&format!("C08|{h}|build-panic|{}", panic_class(&p)), &p, json!({"zone": case()}));
                }
            }
        }
        // P: parsed zonefile
        match guard(|| build_parsed(&c)) {
            Ok(Ok(z)) => {
                tr(1);
                check_zone(&ctx, &stats, &z, &c, "parsed", None, &case);
                if !quick {
                    check_case(&ctx, &stats, &z, &c, "parsed", &QTYPES, &case);
                }
            }
            Ok(Err(e)) => {
                let class: String = e.chars().filter(|ch| !ch.is_ascii_digit()).take(50).collect();
                ctx.violation(&format!("C08|parsed|rejected|{class}"), &e, json!({"zone": case()}));
            }
            Err(p) => {
                ctx.violation(&format!("C08|parsed|build-panic|{}", panic_class(&p)), &p, json!({"zone": case()}));
            }
        }
        // U: updater full replacement, from the bare zone and from a busy zone
        let bare = Content::base(0);
        let busy = content_of(&[K::ATxt, K::A, K::A, K::A, K::None, K::Txt], 0);
        for (h, from) in [("updater-replace-from-bare", &bare), ("updater-replace-from-busy", &busy)] {
            if !plain(ks) {
                continue;
            }
            match guard(|| updater_replace(from, &c)) {
                Ok(Ok(z)) => {
                    tr(1);
                    check_zone(&ctx, &stats, &z, &c, h, Some(&[from]), &case)
                }
                Ok(Err(e)) => {
                    let class: String = e.chars().filter(|ch| !ch.is_ascii_digit()).take(50).collect();
                    ctx.violation(&format!("C08|{h}|update-error|{class}"), &e, json!({"zone": case()}));
                }
                Err(p) => {
                    ctx.violation(&format!("C08|{h}|panic|{}", panic_class(&p)), &p, json!({"zone": case()}));
                }
            }
        }
        // W-full: write interface from bare zone; and via remove_all from busy
        for (h, from, ra) in [("write-from-bare", &bare, false), ("write-remove_all-from-busy", &busy, true)] {
            match guard(|| write_edit(from, &c, None, ra)) {
                Ok(z) => {
                    tr(1);
                    check_zone(&ctx, &stats, &z, &c, h, Some(&[from]), &case)
                }
                Err(p) => {
                    ctx.violation(&format!("C08|{h}|panic|{}", panic_class(&p)), &p, json!({"zone": case()}));
                }
            }
        }
        // E / W: single-slot edits from every neighbour content
        for nks in neighbours(ks, quick) {
            let from = content_of(&nks, 0);
            let case2 = || json!({"from": desc(&nks), "to": desc(ks)});
            match guard(|| if plain(ks) && plain(&nks) { updater_edit(&from, &c).map(Some) } else { Ok(None) }) {
                Ok(Ok(None)) => {}
                Ok(Ok(Some(z))) => {
                    tr(1);
                    check_zone(&ctx, &stats, &z, &c, "updater-edit", Some(&[&from]), &case2)
                }
                Ok(Err(e)) => {
                    let class: String = e.chars().filter(|ch| !ch.is_ascii_digit()).take(50).collect();
                    ctx.violation(&format!("C08|updater-edit|update-error|{class}"), &e, case2());
                }
                Err(p) => {
                    ctx.violation(&format!("C08|updater-edit|panic|{}", panic_class(&p)), &p, case2());
                }
            }
            match guard(|| write_edit(&from, &c, None, false)) {
                Ok(z) => {
                    tr(1);
                    check_zone(&ctx, &stats, &z, &c, "write-edit", Some(&[&from]), &case2)
                }
                Err(p) => {
                    ctx.violation(&format!("C08|write-edit|panic|{}", panic_class(&p)), &p, case2());
                }
            }
            // replaced-then-removed within one version
            match guard(|| write_edit_opt(&from, &c, None, false, true)) {
                Ok(z) => {
                    tr(1);
                    check_zone(&ctx, &stats, &z, &c, "write-edit-replace-then-remove", Some(&[&from]), &case2)
                }
                Err(p) => {
                    ctx.violation(&format!("C08|write-edit-replace-then-remove|panic|{}", panic_class(&p)), &p, case2());
                }
            }
            // thorough: two committed batches Z'' -> Z' -> Z through the write interface
            if !quick {
                for n2 in neighbours(&nks, quick) {
                    if n2 == *ks {
                        continue;
                    }
                    let from2 = content_of(&n2, 0);
                    let case3 = || json!({"from2": desc(&n2), "from": desc(&nks), "to": desc(ks)});
                    match guard(|| write_edit2(&from2, &from, &c)) {
                        Ok(z) => {
                            tr(1);
                            check_zone(&ctx, &stats, &z, &c, "write-edit-two-batches", Some(&[&from2, &from]), &case3)
                        }
                        Err(p) => {
                            ctx.violation(&format!("C08|write-edit-two-batches|panic|{}", panic_class(&p)), &p, case3());
                        }
                    }
                }
            }
            // an abandoned full replacement (remove_all + part of `busy`, or remove_all alone), then the real edit
            for (h, junk) in [("write-edit-after-abandoned-replacement", &busy), ("write-edit-after-abandoned-remove_all", &bare)] {
                if quick && h.ends_with("replacement") && nks[0] == ks[0] {
                    continue;
                }
                match guard(|| write_edit_full(&from, &c, Some(junk), true, false, false)) {
                    Ok(z) => {
                        tr(1);
                        check_zone(&ctx, &stats, &z, &c, h, Some(&[&from, junk]), &case2)
                    }
                    Err(p) => {
                        ctx.violation(&format!("C08|{h}|panic|{}", panic_class(&p)), &p, case2());
                    }
                }
            }
            // an abandoned attempt (towards `busy`) first, then the real edit
            if !quick || nks[0] != ks[0] {
                match guard(|| write_edit(&from, &c, Some(&busy), false)) {
                    Ok(z) => {
                        tr(1);
                        check_zone(&ctx, &stats, &z, &c, "write-edit-after-abandoned-attempt", Some(&[&from, &busy]), &case2)
                    }
                    Err(p) => {
                        ctx.violation(&format!("C08|write-edit-after-abandoned-attempt|panic|{}", panic_class(&p)), &p, case2());
                    }
                }
            }
        }
    });
    // Witnesses: NS / CNAME added through the ZoneUpdater are not honoured.
    if replay_zone.is_none() {
        for (what, slot_kinds) in [("cname", [K::Cname, K::None, K::None, K::None, K::None, K::None]), ("ns", [K::None, K::None, K::None, K::NsIn, K::A, K::None])] {
            let c = content_of(&slot_kinds, 1);
            let bare = Content::base(0);
            if let Ok(Ok(z)) = guard(|| updater_replace(&bare, &c)) {
                tr(1);
                let read = z.read();
                let mut bad = 0;
                for qn in QNAMES {
                    for qt in QTYPES {
                        let q = rel(qn);
                        let e = resolve(&c, &q, qt);
                        if let Ok(o) = guard(|| query(read.as_ref(), &q, qt)) {
                            if compare(&e, &o).is_err() {
                                bad += 1;
                            }
                        }
                    }
                }
                if bad > 0 {
                    ctx.violation(&format!("C08|updater|witness|{what}-added-through-ZoneUpdater-is-stored-as-plain-rrset"), &format!("{bad} of {} queries answered differently from a builder-built zone with the same records", QNAMES.len() * QTYPES.len()), json!({"zone": desc(&slot_kinds), "history": "updater-replace-from-bare"}));
                }
            }
        }
    }
    let (tree_seqs, tree_sets) = if replay_zone.is_none() { zone_tree_part(&ctx, &stats, quick) } else { (0, 0) };
    // parts S and N2/N3 (their replays carry no "zone": the main loop then runs nothing)
    let own_parts = replay_zone.as_ref().map(|z| z.is_empty()).unwrap_or(true);
    let (commit_chains, owner_case_zones) = if own_parts { (commit_flavour_part(&ctx, &stats, quick), owner_case_part(&ctx, &stats, quick, &contents)) } else { (0, 0) };
    let l_start = std::time::Instant::now();
    let (label_zones, label_contents, label_menu) = if own_parts { label_octet_part(&ctx, &stats, quick) } else { (0, 0, 0) };
    tr(commit_chains + owner_case_zones + label_zones);
    let t = transitions.load(std::sync::atomic::Ordering::Relaxed);
    ctx.finish(
        json!({
            "states": contents.len(),
            "transitions": t.max(1),
            "traces_validated_against_impl": t,
            "evaluations": stats.evals(),
            "distinct_nontrivial": stats.distinct_count(),
            "rule": "states = all zone contents (kind per slot name, consistent with zone rules); transitions = histories executed on the real zone (builder fwd/rev, parsed zonefile, updater full replacement from bare and busy zones, write interface from bare / via remove_all, and for every single-slot neighbour content an updater edit, a write-interface edit, a write-interface edit after an abandoned attempt and after an abandoned full replacement (remove_all, with and without rewriting); thorough: also two committed write batches through every pair of successive single-slot edits); plus the chains of part S (commit_flavours), the zones of parts N2/N3 (case_axis) and the zones of part L (label_octets); evaluations = (qname,qtype) queries + walks compared with the reference resolver",
            "exhaustive": true,
            "zone_tree": {"zones": T_ZONES.iter().map(|(n, c)| format!("{n}/{c}")).collect::<Vec<_>>(), "qnames": T_QNAMES, "operation_sequences": tree_seqs, "final_zone_sets_reached": tree_sets, "rule": "every sequence of insert/remove over the 7 zones (two classes, nested apexes, root) to the depth bound on a real ZoneTree; after every step find_zone for every qname x class == nearest present ancestor (RFC 1034 4.3.2 step 2), get_zone and iter_zones == present set"},
            "commit_flavours": {"flavours": FLAVS.iter().map(|f| format!("{f:?}")).collect::<Vec<_>>(), "chains": commit_chains, "qnames": S_QNAMES, "rule": "part S: for each base content x each single-slot edit (small menus), apex TXT toggle or no RRset edit x chain shape (edit,revert / nothing,edit; thorough also edit,nothing and the 3-commit edit,nothing,revert, with and without a requested diff) x a flavour per commit {new SOA stored + commit(false), SOA untouched + commit(false), SOA untouched + commit(true), new SOA stored + commit(true)} x start serial menu (incl. 2^32-1; thorough 2^32-2, 2^31-1, 0): after EVERY commit the model SOA (explicit: as stored incl. its TTL; commit(true): RFC 1982 serial+1, rest unchanged) must be the one and only authority record of every negative answer (owner, serial, all fields; TTL the SOA's or capped by MINIMUM), the answer of a direct apex SOA query (exact TTL), all answers == reference, positive TTLs == the RRsets', and every right answer == the answer of a fresh ZoneBuilder zone with the same records, TTLs included"},
            "case_axis": {"spellings": SPELLINGS.iter().map(|s| format!("{s:?}")).collect::<Vec<_>>(), "owner_case_zones": owner_case_zones, "rule": "N1: every content (builder zone; thorough also reverse order and parsed zonefile) x every qname x {apex upper, rest upper, all upper, labels alternating even/odd} x qtype (quick: A, DS): never out-of-zone, == reference, == the lower-case query's records incl. TTL (owners compared case-insensitively). N2: every content of the small universe (thorough: all) x the 5 spellings of OWNER names fed to ZoneBuilder::insert_*, parsed::Zonefile, update_child/make_zone_cut (from the bare zone) and ZoneUpdater full replacement; every base-content edit (both directions) through the write interface and ZoneUpdater add/delete with spelled owners against a lower-case built zone: accepted, and all lower-case queries + walk == reference. N3: the same with the zone's apex stored as 'Z.' (owners lower-case and alternating), builder/parsed zones also queried in every spelling"},
            "label_octets": {"labels": l_menu(quick).iter().map(|o| qshow(&vec![octets_label(o)])).collect::<Vec<_>>(), "menu_size": label_menu, "contents": label_contents, "zones": label_zones, "subsets": l_masks(quick).len(), "part_wall_s": (l_start.elapsed().as_secs_f64() * 10.0).round() / 10.0, "rule": "part L: every ordered pair (p,q) of different labels of the hostile menu (NUL at the end / alone / inside / first, '.' as an octet, content that reads like a length octet + label, '*' alone and inside a longer label, non-letters that differ by the case bit 0x20, 63 octets and its prefixes, octets above 0x7F; thorough: more, incl. zone-file specials) x a subset of the records {p A; q A+TXT; q.p A; p.q A (q empty non-terminal); * A+TXT; *.p TXT} (quick: 4 subsets, thorough: 8; a wildcard as empty non-terminal excluded) x route {ZoneBuilder forward; ZoneBuilder reverse with upper-cased owner labels; parsed::Zonefile from records; zone-file TEXT with \\DDD escapes through inplace::Zonefile -> Zone; for contents without empty non-terminal: write interface from the bare zone, ZoneUpdater full replacement from the bare zone, and for every record set of the subset (quick: q and q.p) a ZoneUpdater edit and a write-interface edit that adds it to, and a ZoneUpdater edit that deletes it from, a builder-built zone (thorough: more spellings, write-interface delete)}: queries for the apex and for m, m.p, m.q for EVERY menu label m x {A, TXT} == reference resolver over label lists (octet strings, ASCII-case-insensitive), the same names with upper-cased labels == the lower-case answer incl. TTLs (quick: on the zones built in one go), walk() == the records"},
            "slots": SLOTS,
            "qnames": QNAMES,
            "qtypes": QTYPES.iter().map(|t| t.to_string()).collect::<Vec<_>>(),
            "samples": [desc(&contents[contents.len() / 3]), desc(&contents[contents.len() - 1])],
            "counters": stats.counters_json(),
        }),
        &["HashMap iteration order in the zone is not owned: observations are compared as sets, qtype ANY is excluded", "CNAME answers are not chased (the zone returns the CNAME only)", "additional section: must contain the glue of in-bailiwick NS targets and nothing else"],
    );
}
