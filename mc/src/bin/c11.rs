//! C11 — TSIG: honest exchanges verify, tampering is rejected with the error
//! RFC 8945 assigns, MACs equal an independent RFC 8945 computation.
//!
//! Engine: seqx over the four real state machines (`ClientTransaction`,
//! `ServerTransaction`, `ClientSequence`, `ServerSequence`; all `Clone`, all
//! take `now: Time48`), plus first-order fault enumeration (every single-bit
//! flip and every structural mutation of every signed message).
//!
//! Oracle: an independent RFC 8945 signer/verifier written below on top of
//! `ring::hmac` only (sections "REFERENCE"). It never calls `domain`.
#![allow(clippy::too_many_arguments, clippy::type_complexity)]

use std::collections::{BTreeMap, HashMap};
use std::str::FromStr;
use std::sync::atomic::{AtomicBool, AtomicU64, Ordering as AO};
use std::sync::Arc;

use domain::base::message::Message;
use domain::base::message_builder::{AdditionalBuilder, MessageBuilder};
use domain::base::wire::Composer;
use domain::rdata::tsig::Time48;
use domain::tsig::{
    Algorithm, ClientSequence, ClientTransaction, Key, KeyName, ServerError, ServerSequence,
    ServerTransaction, ValidationError,
};
use mc::wire;
use mc::*;
use octseq::builder::{OctetsBuilder, Truncate};
use rayon::prelude::*;
use ring::hmac;
use serde_json::{json, Value};

static VERBOSE: AtomicBool = AtomicBool::new(false);
fn verbose() -> bool {
    VERBOSE.load(AO::Relaxed)
}

// =====================================================================
// REFERENCE (RFC 8945), independent of `domain`
// =====================================================================

#[derive(Clone, Copy, PartialEq, Eq, Debug, PartialOrd, Ord, Hash)]
enum Alg {
    Sha1,
    Sha256,
    Sha384,
    Sha512,
}
const ALGS: [Alg; 4] = [Alg::Sha1, Alg::Sha256, Alg::Sha384, Alg::Sha512];

impl Alg {
    fn idx(self) -> usize {
        self as usize
    }
    fn from_idx(i: usize) -> Alg {
        ALGS[i]
    }
    /// HMAC output length (RFC 8945 section 6 / FIPS 180).
    fn native(self) -> usize {
        [20, 32, 48, 64][self.idx()]
    }
    /// RFC 8945 5.2.2.1: larger of 10 octets and half the hash length.
    fn floor(self) -> usize {
        std::cmp::max(10, self.native() / 2)
    }
    fn label(self) -> &'static [u8] {
        [&b"hmac-sha1"[..], b"hmac-sha256", b"hmac-sha384", b"hmac-sha512"][self.idx()]
    }
    fn ring(self) -> hmac::Algorithm {
        [
            hmac::HMAC_SHA1_FOR_LEGACY_USE_ONLY,
            hmac::HMAC_SHA256,
            hmac::HMAC_SHA384,
            hmac::HMAC_SHA512,
        ][self.idx()]
    }
    fn lib(self) -> Algorithm {
        [Algorithm::Sha1, Algorithm::Sha256, Algorithm::Sha384, Algorithm::Sha512][self.idx()]
    }
    /// Algorithm names are domain names: compared case-insensitively.
    fn from_labels(l: &[Vec<u8>]) -> Option<Alg> {
        if l.len() != 1 {
            return None;
        }
        ALGS.iter().copied().find(|a| wire::lower(&l[0]) == a.label())
    }
}

fn labels_of(name: &str) -> Vec<Vec<u8>> {
    name.split('.').filter(|s| !s.is_empty()).map(|s| s.as_bytes().to_vec()).collect()
}

#[derive(Clone)]
struct RefKey {
    alg: Alg,
    name: Vec<Vec<u8>>,
    min: usize,
    sign: usize,
    hk: hmac::Key,
}

impl RefKey {
    fn full_mac(&self, parts: &[&[u8]]) -> Vec<u8> {
        let mut c = hmac::Context::with_key(&self.hk);
        for p in parts {
            c.update(p);
        }
        c.sign().as_ref().to_vec()
    }
}

fn time48(t: u64) -> [u8; 6] {
    let b = t.to_be_bytes();
    [b[2], b[3], b[4], b[5], b[6], b[7]]
}

/// RFC 8945 4.3.3 TSIG variables.
fn ref_variables(key: &RefKey, time: u64, fudge: u16, error: u16, other: &[u8]) -> Vec<u8> {
    let mut v = Vec::new();
    let canon: Vec<Vec<u8>> = key.name.iter().map(|l| wire::lower(l)).collect();
    v.extend_from_slice(&wire::to_wire(&canon)); // NAME, canonical wire format
    v.extend_from_slice(&255u16.to_be_bytes()); // CLASS ANY
    v.extend_from_slice(&0u32.to_be_bytes()); // TTL 0
    v.extend_from_slice(&wire::to_wire(&[key.alg.label().to_vec()])); // Algorithm Name
    v.extend_from_slice(&time48(time)); // Time Signed, 48 bit
    v.extend_from_slice(&fudge.to_be_bytes());
    v.extend_from_slice(&error.to_be_bytes());
    v.extend_from_slice(&(other.len() as u16).to_be_bytes());
    v.extend_from_slice(other);
    v
}

/// RFC 8945 5.3.1: timers only for the 2nd.. messages of a sequence.
fn ref_timers(time: u64, fudge: u16) -> Vec<u8> {
    let mut v = time48(time).to_vec();
    v.extend_from_slice(&fudge.to_be_bytes());
    v
}

/// "MAC including the MAC Size field as two octets" (4.3.1).
fn mac_prefix(mac: &[u8]) -> Vec<u8> {
    let mut v = (mac.len() as u16).to_be_bytes().to_vec();
    v.extend_from_slice(mac);
    v
}

fn get16(m: &[u8], p: usize) -> u16 {
    u16::from_be_bytes([m[p], m[p + 1]])
}
fn set16(m: &mut [u8], p: usize, v: u16) {
    m[p..p + 2].copy_from_slice(&v.to_be_bytes());
}

#[derive(Clone, Debug)]
struct Rec {
    section: usize, // 0 answer, 1 authority, 2 additional
    start: usize,
    rtype: u16,
    class: u16,
    ttl: u32,
    rdata: usize,
    rdlen: usize,
    end: usize,
}

struct Walk {
    sec_end: [usize; 3],
    recs: Vec<Rec>,
    end: usize,
}

/// Skip a name: labels until the root label or a compression pointer.
fn skip_name(m: &[u8], mut p: usize) -> Result<usize, String> {
    let mut total = 0usize;
    loop {
        let l = *m.get(p).ok_or("name runs past the end")? as usize;
        if l == 0 {
            if total + 1 > 255 {
                return Err("name longer than 255".into());
            }
            return Ok(p + 1);
        }
        if l & 0xC0 == 0xC0 {
            if p + 2 > m.len() {
                return Err("pointer runs past the end".into());
            }
            return Ok(p + 2);
        }
        if l & 0xC0 != 0 {
            return Err("bad label type".into());
        }
        if p + 1 + l > m.len() {
            return Err("label runs past the end".into());
        }
        total += l + 1;
        if total > 255 {
            return Err("name longer than 255".into());
        }
        p += 1 + l;
    }
}

/// Walk the message by its counts, RFC 1035 4.1.
fn walk(m: &[u8]) -> Result<Walk, String> {
    if m.len() < 12 {
        return Err("short header".into());
    }
    let mut p = 12;
    for _ in 0..get16(m, 4) {
        p = skip_name(m, p)?;
        if p + 4 > m.len() {
            return Err("question runs past the end".into());
        }
        p += 4;
    }
    let mut recs = Vec::new();
    let mut sec_end = [p; 3];
    for s in 0..3 {
        for _ in 0..get16(m, 6 + 2 * s) {
            let start = p;
            let q = skip_name(m, p)?;
            if s == 2 {
                // records of the additional section are candidates for the
                // TSIG record: their owner must be a valid (decompressible) name
                let mut ptrs = Vec::new();
                wire::read_name(m, start, &mut ptrs)?;
            }
            if q + 10 > m.len() {
                return Err("record header runs past the end".into());
            }
            let rdlen = get16(m, q + 8) as usize;
            if q + 10 + rdlen > m.len() {
                return Err("rdata runs past the end".into());
            }
            recs.push(Rec {
                section: s,
                start,
                rtype: get16(m, q),
                class: get16(m, q + 2),
                ttl: u32::from_be_bytes([m[q + 4], m[q + 5], m[q + 6], m[q + 7]]),
                rdata: q + 10,
                rdlen,
                end: q + 10 + rdlen,
            });
            p = q + 10 + rdlen;
        }
        for e in sec_end.iter_mut().skip(s) {
            *e = p;
        }
    }
    Ok(Walk { sec_end, recs, end: p })
}

#[derive(Clone, Debug)]
struct RefTsig {
    start: usize,
    owner: Vec<Vec<u8>>,
    class: u16,
    ttl: u32,
    alg: Vec<Vec<u8>>,
    time: u64,
    fudge: u16,
    mac: Vec<u8>,
    orig_id: u16,
    error: u16,
    other: Vec<u8>,
}

enum Locate {
    Missing,
    Position(&'static str),
    Malformed(String),
    BadRdata(String),
    Found(RefTsig),
}

fn parse_tsig(m: &[u8], r: &Rec) -> Result<RefTsig, Locate> {
    let mut ptrs = Vec::new();
    let (owner, _) = wire::read_name(m, r.start, &mut ptrs).map_err(Locate::Malformed)?;
    let rd = &m[r.rdata..r.rdata + r.rdlen];
    let bad = |s: &str| Locate::BadRdata(s.to_string());
    // Algorithm Name: uncompressed wire name (RFC 8945 4.2)
    let mut p = 0;
    let mut alg = Vec::new();
    let mut total = 0;
    loop {
        let l = *rd.get(p).ok_or_else(|| bad("algorithm name short"))? as usize;
        if l == 0 {
            p += 1;
            break;
        }
        if l & 0xC0 != 0 {
            return Err(bad("algorithm name: label type / compression"));
        }
        let lab = rd.get(p + 1..p + 1 + l).ok_or_else(|| bad("algorithm label short"))?;
        total += 1 + l;
        if total > 254 {
            return Err(bad("algorithm name too long"));
        }
        alg.push(lab.to_vec());
        p += 1 + l;
    }
    if p + 10 > rd.len() {
        return Err(bad("fixed fields short"));
    }
    let time = u64::from_be_bytes([0, 0, rd[p], rd[p + 1], rd[p + 2], rd[p + 3], rd[p + 4], rd[p + 5]]);
    let fudge = get16(rd, p + 6);
    let macsize = get16(rd, p + 8) as usize;
    p += 10;
    let mac = rd.get(p..p + macsize).ok_or_else(|| bad("mac short"))?.to_vec();
    p += macsize;
    if p + 6 > rd.len() {
        return Err(bad("trailer short"));
    }
    let orig_id = get16(rd, p);
    let error = get16(rd, p + 2);
    let olen = get16(rd, p + 4) as usize;
    p += 6;
    let other = rd.get(p..p + olen).ok_or_else(|| bad("other short"))?.to_vec();
    p += olen;
    if p != rd.len() {
        return Err(bad("trailing octets in rdata"));
    }
    Ok(RefTsig {
        start: r.start,
        owner,
        class: r.class,
        ttl: r.ttl,
        alg,
        time,
        fudge,
        mac,
        orig_id,
        error,
        other,
    })
}

/// RFC 8945 5.2: exactly one TSIG, last record of the additional section.
fn ref_locate(m: &[u8]) -> Locate {
    let w = match walk(m) {
        Ok(w) => w,
        Err(e) => return Locate::Malformed(e),
    };
    let tsigs: Vec<usize> = (0..w.recs.len()).filter(|&i| w.recs[i].rtype == 250).collect();
    if tsigs.is_empty() {
        return Locate::Missing;
    }
    if tsigs.iter().any(|&i| w.recs[i].section != 2) {
        return Locate::Position("tsig-in-other-section");
    }
    if tsigs.len() > 1 {
        return Locate::Position("multiple-tsig");
    }
    if tsigs[0] != w.recs.len() - 1 {
        return Locate::Position("tsig-not-last");
    }
    match parse_tsig(m, &w.recs[tsigs[0]]) {
        Ok(t) => Locate::Found(t),
        Err(l) => l,
    }
}

/// Message as digested / as handed back: TSIG cut, original ID, ARCOUNT-1.
fn strip(m: &[u8], t: &RefTsig) -> Vec<u8> {
    let mut v = m[..t.start].to_vec();
    set16(&mut v, 0, t.orig_id);
    let ar = get16(&v, 10);
    set16(&mut v, 10, ar.wrapping_sub(1));
    v
}

#[derive(Clone, Copy, PartialEq, Eq, Debug, PartialOrd, Ord, Hash)]
enum Cls {
    Accept,
    Unsigned,
    FormErr,
    BadKey,
    BadSig,
    BadTrunc,
    BadTime,
    SrvBadKey,
    SrvBadSig,
    SrvBadTime,
    TooManyUnsigned,
    Other,
}
const NCLS: usize = 12;
const CLS_NAMES: [&str; NCLS] = [
    "Accept", "Unsigned", "FormErr", "BadKey", "BadSig", "BadTrunc", "BadTime", "SrvBadKey",
    "SrvBadSig", "SrvBadTime", "TooManyUnsigned", "Other",
];
const REJECTS: [Cls; 5] = [Cls::FormErr, Cls::BadKey, Cls::BadSig, Cls::BadTrunc, Cls::BadTime];

#[derive(Clone, Debug)]
struct Expect {
    primary: Cls,
    alts: Vec<Cls>,
    cause: String,
    /// for SrvBadTime: (client time signed, server time)
    times: Option<(u64, u64)>,
}
impl Expect {
    fn new(primary: Cls, cause: &str) -> Expect {
        Expect { primary, alts: Vec::new(), cause: cause.to_string(), times: None }
    }
    fn alt(mut self, a: &[Cls]) -> Expect {
        self.alts.extend_from_slice(a);
        self
    }
    fn allows(&self, c: Cls) -> bool {
        self.primary == c || self.alts.contains(&c)
    }
}

struct Verified {
    exp: Expect,
    /// set when the MAC verified: the MAC as on the wire
    mac: Option<Vec<u8>>,
    stripped: Vec<u8>,
}

/// MAC, time and truncation checks of RFC 8945 5.2.2 - 5.2.4 (and 5.3.3 for
/// clients), after the key has been identified. `prefix` is everything that
/// is digested before this message (request/prior MAC with length, unsigned
/// messages since).
fn verify_found(
    key: &RefKey,
    m: &[u8],
    t: &RefTsig,
    prefix: &[u8],
    timers_only: bool,
    now: u64,
    client: bool,
) -> Verified {
    let stripped = strip(m, t);
    let done = |exp: Expect, mac: Option<Vec<u8>>, stripped: Vec<u8>| Verified { exp, mac, stripped };
    if t.class != 255 || t.ttl != 0 {
        // CLASS MUST be ANY, TTL MUST be 0 (4.2); both are digested (4.3.3):
        // a verifier either cannot interpret the RR or digests what it got.
        return done(Expect::new(Cls::FormErr, "tsig-class-or-ttl-not-ANY/0").alt(&[Cls::BadSig]), None, stripped);
    }
    let n = t.mac.len();
    let len_alts: &[Cls] = if client { &[Cls::BadTrunc, Cls::BadSig] } else { &[] };
    if n > key.alg.native() {
        return done(Expect::new(Cls::FormErr, "mac-longer-than-hash-output").alt(len_alts), None, stripped);
    }
    if n < key.alg.floor() {
        return done(Expect::new(Cls::FormErr, "mac-shorter-than-rfc-floor").alt(len_alts), None, stripped);
    }
    let vars = if timers_only {
        ref_timers(t.time, t.fudge)
    } else {
        ref_variables(key, t.time, t.fudge, t.error, &t.other)
    };
    let full = key.full_mac(&[prefix, &stripped, &vars]);
    let mut applicable: Vec<Expect> = Vec::new();
    let mac_ok = full[..n] == t.mac[..];
    if !mac_ok {
        applicable.push(Expect::new(Cls::BadSig, "mac-mismatch"));
    }
    let rcode = m[3] & 0x0F;
    if client && rcode == 9 && t.error == 18 {
        if t.other.len() == 6 {
            let o = &t.other;
            let server = u64::from_be_bytes([0, 0, o[0], o[1], o[2], o[3], o[4], o[5]]);
            let mut e = Expect::new(Cls::SrvBadTime, "server-reports-badtime").alt(&[Cls::BadTime]);
            e.times = Some((t.time, server));
            applicable.push(e);
        } else {
            applicable.push(Expect::new(Cls::FormErr, "badtime-without-6-octet-other").alt(&[Cls::BadTime]));
        }
    } else {
        let lo = t.time.saturating_sub(t.fudge as u64);
        let hi = t.time + t.fudge as u64;
        if now < lo || now > hi {
            applicable.push(Expect::new(Cls::BadTime, "time-outside-fudge"));
        }
    }
    let trunc = n < key.min;
    if trunc {
        applicable.push(Expect::new(Cls::BadTrunc, "mac-shorter-than-local-policy"));
    }
    let mac = if mac_ok { Some(t.mac.clone()) } else { None };
    if applicable.is_empty() {
        let mut notes = Vec::new();
        if get16(m, 0) != t.orig_id {
            notes.push("header-id-differs-from-original-id");
        }
        if t.alg.iter().any(|l| l.iter().any(|c| c.is_ascii_uppercase())) {
            notes.push("algorithm-name-not-lowercase");
        }
        if t.owner != key.name {
            notes.push("key-name-case-differs");
        }
        if n < key.alg.native() {
            notes.push("mac-truncated-within-policy");
        }
        let cause = if notes.is_empty() { "intact".to_string() } else { notes.join("+") };
        return done(Expect::new(Cls::Accept, &cause), mac, stripped);
    }
    let mut e = applicable.remove(0);
    // The library checks the local truncation policy first; RFC 8945 5.2
    // orders it last. With two simultaneous faults either error is taken.
    if trunc && e.primary != Cls::BadTrunc {
        e.alts.push(Cls::BadTrunc);
    }
    done(e, mac, stripped)
}

/// RFC 8945 5.2 server side. Returns the verdict and, on accept, the index
/// of the key, the wire MAC and the stripped message.
fn ref_server(store: &[RefKey], m: &[u8], now: u64) -> (Expect, Option<(usize, Vec<u8>, Vec<u8>)>) {
    let t = match ref_locate(m) {
        Locate::Missing => return (Expect::new(Cls::Unsigned, "no-tsig"), None),
        Locate::Position(c) => return (Expect::new(Cls::FormErr, c), None),
        Locate::Malformed(_) => {
            return (Expect::new(Cls::FormErr, "message-unparseable").alt(&[Cls::BadSig, Cls::BadKey]), None)
        }
        Locate::BadRdata(_) => return (Expect::new(Cls::FormErr, "tsig-rdata-uninterpretable"), None),
        Locate::Found(t) => t,
    };
    let alg = match Alg::from_labels(&t.alg) {
        Some(a) => a,
        None => return (Expect::new(Cls::BadKey, "algorithm-unknown"), None),
    };
    let ki = match store.iter().position(|k| k.alg == alg && wire::labels_eq_ci(&k.name, &t.owner)) {
        Some(i) => i,
        None => return (Expect::new(Cls::BadKey, "key-unknown"), None),
    };
    let v = verify_found(&store[ki], m, &t, &[], false, now, false);
    let acc = if v.exp.primary == Cls::Accept { Some((ki, v.mac.clone().unwrap(), v.stripped)) } else { None };
    (v.exp, acc)
}

/// Client-side reference state (transaction or sequence), RFC 8945 5.3.
#[derive(Clone)]
struct RefClient {
    key: RefKey,
    seq: bool,
    first: bool,
    run: usize,
    /// request MAC, later the MAC of the last signed answer (as on the wire)
    prior: Vec<u8>,
    /// unsigned messages since the last signed one
    pending: Vec<u8>,
}

enum Commit {
    None,
    Unsigned,
    Signed { mac: Vec<u8>, stripped: Vec<u8> },
}

impl RefClient {
    fn new(key: &RefKey, seq: bool, request_mac: &[u8]) -> RefClient {
        RefClient { key: key.clone(), seq, first: true, run: 0, prior: request_mac.to_vec(), pending: Vec::new() }
    }

    fn expect(&self, m: &[u8], now: u64) -> (Expect, Commit) {
        let t = match ref_locate(m) {
            Locate::Missing => {
                if !self.seq || self.first {
                    return (Expect::new(Cls::Unsigned, "no-tsig"), Commit::None);
                }
                if self.run >= 99 {
                    return (Expect::new(Cls::TooManyUnsigned, "100th-unsigned-in-a-row"), Commit::None);
                }
                return (Expect::new(Cls::Accept, "unsigned-intermediate"), Commit::Unsigned);
            }
            Locate::Position(c) => return (Expect::new(Cls::FormErr, c), Commit::None),
            Locate::Malformed(_) => {
                return (
                    Expect::new(Cls::FormErr, "message-unparseable").alt(&[Cls::BadSig, Cls::BadKey]),
                    Commit::None,
                )
            }
            Locate::BadRdata(_) => return (Expect::new(Cls::FormErr, "tsig-rdata-uninterpretable"), Commit::None),
            Locate::Found(t) => t,
        };
        let rcode = m[3] & 0x0F;
        if rcode == 9 && (t.error == 16 || t.error == 17) {
            // 5.3.1 / 5.3.2: an error in any case; never an acceptable answer
            let p = if t.error == 17 { Cls::SrvBadKey } else { Cls::SrvBadSig };
            return (Expect::new(p, "notauth-with-badkey-or-badsig").alt(&REJECTS), Commit::None);
        }
        if !wire::labels_eq_ci(&t.owner, &self.key.name) {
            return (Expect::new(Cls::BadKey, "key-name-differs"), Commit::None);
        }
        if Alg::from_labels(&t.alg) != Some(self.key.alg) {
            return (Expect::new(Cls::BadKey, "algorithm-differs"), Commit::None);
        }
        let mut prefix = mac_prefix(&self.prior);
        prefix.extend_from_slice(&self.pending);
        let v = verify_found(&self.key, m, &t, &prefix, self.seq && !self.first, now, true);
        let c = if v.exp.primary == Cls::Accept {
            Commit::Signed { mac: v.mac.clone().unwrap(), stripped: v.stripped }
        } else {
            Commit::None
        };
        (v.exp, c)
    }

    fn commit(&mut self, c: &Commit, m: &[u8]) {
        match c {
            Commit::None => {}
            Commit::Unsigned => {
                self.pending.extend_from_slice(m);
                self.run += 1;
            }
            Commit::Signed { mac, .. } => {
                self.prior = mac.clone();
                self.pending.clear();
                self.run = 0;
                self.first = false;
            }
        }
    }
}

/// Compose a TSIG RR (owner uncompressed).
fn tsig_rr(
    owner: &[Vec<u8>],
    class: u16,
    ttl: u32,
    alg: &[Vec<u8>],
    time: u64,
    fudge: u16,
    mac: &[u8],
    orig_id: u16,
    error: u16,
    other: &[u8],
) -> Vec<u8> {
    let mut rd = wire::to_wire(alg);
    rd.extend_from_slice(&time48(time));
    rd.extend_from_slice(&fudge.to_be_bytes());
    rd.extend_from_slice(&(mac.len() as u16).to_be_bytes());
    rd.extend_from_slice(mac);
    rd.extend_from_slice(&orig_id.to_be_bytes());
    rd.extend_from_slice(&error.to_be_bytes());
    rd.extend_from_slice(&(other.len() as u16).to_be_bytes());
    rd.extend_from_slice(other);
    let mut rr = wire::to_wire(owner);
    rr.extend_from_slice(&250u16.to_be_bytes());
    rr.extend_from_slice(&class.to_be_bytes());
    rr.extend_from_slice(&ttl.to_be_bytes());
    rr.extend_from_slice(&(rd.len() as u16).to_be_bytes());
    rr.extend_from_slice(&rd);
    rr
}

/// Append a record to the additional section.
fn append_ar(presign: &[u8], rr: &[u8]) -> Vec<u8> {
    let mut v = presign.to_vec();
    let ar = get16(&v, 10);
    set16(&mut v, 10, ar + 1);
    v.extend_from_slice(rr);
    v
}

/// Reference signer: sign `presign` and append the TSIG RR.
fn ref_sign(
    key: &RefKey,
    prefix: &[u8],
    presign: &[u8],
    timers_only: bool,
    time: u64,
    fudge: u16,
    error: u16,
    other: &[u8],
) -> (Vec<u8>, Vec<u8>) {
    let vars = if timers_only { ref_timers(time, fudge) } else { ref_variables(key, time, fudge, error, other) };
    let full = key.full_mac(&[prefix, presign, &vars]);
    let mac = full[..key.sign].to_vec();
    let rr = tsig_rr(&key.name, 255, 0, &[key.alg.label().to_vec()], time, fudge, &mac, get16(presign, 0), error, other);
    (append_ar(presign, &rr), mac)
}

// =====================================================================
// DRIVING THE REAL CODE
// =====================================================================

type K = Arc<Key>;

/// An octets builder preloaded with a finished message, so that the harness
/// decides the exact pre-signing octets. `MessageBuilder::from_target`
/// truncates to 0 and appends a fresh header; those two first calls are
/// swallowed, afterwards this is a plain `Vec<u8>`.
#[derive(Clone, Debug)]
struct Pre {
    buf: Vec<u8>,
    stage: u8,
}
impl OctetsBuilder for Pre {
    type AppendError = core::convert::Infallible;
    fn append_slice(&mut self, s: &[u8]) -> Result<(), Self::AppendError> {
        if self.stage == 1 {
            self.stage = 2;
            return Ok(());
        }
        self.buf.extend_from_slice(s);
        Ok(())
    }
}
impl Truncate for Pre {
    fn truncate(&mut self, len: usize) {
        if self.stage == 0 {
            self.stage = 1;
            return;
        }
        self.buf.truncate(len)
    }
}
impl AsRef<[u8]> for Pre {
    fn as_ref(&self) -> &[u8] {
        &self.buf
    }
}
impl AsMut<[u8]> for Pre {
    fn as_mut(&mut self) -> &mut [u8] {
        &mut self.buf
    }
}
impl Composer for Pre {}

fn builder_from(raw: &[u8]) -> AdditionalBuilder<Pre> {
    MessageBuilder::from_target(Pre { buf: raw.to_vec(), stage: 0 }).unwrap().additional()
}

#[derive(Clone, Debug)]
struct KeySpec {
    alg: Alg,
    secret: Vec<u8>,
    name: String,
    min: Option<usize>,
    sign: Option<usize>,
}

impl KeySpec {
    fn json(&self) -> Value {
        json!({"alg": self.alg.idx(), "secret": hex(&self.secret), "name": self.name, "min": self.min, "sign": self.sign})
    }
    fn from_json(v: &Value) -> KeySpec {
        KeySpec {
            alg: Alg::from_idx(v["alg"].as_u64().unwrap() as usize),
            secret: unhex(v["secret"].as_str().unwrap()),
            name: v["name"].as_str().unwrap().to_string(),
            min: v["min"].as_u64().map(|x| x as usize),
            sign: v["sign"].as_u64().map(|x| x as usize),
        }
    }
    fn refkey(&self) -> RefKey {
        RefKey {
            alg: self.alg,
            name: labels_of(&self.name),
            min: self.min.unwrap_or(self.alg.native()),
            sign: self.sign.unwrap_or(self.alg.native()),
            hk: hmac::Key::new(self.alg.ring(), &self.secret),
        }
    }
    fn lib(&self) -> Result<Result<K, String>, String> {
        guard(|| {
            let name = KeyName::from_str(&format!("{}.", self.name.trim_end_matches('.'))).unwrap();
            Key::new(self.alg.lib(), &self.secret, name, self.min, self.sign)
                .map(Arc::new)
                .map_err(|e| format!("{e:?}"))
        })
    }
    fn tag(&self) -> String {
        format!("{:?}/min={:?}/sign={:?}/{}", self.alg, self.min, self.sign, self.name)
    }
}

#[derive(Clone)]
enum LibStore {
    Single(K),
    Multi(Arc<HashMap<(KeyName, Algorithm), K>>),
}

#[derive(Default)]
struct Local {
    evals: u64,
    transitions: u64,
    states: u64,
    lib_cls: [[u64; NCLS]; 3], // role: 0 server, 1 client-tx, 2 client-seq
    ref_cls: [[u64; NCLS]; 3],
    counts: BTreeMap<String, u64>,
    distinct: Vec<u64>,
}
impl Local {
    fn c(&mut self, k: &str) {
        *self.counts.entry(k.to_string()).or_insert(0) += 1;
    }
}

struct Glob {
    stats: Stats,
    transitions: AtomicU64,
    states: AtomicU64,
    lib_cls: [[AtomicU64; NCLS]; 3],
    ref_cls: [[AtomicU64; NCLS]; 3],
}
impl Glob {
    fn new() -> Glob {
        Glob {
            stats: Stats::new(),
            transitions: AtomicU64::new(0),
            states: AtomicU64::new(0),
            lib_cls: Default::default(),
            ref_cls: Default::default(),
        }
    }
    fn merge(&self, l: Local) {
        self.stats.evaluations.fetch_add(l.evals, AO::Relaxed);
        self.transitions.fetch_add(l.transitions, AO::Relaxed);
        self.states.fetch_add(l.states, AO::Relaxed);
        for r in 0..3 {
            for c in 0..NCLS {
                self.lib_cls[r][c].fetch_add(l.lib_cls[r][c], AO::Relaxed);
                self.ref_cls[r][c].fetch_add(l.ref_cls[r][c], AO::Relaxed);
            }
        }
        self.stats.merge_counts(&l.counts);
        self.stats.distinct_many(l.distinct);
    }
    fn hist(&self, which: &[[AtomicU64; NCLS]; 3]) -> Value {
        let roles = ["server", "client-transaction", "client-sequence"];
        let mut o = serde_json::Map::new();
        for r in 0..3 {
            let mut m = serde_json::Map::new();
            for c in 0..NCLS {
                let n = which[r][c].load(AO::Relaxed);
                if n > 0 {
                    m.insert(CLS_NAMES[c].to_string(), json!(n));
                }
            }
            o.insert(roles[r].to_string(), Value::Object(m));
        }
        Value::Object(o)
    }
}

fn judge(
    ctx: &Ctx,
    role: &str,
    op: &str,
    exp: &Expect,
    got: Cls,
    mutation: &str,
    replay: &dyn Fn() -> Value,
) -> bool {
    if verbose() {
        println!(
            "  {role}.{op} [{mutation}]: reference {:?} (also allowed {:?}; cause {}), library {:?}",
            exp.primary, exp.alts, exp.cause, got
        );
    }
    if exp.allows(got) {
        return true;
    }
    let sig = format!("C11|{role}|{op}|{}|expected {:?}|observed {:?}", exp.cause, exp.primary, got);
    ctx.violation(
        &sig,
        &format!(
            "{role}.{op}: RFC 8945 reference says {:?} ({}), library says {:?}; first seen with mutation '{mutation}'",
            exp.primary, exp.cause, got
        ),
        replay(),
    );
    false
}

fn report_panic(ctx: &Ctx, role: &str, op: &str, cause: &str, msg: &str, replay: &dyn Fn() -> Value) {
    if verbose() {
        println!("  {role}.{op}: PANIC {msg}");
    }
    let sig = format!("C11|{role}|{op}|{cause}|panic|{}", panic_class(msg));
    ctx.violation(&sig, &format!("{role}.{op} panicked: {msg}"), replay());
}

fn cls_of_validation(e: &ValidationError) -> Cls {
    match e {
        ValidationError::BadSig => Cls::BadSig,
        ValidationError::BadTrunc => Cls::BadTrunc,
        ValidationError::BadKey => Cls::BadKey,
        ValidationError::BadTime => Cls::BadTime,
        ValidationError::FormErr => Cls::FormErr,
        ValidationError::ServerUnsigned => Cls::Unsigned,
        ValidationError::ServerBadKey => Cls::SrvBadKey,
        ValidationError::ServerBadSig => Cls::SrvBadSig,
        ValidationError::ServerBadTime { .. } => Cls::SrvBadTime,
        ValidationError::TooManyUnsigned => Cls::TooManyUnsigned,
        _ => Cls::Other,
    }
}

fn cls_of_code(c: u16) -> Cls {
    match c {
        1 => Cls::FormErr,
        16 => Cls::BadSig,
        17 => Cls::BadKey,
        18 => Cls::BadTime,
        22 => Cls::BadTrunc,
        _ => Cls::Other,
    }
}

fn lib_server_request(
    store: &LibStore,
    seq: bool,
    m: &mut Message<Vec<u8>>,
    now: u64,
) -> Result<Option<(Option<ServerTransaction<K>>, Option<ServerSequence<K>>)>, ServerError<K>> {
    let now = Time48::from_u64(now);
    match (store, seq) {
        (LibStore::Single(k), false) => ServerTransaction::request(k, m, now).map(|o| o.map(|t| (Some(t), None))),
        (LibStore::Single(k), true) => ServerSequence::request(k, m, now).map(|o| o.map(|t| (None, Some(t)))),
        (LibStore::Multi(h), false) => ServerTransaction::request(&**h, m, now).map(|o| o.map(|t| (Some(t), None))),
        (LibStore::Multi(h), true) => ServerSequence::request(&**h, m, now).map(|o| o.map(|t| (None, Some(t)))),
    }
}

struct ServerScen {
    keys: Vec<KeySpec>,
    store: LibStore,
    refstore: Vec<RefKey>,
    seq: bool,
    now: u64,
    /// answer signed after an accepted request (post-state check)
    answer_presign: Vec<u8>,
    check_errors: bool,
}

impl ServerScen {
    fn new(keys: Vec<KeySpec>, multi: bool, seq: bool, now: u64, answer_presign: Vec<u8>, check_errors: bool) -> ServerScen {
        let libs: Vec<K> = keys.iter().map(|k| k.lib().unwrap().unwrap()).collect();
        let store = if multi {
            let mut h = HashMap::new();
            for k in &libs {
                h.insert((k.name().clone(), k.algorithm()), k.clone());
            }
            LibStore::Multi(Arc::new(h))
        } else {
            LibStore::Single(libs[0].clone())
        };
        ServerScen { refstore: keys.iter().map(|k| k.refkey()).collect(), keys, store, seq, now, answer_presign, check_errors }
    }
    fn replay(&self, msg: &[u8]) -> Value {
        json!({"kind": "server_request", "keys": self.keys.iter().map(|k| k.json()).collect::<Vec<_>>(),
               "multi": matches!(self.store, LibStore::Multi(_)), "seq": self.seq, "now": self.now,
               "msg": hex(msg), "answer_presign": hex(&self.answer_presign)})
    }
    fn from_json(v: &Value) -> (ServerScen, Vec<u8>) {
        let keys = v["keys"].as_array().unwrap().iter().map(KeySpec::from_json).collect();
        (
            ServerScen::new(
                keys,
                v["multi"].as_bool().unwrap(),
                v["seq"].as_bool().unwrap(),
                v["now"].as_u64().unwrap(),
                unhex(v["answer_presign"].as_str().unwrap()),
                true,
            ),
            unhex(v["msg"].as_str().unwrap()),
        )
    }
}

/// Check a library-signed answer against the reference.
/// `prefix`: what RFC 8945 digests before this message. Returns the wire MAC.
fn check_signed_by_lib(
    ctx: &Ctx,
    role: &str,
    op: &str,
    key: &RefKey,
    prefix: &[u8],
    presign: &[u8],
    signed: &[u8],
    timers_only: bool,
    now: u64,
    fudge: u16,
    replay: &dyn Fn() -> Value,
) -> Option<Vec<u8>> {
    let fail = |what: &str, detail: String| {
        ctx.violation(&format!("C11|{role}|{op}|signed-output|{what}"), &format!("{role}.{op}: {detail}"), replay());
        None
    };
    let t = match ref_locate(signed) {
        Locate::Found(t) => t,
        _ => return fail("no-well-placed-tsig", "output carries no single TSIG as last additional record".into()),
    };
    if strip(signed, &t) != presign {
        return fail("message-octets-changed", "octets before the TSIG record differ from the pre-signing message".into());
    }
    if !wire::labels_eq_ci(&t.owner, &key.name) || Alg::from_labels(&t.alg) != Some(key.alg) || t.class != 255 || t.ttl != 0 {
        return fail("tsig-rr-fields", format!("owner/algorithm/class/ttl wrong: {t:?}"));
    }
    if t.time != now || t.fudge != fudge || t.orig_id != get16(presign, 0) || t.error != 0 || !t.other.is_empty() {
        return fail("tsig-rdata-fields", format!("time/fudge/original-id/error/other wrong: {t:?} (now {now})"));
    }
    if t.mac.len() != key.sign {
        return fail("mac-length", format!("MAC has {} octets, key signs with {}", t.mac.len(), key.sign));
    }
    let vars = if timers_only { ref_timers(t.time, t.fudge) } else { ref_variables(key, t.time, t.fudge, t.error, &t.other) };
    let full = key.full_mac(&[prefix, presign, &vars]);
    if full[..key.sign] != t.mac[..] {
        // classify the cause for a narrow signature
        let mut why = "unexplained";
        if timers_only || !prefix.is_empty() {
            // prior MAC digested untruncated?
            // (only meaningful when the prefix was a truncated MAC; the caller passes that variant)
            why = "mac-differs-from-rfc8945";
        }
        return fail(
            &format!("mac!=reference|{why}|truncating-key={}", key.sign < key.alg.native()),
            format!("MAC {} differs from the RFC 8945 MAC {}", hex(&t.mac), hex(&full[..key.sign])),
        );
    }
    Some(t.mac)
}

struct ServerOutcome {
    got: Cls,
    tx: Option<ServerTransaction<K>>,
    sq: Option<ServerSequence<K>>,
    /// on agreed accept: key index and wire MAC of the request
    acc: Option<(usize, Vec<u8>)>,
}

/// One transition of the server machine on one (possibly mutated) request.
fn eval_server(ctx: &Ctx, l: &mut Local, sc: &ServerScen, msg: &[u8], mutation: &str, post: bool) -> ServerOutcome {
    l.evals += 1;
    l.transitions += 1;
    l.states += 1;
    let replay = || sc.replay(msg);
    let (exp, acc) = ref_server(&sc.refstore, msg, sc.now);
    l.ref_cls[0][exp.primary as usize] += 1;
    let mut m = Message::from_octets(msg.to_vec()).expect("harness messages have a header");
    let r = guard(|| lib_server_request(&sc.store, sc.seq, &mut m, sc.now));
    let mut out = ServerOutcome { got: Cls::Other, tx: None, sq: None, acc: None };
    let r = match r {
        Err(p) => {
            report_panic(ctx, "server", "request", &exp.cause, &p, &replay);
            return out;
        }
        Ok(r) => r,
    };
    let (got, err) = match r {
        Ok(Some((tx, sq))) => {
            out.tx = tx;
            out.sq = sq;
            (Cls::Accept, None)
        }
        Ok(None) => (Cls::Unsigned, None),
        Err(e) => (cls_of_code(e.error().to_int()), Some(e)),
    };
    out.got = got;
    l.lib_cls[0][got as usize] += 1;
    let agreed = judge(ctx, "server", "request", &exp, got, mutation, &replay);
    if got == Cls::Unsigned && m.as_slice() != msg {
        ctx.violation("C11|server|request|unsigned|message-modified", "request without TSIG was modified", replay());
    }
    if got == Cls::Accept && agreed {
        let (ki, mac, stripped) = acc.unwrap();
        check_restored(ctx, "server", "request", m.as_slice(), &stripped, l, &replay);
        out.acc = Some((ki, mac.clone()));
        if post && !sc.answer_presign.is_empty() {
            // the machine state is observable only through what it signs next
            let key = &sc.refstore[ki];
            let mut b = builder_from(&sc.answer_presign);
            let now2 = sc.now + 1;
            l.transitions += 1;
            l.states += 1;
            let r = if let Some(tx) = out.tx.clone() {
                guard(|| tx.answer(&mut b, Time48::from_u64(now2)).map_err(|e| format!("{e:?}")))
            } else {
                let mut sq = out.sq.clone().unwrap();
                guard(|| sq.answer(&mut b, Time48::from_u64(now2)).map_err(|e| format!("{e:?}")))
            };
            match r {
                Err(p) => report_panic(ctx, "server", "answer", &exp.cause, &p, &replay),
                Ok(Err(e)) => {
                    ctx.violation("C11|server|answer|push-error", &format!("answer() failed: {e}"), replay());
                }
                Ok(Ok(())) => {
                    check_signed_by_lib(ctx, "server", "answer-after-request", key, &mac_prefix(&mac), &sc.answer_presign,
                        b.as_slice(), false, now2, 300, &replay);
                }
            }
        }
    }
    if let Some(e) = err {
        if sc.check_errors {
            check_server_error(ctx, l, sc, msg, e, &exp, got, agreed, mutation);
        }
    }
    out
}

/// "Successful verification returns the message to its pre-signing octets".
/// The library cannot shrink `Octs`; it decrements ARCOUNT and leaves the
/// TSIG octets behind the end of the message. Checked: the message as
/// delimited by its own counts equals the pre-signing octets.
fn check_restored(ctx: &Ctx, role: &str, op: &str, after: &[u8], presign: &[u8], l: &mut Local, replay: &dyn Fn() -> Value) {
    let ok = after.len() >= presign.len()
        && after[..presign.len()] == presign[..]
        && walk(after).map(|w| w.end == presign.len()).unwrap_or(false);
    if after.len() > presign.len() {
        l.c("accepted: stale TSIG octets remain behind the message end (ARCOUNT decremented only)");
    }
    if !ok {
        ctx.violation(
            &format!("C11|{role}|{op}|accepted|message-not-restored-to-pre-signing-octets"),
            &format!("{role}.{op}: after successful verification the message differs from the pre-signing octets"),
            replay(),
        );
    }
}

/// RFC 8945 5.2.x / 5.3.2: the error response the server machine produces.
fn check_server_error(
    ctx: &Ctx,
    l: &mut Local,
    sc: &ServerScen,
    msg: &[u8],
    e: ServerError<K>,
    exp: &Expect,
    got: Cls,
    agreed: bool,
    mutation: &str,
) {
    let replay = || sc.replay(msg);
    l.transitions += 1;
    l.states += 1;
    let req = Message::from_octets(msg.to_vec()).unwrap();
    let r = guard(|| e.build_message(&req, MessageBuilder::new_vec()).map(|b| b.as_slice().to_vec()).map_err(|e| format!("{e:?}")));
    let bytes = match r {
        Err(p) => {
            l.c("build_message: panic");
            report_panic(ctx, "server-error", "build_message", &format!("{:?}:{}", got, exp.cause), &p, &replay);
            return;
        }
        Ok(Err(e)) => {
            ctx.violation("C11|server-error|build_message|push-error", &format!("build_message failed: {e}"), replay());
            return;
        }
        Ok(Ok(b)) => b,
    };
    l.c(&format!("build_message: ok for {got:?}"));
    if verbose() {
        println!("  server-error.build_message [{mutation}] -> {}", hex(&bytes));
    }
    if !agreed {
        return; // the class itself is already reported; do not pile on
    }
    let fail = |what: &str, detail: String| {
        ctx.violation(&format!("C11|server-error|build_message|{got:?}|{what}"), &format!("error response for {got:?}: {detail}"), replay());
    };
    if bytes.len() < 12 || get16(&bytes, 0) != get16(msg, 0) || bytes[2] & 0x80 == 0 {
        return fail("header", "ID not copied or QR not set".into());
    }
    let rcode = bytes[3] & 0x0F;
    if got == Cls::FormErr {
        if rcode != 1 {
            fail("rcode expected FORMERR(1)", format!("RCODE is {rcode}; RFC 8945 5.2 requires a response with RCODE 1 (FORMERR)"));
        }
        return;
    }
    if rcode != 9 {
        return fail("rcode expected NOTAUTH(9)", format!("RCODE is {rcode}"));
    }
    let t = match ref_locate(&bytes) {
        Locate::Found(t) => t,
        _ => return fail("no-well-placed-tsig", "error response carries no TSIG as last additional record".into()),
    };
    let code = match got {
        Cls::BadSig => 16,
        Cls::BadKey => 17,
        Cls::BadTime => 18,
        Cls::BadTrunc => 22,
        _ => 0,
    };
    if t.error != code {
        return fail("tsig-error-field", format!("TSIG error field {} instead of {code}", t.error));
    }
    let rt = match ref_locate(msg) {
        Locate::Found(t) => t,
        _ => return,
    };
    match got {
        Cls::BadSig | Cls::BadKey => {
            if !t.mac.is_empty() {
                fail("must-be-unsigned", "RFC 8945 5.3.2: key/MAC errors MUST NOT be signed".into());
            }
        }
        Cls::BadTime => {
            let ki = sc.refstore.iter().position(|k| Some(k.alg) == Alg::from_labels(&rt.alg) && wire::labels_eq_ci(&k.name, &rt.owner));
            let key = match ki {
                Some(i) => &sc.refstore[i],
                None => return,
            };
            if t.time != rt.time || t.other != time48(sc.now) {
                return fail("time-fields", format!("time signed {} (request {}), other data {} (server time {})", t.time, rt.time, hex(&t.other), sc.now));
            }
            let presign = strip(&bytes, &t);
            let prefix = mac_prefix(&rt.mac);
            let full = key.full_mac(&[&prefix, &presign, &ref_variables(key, t.time, t.fudge, 18, &t.other)]);
            if t.mac.len() != key.sign || full[..key.sign] != t.mac[..] {
                // does it equal a MAC over Other Len = 6 followed by 8 octets?
                let mut v = ref_variables(key, t.time, t.fudge, 18, &[]);
                let n = v.len();
                v[n - 2..].copy_from_slice(&6u16.to_be_bytes());
                v.extend_from_slice(&sc.now.to_be_bytes());
                let alt = key.full_mac(&[&prefix, &presign, &v]);
                let why = if t.mac.len() == key.sign && alt[..key.sign] == t.mac[..] {
                    "observed=mac-over-8-octet-other-data-after-other-len-6"
                } else {
                    "observed=unexplained"
                };
                fail(&format!("mac!=rfc8945|{why}"), format!("MAC {} but RFC 8945 (6-octet server time as other data) gives {}", hex(&t.mac), hex(&full[..key.sign])));
            } else {
                l.c("BADTIME response MAC equals reference");
            }
        }
        _ => {}
    }
}
