//! C11 — TSIG: honest exchanges verify, tampering is rejected with the error
//! RFC 8945 assigns, MACs equal an independent RFC 8945 computation.
//!
//! Engine: seqx over the four real state machines (`ClientTransaction`,
//! `ServerTransaction`, `ClientSequence`, `ServerSequence`; all `Clone`, all
//! take `now: Time48`), plus first-order fault enumeration (every single-bit
//! flip and every structural mutation of every signed message).
//!
//! Oracle: an independent RFC 8945 signer/verifier written below on top of
//! `ring::hmac` only (sections "REFERENCE"). It never calls `domain`.
//!
//! The two transport wrappers (`net::client::tsig::Connection`,
//! `TsigMiddlewareSvc`) are driven in section "THE TRANSPORT WRAPPERS":
//! the client over every behaviour of a scripted upstream (compose paths,
//! request modifications, 1..3 compositions with changed ID / on clones,
//! answer to the last or an earlier composition), the middleware over every
//! request mutation and over the inner service's responses (header flags x
//! rcode x size class x target type x transport), every emitted response
//! being verified by the reference client.
//!
//! Section "SIGNING ON THE USER'S BUILDER" signs messages that were made
//! through the builder interface on every target type x name compressor
//! (Vec, BytesMut, octseq::Array, bounded buffer, StreamTarget over both x
//! none/Static/Tree/Hash), with the key name in every relation to the names
//! of the message, through all five signing entry points, after histories of
//! attempts refused for lack of room (push limit or capacity at every
//! interesting size) followed by lifting/raising the limit or dropping
//! records on the same builder. Refused => message unchanged; signed =>
//! parses under the independent reader, MAC equals the reference, the other
//! side accepts, the sequence goes on from the message that was sent.
#![allow(clippy::too_many_arguments, clippy::type_complexity)]

use std::collections::{BTreeMap, HashMap};
use std::str::FromStr;
use std::sync::atomic::{AtomicBool, AtomicU64, Ordering as AO};
use std::sync::Arc;

use domain::base::message::Message;
use domain::base::message_builder::{AdditionalBuilder, MessageBuilder};
use domain::base::wire::Composer;
use domain::rdata::tsig::Time48;
use domain::tsig::{
    Algorithm, ClientSequence, ClientTransaction, Key, KeyName, ServerError, ServerSequence,
    ServerTransaction, ValidationError,
};
use bytes::Bytes;
use domain::base::iana::Rcode;
use domain::base::opt::TcpKeepalive;
use domain::base::{Name, StaticCompressor};
use domain::net::client::request::{
    ComposeRequest, ComposeRequestMulti, Error as ClientError, GetResponse, GetResponseMulti,
    RequestMessage as PlainReq, RequestMessageMulti as PlainReqMulti, SendRequest, SendRequestMulti,
};
use domain::net::client::tsig::Connection as TsigConnection;
use domain::net::server::message::{NonUdpTransportContext, Request as SrvRequest, UdpTransportContext};
use domain::net::server::middleware::tsig::TsigMiddlewareSvc;
use domain::net::server::service::{CallResult, Service, ServiceFeedback, ServiceResult};
use domain::net::server::util::mk_builder_for_target;
use domain::rdata::A;
use futures_util::{FutureExt, StreamExt};
use mc::wire;
use mc::*;
use std::future::Future;
use std::pin::Pin;
use std::sync::Mutex;
use octseq::builder::{OctetsBuilder, Truncate};
use rayon::prelude::*;
use ring::hmac;
use serde_json::{json, Value};

static VERBOSE: AtomicBool = AtomicBool::new(false);
fn verbose() -> bool {
    VERBOSE.load(AO::Relaxed)
}

// =====================================================================
// REFERENCE (RFC 8945), independent of `domain`
// =====================================================================

#[derive(Clone, Copy, PartialEq, Eq, Debug, PartialOrd, Ord, Hash)]
enum Alg {
    Sha1,
    Sha256,
    Sha384,
    Sha512,
}
const ALGS: [Alg; 4] = [Alg::Sha1, Alg::Sha256, Alg::Sha384, Alg::Sha512];

impl Alg {
    fn idx(self) -> usize {
        self as usize
    }
    fn from_idx(i: usize) -> Alg {
        ALGS[i]
    }
    /// HMAC output length (RFC 8945 section 6 / FIPS 180).
    fn native(self) -> usize {
        [20, 32, 48, 64][self.idx()]
    }
    /// RFC 8945 5.2.2.1: larger of 10 octets and half the hash length.
    fn floor(self) -> usize {
        std::cmp::max(10, self.native() / 2)
    }
    fn label(self) -> &'static [u8] {
        [&b"hmac-sha1"[..], b"hmac-sha256", b"hmac-sha384", b"hmac-sha512"][self.idx()]
    }
    fn ring(self) -> hmac::Algorithm {
        [
            hmac::HMAC_SHA1_FOR_LEGACY_USE_ONLY,
            hmac::HMAC_SHA256,
            hmac::HMAC_SHA384,
            hmac::HMAC_SHA512,
        ][self.idx()]
    }
    fn lib(self) -> Algorithm {
        [Algorithm::Sha1, Algorithm::Sha256, Algorithm::Sha384, Algorithm::Sha512][self.idx()]
    }
    /// Algorithm names are domain names: compared case-insensitively.
    fn from_labels(l: &[Vec<u8>]) -> Option<Alg> {
        if l.len() != 1 {
            return None;
        }
        ALGS.iter().copied().find(|a| wire::lower(&l[0]) == a.label())
    }
}

fn labels_of(name: &str) -> Vec<Vec<u8>> {
    name.split('.').filter(|s| !s.is_empty()).map(|s| s.as_bytes().to_vec()).collect()
}

#[derive(Clone)]
struct RefKey {
    alg: Alg,
    name: Vec<Vec<u8>>,
    min: usize,
    sign: usize,
    hk: hmac::Key,
}

impl RefKey {
    fn full_mac(&self, parts: &[&[u8]]) -> Vec<u8> {
        let mut c = hmac::Context::with_key(&self.hk);
        for p in parts {
            c.update(p);
        }
        c.sign().as_ref().to_vec()
    }
}

fn time48(t: u64) -> [u8; 6] {
    let b = t.to_be_bytes();
    [b[2], b[3], b[4], b[5], b[6], b[7]]
}

/// RFC 8945 4.3.3 TSIG variables.
fn ref_variables(key: &RefKey, time: u64, fudge: u16, error: u16, other: &[u8]) -> Vec<u8> {
    let mut v = Vec::new();
    let canon: Vec<Vec<u8>> = key.name.iter().map(|l| wire::lower(l)).collect();
    v.extend_from_slice(&wire::to_wire(&canon)); // NAME, canonical wire format
    v.extend_from_slice(&255u16.to_be_bytes()); // CLASS ANY
    v.extend_from_slice(&0u32.to_be_bytes()); // TTL 0
    v.extend_from_slice(&wire::to_wire(&[key.alg.label().to_vec()])); // Algorithm Name
    v.extend_from_slice(&time48(time)); // Time Signed, 48 bit
    v.extend_from_slice(&fudge.to_be_bytes());
    v.extend_from_slice(&error.to_be_bytes());
    v.extend_from_slice(&(other.len() as u16).to_be_bytes());
    v.extend_from_slice(other);
    v
}

/// RFC 8945 5.3.1: timers only for the 2nd.. messages of a sequence.
fn ref_timers(time: u64, fudge: u16) -> Vec<u8> {
    let mut v = time48(time).to_vec();
    v.extend_from_slice(&fudge.to_be_bytes());
    v
}

/// "MAC including the MAC Size field as two octets" (4.3.1).
fn mac_prefix(mac: &[u8]) -> Vec<u8> {
    let mut v = (mac.len() as u16).to_be_bytes().to_vec();
    v.extend_from_slice(mac);
    v
}

fn get16(m: &[u8], p: usize) -> u16 {
    u16::from_be_bytes([m[p], m[p + 1]])
}
fn set16(m: &mut [u8], p: usize, v: u16) {
    m[p..p + 2].copy_from_slice(&v.to_be_bytes());
}

#[derive(Clone, Debug)]
struct Rec {
    section: usize, // 0 answer, 1 authority, 2 additional
    start: usize,
    rtype: u16,
    class: u16,
    ttl: u32,
    rdata: usize,
    rdlen: usize,
    #[allow(dead_code)]
    end: usize,
}

struct Walk {
    sec_end: [usize; 3],
    recs: Vec<Rec>,
    end: usize,
}

/// Skip a name: labels until the root label or a compression pointer.
fn skip_name(m: &[u8], mut p: usize) -> Result<usize, String> {
    let mut total = 0usize;
    loop {
        let l = *m.get(p).ok_or("name runs past the end")? as usize;
        if l == 0 {
            if total + 1 > 255 {
                return Err("name longer than 255".into());
            }
            return Ok(p + 1);
        }
        if l & 0xC0 == 0xC0 {
            if p + 2 > m.len() {
                return Err("pointer runs past the end".into());
            }
            return Ok(p + 2);
        }
        if l & 0xC0 != 0 {
            return Err("bad label type".into());
        }
        if p + 1 + l > m.len() {
            return Err("label runs past the end".into());
        }
        total += l + 1;
        if total > 255 {
            return Err("name longer than 255".into());
        }
        p += 1 + l;
    }
}

/// Walk the message by its counts, RFC 1035 4.1.
fn walk(m: &[u8]) -> Result<Walk, String> {
    if m.len() < 12 {
        return Err("short header".into());
    }
    let mut p = 12;
    for _ in 0..get16(m, 4) {
        p = skip_name(m, p)?;
        if p + 4 > m.len() {
            return Err("question runs past the end".into());
        }
        p += 4;
    }
    let mut recs = Vec::new();
    let mut sec_end = [p; 3];
    for s in 0..3 {
        for _ in 0..get16(m, 6 + 2 * s) {
            let start = p;
            let q = skip_name(m, p)?;
            if s == 2 {
                // records of the additional section are candidates for the
                // TSIG record: their owner must be a valid (decompressible) name
                let mut ptrs = Vec::new();
                wire::read_name(m, start, &mut ptrs)?;
            }
            if q + 10 > m.len() {
                return Err("record header runs past the end".into());
            }
            let rdlen = get16(m, q + 8) as usize;
            if q + 10 + rdlen > m.len() {
                return Err("rdata runs past the end".into());
            }
            recs.push(Rec {
                section: s,
                start,
                rtype: get16(m, q),
                class: get16(m, q + 2),
                ttl: u32::from_be_bytes([m[q + 4], m[q + 5], m[q + 6], m[q + 7]]),
                rdata: q + 10,
                rdlen,
                end: q + 10 + rdlen,
            });
            p = q + 10 + rdlen;
        }
        for e in sec_end.iter_mut().skip(s) {
            *e = p;
        }
    }
    Ok(Walk { sec_end, recs, end: p })
}

/// Do all owner names of the answer and authority sections decompress? The
/// TSIG layer does not need them, so a verifier may or may not look; one that
/// does answers FORMERR before it gets to the MAC.
fn names_decompress(m: &[u8]) -> bool {
    match walk(m) {
        Err(_) => false,
        Ok(w) => w.recs.iter().all(|r| {
            let mut ptrs = Vec::new();
            wire::read_name(m, r.start, &mut ptrs).is_ok()
        }),
    }
}

fn allow_formerr_for_bad_names(mut e: Expect, m: &[u8]) -> Expect {
    if e.primary != Cls::Accept && e.primary != Cls::FormErr && !e.alts.contains(&Cls::FormErr) && !names_decompress(m) {
        e.alts.push(Cls::FormErr);
    }
    e
}

#[derive(Clone, Debug)]
struct RefTsig {
    start: usize,
    owner: Vec<Vec<u8>>,
    class: u16,
    ttl: u32,
    alg: Vec<Vec<u8>>,
    time: u64,
    fudge: u16,
    mac: Vec<u8>,
    orig_id: u16,
    error: u16,
    other: Vec<u8>,
}

enum Locate {
    Missing,
    Position(&'static str),
    #[allow(dead_code)]
    Malformed(String),
    #[allow(dead_code)]
    BadRdata(String),
    Found(RefTsig),
}

fn parse_tsig(m: &[u8], r: &Rec) -> Result<RefTsig, Locate> {
    let mut ptrs = Vec::new();
    let (owner, _) = wire::read_name(m, r.start, &mut ptrs).map_err(Locate::Malformed)?;
    let rd = &m[r.rdata..r.rdata + r.rdlen];
    let bad = |s: &str| Locate::BadRdata(s.to_string());
    // Algorithm Name: uncompressed wire name (RFC 8945 4.2)
    let mut p = 0;
    let mut alg = Vec::new();
    let mut total = 0;
    loop {
        let l = *rd.get(p).ok_or_else(|| bad("algorithm name short"))? as usize;
        if l == 0 {
            p += 1;
            break;
        }
        if l & 0xC0 != 0 {
            return Err(bad("algorithm name: label type / compression"));
        }
        let lab = rd.get(p + 1..p + 1 + l).ok_or_else(|| bad("algorithm label short"))?;
        total += 1 + l;
        if total > 254 {
            return Err(bad("algorithm name too long"));
        }
        alg.push(lab.to_vec());
        p += 1 + l;
    }
    if p + 10 > rd.len() {
        return Err(bad("fixed fields short"));
    }
    let time = u64::from_be_bytes([0, 0, rd[p], rd[p + 1], rd[p + 2], rd[p + 3], rd[p + 4], rd[p + 5]]);
    let fudge = get16(rd, p + 6);
    let macsize = get16(rd, p + 8) as usize;
    p += 10;
    let mac = rd.get(p..p + macsize).ok_or_else(|| bad("mac short"))?.to_vec();
    p += macsize;
    if p + 6 > rd.len() {
        return Err(bad("trailer short"));
    }
    let orig_id = get16(rd, p);
    let error = get16(rd, p + 2);
    let olen = get16(rd, p + 4) as usize;
    p += 6;
    let other = rd.get(p..p + olen).ok_or_else(|| bad("other short"))?.to_vec();
    p += olen;
    if p != rd.len() {
        return Err(bad("trailing octets in rdata"));
    }
    Ok(RefTsig {
        start: r.start,
        owner,
        class: r.class,
        ttl: r.ttl,
        alg,
        time,
        fudge,
        mac,
        orig_id,
        error,
        other,
    })
}

/// RFC 8945 5.2: exactly one TSIG, last record of the additional section.
fn ref_locate(m: &[u8]) -> Locate {
    let w = match walk(m) {
        Ok(w) => w,
        Err(e) => return Locate::Malformed(e),
    };
    let tsigs: Vec<usize> = (0..w.recs.len()).filter(|&i| w.recs[i].rtype == 250).collect();
    if tsigs.is_empty() {
        return Locate::Missing;
    }
    if tsigs.iter().any(|&i| w.recs[i].section != 2) {
        return Locate::Position("tsig-in-other-section");
    }
    if tsigs.len() > 1 {
        return Locate::Position("multiple-tsig");
    }
    if tsigs[0] != w.recs.len() - 1 {
        return Locate::Position("tsig-not-last");
    }
    match parse_tsig(m, &w.recs[tsigs[0]]) {
        Ok(t) => Locate::Found(t),
        Err(l) => l,
    }
}

/// Message as digested / as handed back: TSIG cut, original ID, ARCOUNT-1.
fn strip(m: &[u8], t: &RefTsig) -> Vec<u8> {
    let mut v = m[..t.start].to_vec();
    set16(&mut v, 0, t.orig_id);
    let ar = get16(&v, 10);
    set16(&mut v, 10, ar.wrapping_sub(1));
    v
}

#[derive(Clone, Copy, PartialEq, Eq, Debug, PartialOrd, Ord, Hash)]
enum Cls {
    Accept,
    Unsigned,
    FormErr,
    BadKey,
    BadSig,
    BadTrunc,
    BadTime,
    SrvBadKey,
    SrvBadSig,
    SrvBadTime,
    TooManyUnsigned,
    Other,
}
const NCLS: usize = 12;
const NROLES: usize = 5;
const CLS_NAMES: [&str; NCLS] = [
    "Accept", "Unsigned", "FormErr", "BadKey", "BadSig", "BadTrunc", "BadTime", "SrvBadKey",
    "SrvBadSig", "SrvBadTime", "TooManyUnsigned", "Other",
];
const REJECTS: [Cls; 5] = [Cls::FormErr, Cls::BadKey, Cls::BadSig, Cls::BadTrunc, Cls::BadTime];

#[derive(Clone, Debug)]
struct Expect {
    primary: Cls,
    alts: Vec<Cls>,
    cause: String,
    /// for SrvBadTime: (client time signed, server time)
    times: Option<(u64, u64)>,
}
impl Expect {
    fn new(primary: Cls, cause: &str) -> Expect {
        Expect { primary, alts: Vec::new(), cause: cause.to_string(), times: None }
    }
    fn alt(mut self, a: &[Cls]) -> Expect {
        self.alts.extend_from_slice(a);
        self
    }
    fn allows(&self, c: Cls) -> bool {
        self.primary == c || self.alts.contains(&c)
    }
}

struct Verified {
    exp: Expect,
    /// set when the MAC verified: the MAC as on the wire
    mac: Option<Vec<u8>>,
    stripped: Vec<u8>,
}

/// MAC, time and truncation checks of RFC 8945 5.2.2 - 5.2.4 (and 5.3.3 for
/// clients), after the key has been identified. `prefix` is everything that
/// is digested before this message (request/prior MAC with length, unsigned
/// messages since).
fn verify_found(
    key: &RefKey,
    m: &[u8],
    t: &RefTsig,
    prefix: &[u8],
    timers_only: bool,
    now: u64,
    client: bool,
) -> Verified {
    let stripped = strip(m, t);
    let done = |exp: Expect, mac: Option<Vec<u8>>, stripped: Vec<u8>| Verified { exp, mac, stripped };
    if t.class != 255 || t.ttl != 0 {
        // CLASS MUST be ANY, TTL MUST be 0 (4.2); both are digested (4.3.3):
        // a verifier either cannot interpret the RR or digests what it got.
        return done(Expect::new(Cls::FormErr, "tsig-class-or-ttl-not-ANY/0").alt(&[Cls::BadSig]), None, stripped);
    }
    let n = t.mac.len();
    let len_alts: &[Cls] = if client { &[Cls::BadTrunc, Cls::BadSig] } else { &[] };
    if n > key.alg.native() {
        return done(Expect::new(Cls::FormErr, "mac-longer-than-hash-output").alt(len_alts), None, stripped);
    }
    if n < key.alg.floor() {
        return done(Expect::new(Cls::FormErr, "mac-shorter-than-rfc-floor").alt(len_alts), None, stripped);
    }
    let vars = if timers_only {
        ref_timers(t.time, t.fudge)
    } else {
        ref_variables(key, t.time, t.fudge, t.error, &t.other)
    };
    let full = key.full_mac(&[prefix, &stripped, &vars]);
    let mut applicable: Vec<Expect> = Vec::new();
    let mac_ok = full[..n] == t.mac[..];
    if !mac_ok {
        // explain the received MAC where a specific wrong digest reproduces it,
        // so that each cause gets its own violation class
        let mut cause = "mac-mismatch";
        if !timers_only && !t.other.is_empty() {
            let no_other = key.full_mac(&[prefix, &stripped, &ref_variables(key, t.time, t.fudge, t.error, &[])]);
            if no_other[..n] == t.mac[..] {
                cause = "mac-mismatch(received MAC does not cover Other Len/Other Data)";
            }
            if t.other.len() == 6 {
                let mut v = ref_variables(key, t.time, t.fudge, t.error, &[]);
                let k = v.len();
                v[k - 2..].copy_from_slice(&6u16.to_be_bytes());
                v.extend_from_slice(&[0, 0]);
                v.extend_from_slice(&t.other);
                if key.full_mac(&[prefix, &stripped, &v])[..n] == t.mac[..] {
                    cause = "mac-mismatch(received MAC covers 8 octets of other data after Other Len 6)";
                }
            }
        }
        applicable.push(Expect::new(Cls::BadSig, cause));
    }
    let rcode = m[3] & 0x0F;
    if client && rcode == 9 && t.error == 18 {
        if t.other.len() == 6 {
            let o = &t.other;
            let server = u64::from_be_bytes([0, 0, o[0], o[1], o[2], o[3], o[4], o[5]]);
            let mut e = Expect::new(Cls::SrvBadTime, "server-reports-badtime").alt(&[Cls::BadTime]);
            e.times = Some((t.time, server));
            applicable.push(e);
        } else {
            applicable.push(Expect::new(Cls::FormErr, "badtime-without-6-octet-other").alt(&[Cls::BadTime]));
        }
    } else {
        let lo = t.time.saturating_sub(t.fudge as u64);
        let hi = t.time + t.fudge as u64;
        if now < lo || now > hi {
            applicable.push(Expect::new(Cls::BadTime, "time-outside-fudge"));
        }
    }
    let trunc = n < key.min;
    if trunc {
        applicable.push(Expect::new(Cls::BadTrunc, "mac-shorter-than-local-policy"));
    }
    let mac = if mac_ok { Some(t.mac.clone()) } else { None };
    if applicable.is_empty() {
        let mut notes = Vec::new();
        if get16(m, 0) != t.orig_id {
            notes.push("header-id-differs-from-original-id");
        }
        if t.alg.iter().any(|l| l.iter().any(|c| c.is_ascii_uppercase())) {
            notes.push("algorithm-name-not-lowercase");
        }
        if t.owner != key.name {
            notes.push("key-name-case-differs");
        }
        if n < key.alg.native() {
            notes.push("mac-truncated-within-policy");
        }
        // one cause per class: the first difference from an untouched message
        notes.sort_by_key(|n| match *n {
            "algorithm-name-not-lowercase" => 0,
            "key-name-case-differs" => 1,
            "header-id-differs-from-original-id" => 2,
            _ => 3,
        });
        let cause = if notes.is_empty() { "intact".to_string() } else { notes[0].to_string() };
        return done(Expect::new(Cls::Accept, &cause), mac, stripped);
    }
    let mut e = applicable.remove(0);
    // The library checks the local truncation policy first; RFC 8945 5.2
    // orders it last. With two simultaneous faults either error is taken.
    if trunc && e.primary != Cls::BadTrunc {
        e.alts.push(Cls::BadTrunc);
    }
    done(e, mac, stripped)
}

/// RFC 8945 5.2 server side. Returns the verdict and, on accept, the index
/// of the key, the wire MAC and the stripped message.
fn ref_server(store: &[RefKey], m: &[u8], now: u64) -> (Expect, Option<(usize, Vec<u8>, Vec<u8>)>) {
    let (e, acc) = ref_server_inner(store, m, now);
    (allow_formerr_for_bad_names(e, m), acc)
}

fn ref_server_inner(store: &[RefKey], m: &[u8], now: u64) -> (Expect, Option<(usize, Vec<u8>, Vec<u8>)>) {
    let t = match ref_locate(m) {
        Locate::Missing => return (Expect::new(Cls::Unsigned, "no-tsig"), None),
        Locate::Position(c) => return (Expect::new(Cls::FormErr, c), None),
        Locate::Malformed(_) => {
            return (Expect::new(Cls::FormErr, "message-unparseable").alt(&[Cls::BadSig, Cls::BadKey]), None)
        }
        Locate::BadRdata(_) => return (Expect::new(Cls::FormErr, "tsig-rdata-uninterpretable"), None),
        Locate::Found(t) => t,
    };
    let alg = match Alg::from_labels(&t.alg) {
        Some(a) => a,
        None => return (Expect::new(Cls::BadKey, "algorithm-unknown"), None),
    };
    let ki = match store.iter().position(|k| k.alg == alg && wire::labels_eq_ci(&k.name, &t.owner)) {
        Some(i) => i,
        None => return (Expect::new(Cls::BadKey, "key-unknown"), None),
    };
    let v = verify_found(&store[ki], m, &t, &[], false, now, false);
    let acc = if v.exp.primary == Cls::Accept { Some((ki, v.mac.clone().unwrap(), v.stripped)) } else { None };
    (v.exp, acc)
}

/// Client-side reference state (transaction or sequence), RFC 8945 5.3.
#[derive(Clone)]
struct RefClient {
    key: RefKey,
    seq: bool,
    first: bool,
    run: usize,
    /// request MAC, later the MAC of the last signed answer (as on the wire)
    prior: Vec<u8>,
    /// unsigned messages since the last signed one
    pending: Vec<u8>,
}

enum Commit {
    None,
    Unsigned,
    Signed { mac: Vec<u8>, stripped: Vec<u8> },
}

impl RefClient {
    fn new(key: &RefKey, seq: bool, request_mac: &[u8]) -> RefClient {
        RefClient { key: key.clone(), seq, first: true, run: 0, prior: request_mac.to_vec(), pending: Vec::new() }
    }

    fn expect(&self, m: &[u8], now: u64) -> (Expect, Commit) {
        let (e, c) = self.expect_inner(m, now);
        (allow_formerr_for_bad_names(e, m), c)
    }

    fn expect_inner(&self, m: &[u8], now: u64) -> (Expect, Commit) {
        let t = match ref_locate(m) {
            Locate::Missing => {
                if !self.seq || self.first {
                    return (Expect::new(Cls::Unsigned, "no-tsig"), Commit::None);
                }
                if self.run >= 99 {
                    return (Expect::new(Cls::TooManyUnsigned, "100th-unsigned-in-a-row"), Commit::None);
                }
                return (Expect::new(Cls::Accept, "unsigned-intermediate"), Commit::Unsigned);
            }
            Locate::Position(c) => {
                // a client only discards: "answer carries no (well placed) TSIG" is as good as FormErr
                let mut e = Expect::new(Cls::FormErr, c);
                if !self.seq || self.first {
                    e = e.alt(&[Cls::Unsigned]);
                }
                return (e, Commit::None);
            }
            Locate::Malformed(_) => {
                return (
                    Expect::new(Cls::FormErr, "message-unparseable").alt(&[Cls::BadSig, Cls::BadKey]),
                    Commit::None,
                )
            }
            Locate::BadRdata(_) => return (Expect::new(Cls::FormErr, "tsig-rdata-uninterpretable"), Commit::None),
            Locate::Found(t) => t,
        };
        let rcode = m[3] & 0x0F;
        if rcode == 9 && (t.error == 16 || t.error == 17) {
            // 5.3.1 / 5.3.2: an error in any case; never an acceptable answer
            let p = if t.error == 17 { Cls::SrvBadKey } else { Cls::SrvBadSig };
            return (Expect::new(p, "notauth-with-badkey-or-badsig").alt(&REJECTS), Commit::None);
        }
        if !wire::labels_eq_ci(&t.owner, &self.key.name) {
            return (Expect::new(Cls::BadKey, "key-name-differs"), Commit::None);
        }
        if Alg::from_labels(&t.alg) != Some(self.key.alg) {
            return (Expect::new(Cls::BadKey, "algorithm-differs"), Commit::None);
        }
        let mut prefix = mac_prefix(&self.prior);
        prefix.extend_from_slice(&self.pending);
        let v = verify_found(&self.key, m, &t, &prefix, self.seq && !self.first, now, true);
        let c = if v.exp.primary == Cls::Accept {
            Commit::Signed { mac: v.mac.clone().unwrap(), stripped: v.stripped }
        } else {
            Commit::None
        };
        (v.exp, c)
    }

    fn commit(&mut self, c: &Commit, m: &[u8]) {
        match c {
            Commit::None => {}
            Commit::Unsigned => {
                self.pending.extend_from_slice(m);
                self.run += 1;
            }
            Commit::Signed { mac, .. } => {
                self.prior = mac.clone();
                self.pending.clear();
                self.run = 0;
                self.first = false;
            }
        }
    }
}

/// Compose a TSIG RR (owner uncompressed).
fn tsig_rr(
    owner: &[Vec<u8>],
    class: u16,
    ttl: u32,
    alg: &[Vec<u8>],
    time: u64,
    fudge: u16,
    mac: &[u8],
    orig_id: u16,
    error: u16,
    other: &[u8],
) -> Vec<u8> {
    let mut rd = wire::to_wire(alg);
    rd.extend_from_slice(&time48(time));
    rd.extend_from_slice(&fudge.to_be_bytes());
    rd.extend_from_slice(&(mac.len() as u16).to_be_bytes());
    rd.extend_from_slice(mac);
    rd.extend_from_slice(&orig_id.to_be_bytes());
    rd.extend_from_slice(&error.to_be_bytes());
    rd.extend_from_slice(&(other.len() as u16).to_be_bytes());
    rd.extend_from_slice(other);
    let mut rr = wire::to_wire(owner);
    rr.extend_from_slice(&250u16.to_be_bytes());
    rr.extend_from_slice(&class.to_be_bytes());
    rr.extend_from_slice(&ttl.to_be_bytes());
    rr.extend_from_slice(&(rd.len() as u16).to_be_bytes());
    rr.extend_from_slice(&rd);
    rr
}

/// Append a record to the additional section.
fn append_ar(presign: &[u8], rr: &[u8]) -> Vec<u8> {
    let mut v = presign.to_vec();
    let ar = get16(&v, 10);
    set16(&mut v, 10, ar + 1);
    v.extend_from_slice(rr);
    v
}

/// Reference signer: sign `presign` and append the TSIG RR.
fn ref_sign(
    key: &RefKey,
    prefix: &[u8],
    presign: &[u8],
    timers_only: bool,
    time: u64,
    fudge: u16,
    error: u16,
    other: &[u8],
) -> (Vec<u8>, Vec<u8>) {
    let vars = if timers_only { ref_timers(time, fudge) } else { ref_variables(key, time, fudge, error, other) };
    let full = key.full_mac(&[prefix, presign, &vars]);
    let mac = full[..key.sign].to_vec();
    let rr = tsig_rr(&key.name, 255, 0, &[key.alg.label().to_vec()], time, fudge, &mac, get16(presign, 0), error, other);
    (append_ar(presign, &rr), mac)
}

// =====================================================================
// DRIVING THE REAL CODE
// =====================================================================

type K = Arc<Key>;

/// An octets builder preloaded with a finished message, so that the harness
/// decides the exact pre-signing octets. `MessageBuilder::from_target`
/// truncates to 0 and appends a fresh header; those two first calls are
/// swallowed, afterwards this is a plain `Vec<u8>`.
#[derive(Clone, Debug)]
struct Pre {
    buf: Vec<u8>,
    stage: u8,
}
impl OctetsBuilder for Pre {
    type AppendError = core::convert::Infallible;
    fn append_slice(&mut self, s: &[u8]) -> Result<(), Self::AppendError> {
        if self.stage == 1 {
            self.stage = 2;
            return Ok(());
        }
        self.buf.extend_from_slice(s);
        Ok(())
    }
}
impl Truncate for Pre {
    fn truncate(&mut self, len: usize) {
        if self.stage == 0 {
            self.stage = 1;
            return;
        }
        self.buf.truncate(len)
    }
}
impl AsRef<[u8]> for Pre {
    fn as_ref(&self) -> &[u8] {
        &self.buf
    }
}
impl AsMut<[u8]> for Pre {
    fn as_mut(&mut self) -> &mut [u8] {
        &mut self.buf
    }
}
impl Composer for Pre {}

fn builder_from(raw: &[u8]) -> AdditionalBuilder<Pre> {
    MessageBuilder::from_target(Pre { buf: raw.to_vec(), stage: 0 }).unwrap().additional()
}

#[derive(Clone, Debug)]
struct KeySpec {
    alg: Alg,
    secret: Vec<u8>,
    name: String,
    min: Option<usize>,
    sign: Option<usize>,
}

impl KeySpec {
    fn json(&self) -> Value {
        json!({"alg": self.alg.idx(), "secret": hex(&self.secret), "name": self.name, "min": self.min, "sign": self.sign})
    }
    fn from_json(v: &Value) -> KeySpec {
        KeySpec {
            alg: Alg::from_idx(v["alg"].as_u64().unwrap() as usize),
            secret: unhex(v["secret"].as_str().unwrap()),
            name: v["name"].as_str().unwrap().to_string(),
            min: v["min"].as_u64().map(|x| x as usize),
            sign: v["sign"].as_u64().map(|x| x as usize),
        }
    }
    fn refkey(&self) -> RefKey {
        RefKey {
            alg: self.alg,
            name: labels_of(&self.name),
            min: self.min.unwrap_or(self.alg.native()),
            sign: self.sign.unwrap_or(self.alg.native()),
            hk: hmac::Key::new(self.alg.ring(), &self.secret),
        }
    }
    fn lib(&self) -> Result<Result<K, String>, String> {
        guard(|| {
            let name = KeyName::from_str(&format!("{}.", self.name.trim_end_matches('.'))).unwrap();
            Key::new(self.alg.lib(), &self.secret, name, self.min, self.sign)
                .map(Arc::new)
                .map_err(|e| format!("{e:?}"))
        })
    }
    fn tag(&self) -> String {
        format!("{:?}/min={:?}/sign={:?}/{}", self.alg, self.min, self.sign, self.name)
    }
}

#[derive(Clone)]
enum LibStore {
    Single(K),
    Multi(Arc<HashMap<(KeyName, Algorithm), K>>),
}

#[derive(Default)]
struct Local {
    evals: u64,
    transitions: u64,
    states: u64,
    lib_cls: [[u64; NCLS]; NROLES], // role: 0 server, 1 client-tx, 2 client-seq, 3 client transport, 4 server middleware
    ref_cls: [[u64; NCLS]; NROLES],
    counts: BTreeMap<String, u64>,
    distinct: Vec<u64>,
}
impl Local {
    fn c(&mut self, k: &str) {
        *self.counts.entry(k.to_string()).or_insert(0) += 1;
    }
}

struct Glob {
    stats: Stats,
    transitions: AtomicU64,
    states: AtomicU64,
    lib_cls: [[AtomicU64; NCLS]; NROLES],
    ref_cls: [[AtomicU64; NCLS]; NROLES],
}
impl Glob {
    fn new() -> Glob {
        Glob {
            stats: Stats::new(),
            transitions: AtomicU64::new(0),
            states: AtomicU64::new(0),
            lib_cls: Default::default(),
            ref_cls: Default::default(),
        }
    }
    fn merge(&self, l: Local) {
        self.stats.evaluations.fetch_add(l.evals, AO::Relaxed);
        self.transitions.fetch_add(l.transitions, AO::Relaxed);
        self.states.fetch_add(l.states, AO::Relaxed);
        for r in 0..NROLES {
            for c in 0..NCLS {
                self.lib_cls[r][c].fetch_add(l.lib_cls[r][c], AO::Relaxed);
                self.ref_cls[r][c].fetch_add(l.ref_cls[r][c], AO::Relaxed);
            }
        }
        self.stats.merge_counts(&l.counts);
        self.stats.distinct_many(l.distinct);
    }
    fn hist(&self, which: &[[AtomicU64; NCLS]; NROLES]) -> Value {
        let roles = ["server", "client-transaction", "client-sequence", "client-transport(net::client::tsig)", "server-middleware(TsigMiddlewareSvc)"];
        let mut o = serde_json::Map::new();
        for r in 0..NROLES {
            let mut m = serde_json::Map::new();
            for c in 0..NCLS {
                let n = which[r][c].load(AO::Relaxed);
                if n > 0 {
                    m.insert(CLS_NAMES[c].to_string(), json!(n));
                }
            }
            o.insert(roles[r].to_string(), Value::Object(m));
        }
        Value::Object(o)
    }
}

/// `Ctx::violation` with the replay built only for the first instance of a class.
fn violate(ctx: &Ctx, sig: &str, what: &str, replay: &dyn Fn() -> Value) -> bool {
    static SEEN: std::sync::Mutex<std::collections::BTreeSet<String>> = std::sync::Mutex::new(std::collections::BTreeSet::new());
    let first = !ctx.is_known(sig) && SEEN.lock().unwrap().insert(sig.to_string());
    ctx.violation(sig, what, if first { replay() } else { Value::Null })
}

fn judge(
    ctx: &Ctx,
    role: &str,
    op: &str,
    exp: &Expect,
    got: Cls,
    mutation: &str,
    replay: &dyn Fn() -> Value,
) -> bool {
    if verbose() {
        println!(
            "  {role}.{op} [{mutation}]: reference {:?} (also allowed {:?}; cause {}), library {:?}",
            exp.primary, exp.alts, exp.cause, got
        );
    }
    if exp.allows(got) {
        return true;
    }
    // the explanation of a wrong MAC matters only when the library took the
    // message for authentic; a wrong rejection class is one class per cause kind
    let authentic = matches!(got, Cls::Accept | Cls::SrvBadTime);
    let cause = if authentic { exp.cause.as_str() } else { exp.cause.split('(').next().unwrap() };
    let sig = format!("C11|{role}|{op}|{cause}|expected {:?}|observed {:?}", exp.primary, got);
    violate(ctx, 
        &sig,
        &format!(
            "{role}.{op}: RFC 8945 reference says {:?} ({}), library says {:?}; first seen with mutation '{mutation}'",
            exp.primary, exp.cause, got
        ),
        &replay,
    );
    false
}

fn report_panic(ctx: &Ctx, role: &str, op: &str, cause: &str, msg: &str, replay: &dyn Fn() -> Value) {
    if verbose() {
        println!("  {role}.{op}: PANIC {msg}");
    }
    // "missing or malformed TSIG record: Position @ file" -> one class per panic site
    let pc = panic_class(msg);
    let pc = match (pc.split_once(": "), pc.rsplit_once(" @ ")) {
        (Some((head, _)), Some((_, file))) => format!("{head} @ {file}"),
        _ => pc,
    };
    let sig = format!("C11|{role}|{op}|{cause}|panic|{pc}");
    violate(ctx, &sig, &format!("{role}.{op} panicked: {msg}"), &replay);
}

fn cls_of_validation(e: &ValidationError) -> Cls {
    match e {
        ValidationError::BadSig => Cls::BadSig,
        ValidationError::BadTrunc => Cls::BadTrunc,
        ValidationError::BadKey => Cls::BadKey,
        ValidationError::BadTime => Cls::BadTime,
        ValidationError::FormErr => Cls::FormErr,
        ValidationError::ServerUnsigned => Cls::Unsigned,
        ValidationError::ServerBadKey => Cls::SrvBadKey,
        ValidationError::ServerBadSig => Cls::SrvBadSig,
        ValidationError::ServerBadTime { .. } => Cls::SrvBadTime,
        ValidationError::TooManyUnsigned => Cls::TooManyUnsigned,
        _ => Cls::Other,
    }
}

fn cls_of_code(c: u16) -> Cls {
    match c {
        1 => Cls::FormErr,
        16 => Cls::BadSig,
        17 => Cls::BadKey,
        18 => Cls::BadTime,
        22 => Cls::BadTrunc,
        _ => Cls::Other,
    }
}

fn lib_server_request(
    store: &LibStore,
    seq: bool,
    m: &mut Message<Vec<u8>>,
    now: u64,
) -> Result<Option<(Option<ServerTransaction<K>>, Option<ServerSequence<K>>)>, ServerError<K>> {
    let now = Time48::from_u64(now);
    match (store, seq) {
        (LibStore::Single(k), false) => ServerTransaction::request(k, m, now).map(|o| o.map(|t| (Some(t), None))),
        (LibStore::Single(k), true) => ServerSequence::request(k, m, now).map(|o| o.map(|t| (None, Some(t)))),
        (LibStore::Multi(h), false) => ServerTransaction::request(&**h, m, now).map(|o| o.map(|t| (Some(t), None))),
        (LibStore::Multi(h), true) => ServerSequence::request(&**h, m, now).map(|o| o.map(|t| (None, Some(t)))),
    }
}

struct ServerScen {
    keys: Vec<KeySpec>,
    store: LibStore,
    refstore: Vec<RefKey>,
    seq: bool,
    now: u64,
    /// answer signed after an accepted request (post-state check)
    answer_presign: Vec<u8>,
    check_errors: bool,
}

impl ServerScen {
    fn new(keys: Vec<KeySpec>, multi: bool, seq: bool, now: u64, answer_presign: Vec<u8>, check_errors: bool) -> ServerScen {
        let libs: Vec<K> = keys.iter().map(|k| k.lib().unwrap().unwrap()).collect();
        let store = if multi {
            let mut h = HashMap::new();
            for k in &libs {
                h.insert((k.name().clone(), k.algorithm()), k.clone());
            }
            LibStore::Multi(Arc::new(h))
        } else {
            LibStore::Single(libs[0].clone())
        };
        ServerScen { refstore: keys.iter().map(|k| k.refkey()).collect(), keys, store, seq, now, answer_presign, check_errors }
    }
    fn replay(&self, msg: &[u8]) -> Value {
        json!({"kind": "server_request", "keys": self.keys.iter().map(|k| k.json()).collect::<Vec<_>>(),
               "multi": matches!(self.store, LibStore::Multi(_)), "seq": self.seq, "now": self.now,
               "msg": hex(msg), "answer_presign": hex(&self.answer_presign)})
    }
    fn from_json(v: &Value) -> (ServerScen, Vec<u8>) {
        let keys = v["keys"].as_array().unwrap().iter().map(KeySpec::from_json).collect();
        (
            ServerScen::new(
                keys,
                v["multi"].as_bool().unwrap(),
                v["seq"].as_bool().unwrap(),
                v["now"].as_u64().unwrap(),
                unhex(v["answer_presign"].as_str().unwrap()),
                true,
            ),
            unhex(v["msg"].as_str().unwrap()),
        )
    }
}

/// Check a library-signed answer against the reference.
/// `prefix`: what RFC 8945 digests before this message. Returns the wire MAC.
fn check_signed_by_lib(
    ctx: &Ctx,
    role: &str,
    op: &str,
    key: &RefKey,
    prefix: &[u8],
    alt_prefix: Option<&[u8]>,
    presign: &[u8],
    signed: &[u8],
    timers_only: bool,
    now: u64,
    fudge: u16,
    replay: &dyn Fn() -> Value,
) -> Option<Vec<u8>> {
    let fail = |what: &str, detail: String| {
        violate(ctx, &format!("C11|{role}|{op}|signed-output|{what}"), &format!("{role}.{op}: {detail}"), &replay);
        None
    };
    let t = match ref_locate(signed) {
        Locate::Found(t) => t,
        _ => return fail("no-well-placed-tsig", "output carries no single TSIG as last additional record".into()),
    };
    if strip(signed, &t) != presign {
        return fail("message-octets-changed", "octets before the TSIG record differ from the pre-signing message".into());
    }
    if !wire::labels_eq_ci(&t.owner, &key.name) || Alg::from_labels(&t.alg) != Some(key.alg) || t.class != 255 || t.ttl != 0 {
        return fail("tsig-rr-fields", format!("owner/algorithm/class/ttl wrong: {t:?}"));
    }
    if t.time != now || t.fudge != fudge || t.orig_id != get16(presign, 0) || t.error != 0 || !t.other.is_empty() {
        return fail("tsig-rdata-fields", format!("time/fudge/original-id/error/other wrong: {t:?} (now {now})"));
    }
    if t.mac.len() != key.sign {
        return fail("mac-length", format!("MAC has {} octets, key signs with {}", t.mac.len(), key.sign));
    }
    let vars = if timers_only { ref_timers(t.time, t.fudge) } else { ref_variables(key, t.time, t.fudge, t.error, &t.other) };
    let full = key.full_mac(&[prefix, presign, &vars]);
    if full[..key.sign] != t.mac[..] {
        // classify the cause for a narrow signature
        let mut why = "observed=unexplained";
        if let Some(ap) = alt_prefix {
            let alt = key.full_mac(&[ap, presign, &vars]);
            if alt[..key.sign] == t.mac[..] {
                why = "observed=prior-mac-digested-untruncated";
            }
        }
        return fail(
            &format!("mac!=reference|{why}|truncating-key={}", key.sign < key.alg.native()),
            format!("MAC {} differs from the RFC 8945 MAC {}", hex(&t.mac), hex(&full[..key.sign])),
        );
    }
    Some(t.mac)
}

struct ServerOutcome {
    got: Cls,
    tx: Option<ServerTransaction<K>>,
    sq: Option<ServerSequence<K>>,
    /// on agreed accept: key index and wire MAC of the request
    acc: Option<(usize, Vec<u8>)>,
    /// the answer signed by the accepted machine (post step), if it matched the reference
    answer: Option<Vec<u8>>,
    /// the error response built from a ServerError
    err_response: Option<Vec<u8>>,
}

/// One transition of the server machine on one (possibly mutated) request.
fn eval_server(ctx: &Ctx, l: &mut Local, sc: &ServerScen, msg: &[u8], mutation: &str, post: bool) -> ServerOutcome {
    l.evals += 1;
    l.transitions += 1;
    l.states += 1;
    let replay = || sc.replay(msg);
    let (exp, acc) = ref_server(&sc.refstore, msg, sc.now);
    l.ref_cls[0][exp.primary as usize] += 1;
    let mut m = Message::from_octets(msg.to_vec()).expect("harness messages have a header");
    let r = guard(|| lib_server_request(&sc.store, sc.seq, &mut m, sc.now));
    let mut out = ServerOutcome { got: Cls::Other, tx: None, sq: None, acc: None, answer: None, err_response: None };
    let r = match r {
        Err(p) => {
            report_panic(ctx, "server", "request", &exp.cause, &p, &replay);
            return out;
        }
        Ok(r) => r,
    };
    let (got, err) = match r {
        Ok(Some((tx, sq))) => {
            out.tx = tx;
            out.sq = sq;
            (Cls::Accept, None)
        }
        Ok(None) => (Cls::Unsigned, None),
        Err(e) => (cls_of_code(e.error().to_int()), Some(e)),
    };
    out.got = got;
    l.lib_cls[0][got as usize] += 1;
    let agreed = judge(ctx, "server", "request", &exp, got, mutation, &replay);
    if got == Cls::Unsigned && m.as_slice() != msg {
        violate(ctx, "C11|server|request|unsigned|message-modified", "request without TSIG was modified", &replay);
    }
    if got == Cls::Accept && agreed {
        let (ki, mac, stripped) = acc.unwrap();
        check_restored(ctx, "server", "request", m.as_slice(), &stripped, l, &replay);
        out.acc = Some((ki, mac.clone()));
        if post && !sc.answer_presign.is_empty() {
            // the machine state is observable only through what it signs next
            let key = &sc.refstore[ki];
            let mut b = builder_from(&sc.answer_presign);
            let now2 = sc.now + 1;
            l.transitions += 1;
            l.states += 1;
            let r = if let Some(tx) = out.tx.clone() {
                guard(|| tx.answer(&mut b, Time48::from_u64(now2)).map_err(|e| format!("{e:?}")))
            } else {
                let mut sq = out.sq.clone().unwrap();
                guard(|| sq.answer(&mut b, Time48::from_u64(now2)).map_err(|e| format!("{e:?}")))
            };
            match r {
                Err(p) => report_panic(ctx, "server", "answer", &exp.cause, &p, &replay),
                Ok(Err(e)) => {
                    violate(ctx, "C11|server|answer|push-error", &format!("answer() failed: {e}"), &replay);
                }
                Ok(Ok(())) => {
                    if check_signed_by_lib(ctx, "server", "answer-after-request", key, &mac_prefix(&mac), None, &sc.answer_presign,
                        b.as_slice(), false, now2, 300, &replay).is_some() {
                        l.c("answer MAC equals reference");
                        out.answer = Some(b.as_slice().to_vec());
                    }
                }
            }
        }
    }
    if let Some(e) = err {
        if sc.check_errors {
            out.err_response = check_server_error(ctx, l, sc, msg, e, &exp, got, agreed, mutation);
        }
    }
    out
}

/// "Successful verification returns the message to its pre-signing octets".
/// The library cannot shrink `Octs`; it decrements ARCOUNT and leaves the
/// TSIG octets behind the end of the message. Checked: the message as
/// delimited by its own counts equals the pre-signing octets.
fn check_restored(ctx: &Ctx, role: &str, op: &str, after: &[u8], presign: &[u8], l: &mut Local, replay: &dyn Fn() -> Value) {
    let ok = after.len() >= presign.len()
        && after[..presign.len()] == presign[..]
        && walk(after).map(|w| w.end == presign.len()).unwrap_or(false);
    if after.len() > presign.len() {
        l.c("accepted: stale TSIG octets remain behind the message end (ARCOUNT decremented only)");
    }
    if !ok {
        violate(ctx, 
            &format!("C11|{role}|{op}|accepted|message-not-restored-to-pre-signing-octets"),
            &format!("{role}.{op}: after successful verification the message differs from the pre-signing octets"),
            &replay,
        );
    }
}

/// RFC 8945 5.2.x / 5.3.2: the error response the server machine produces.
fn check_server_error(
    ctx: &Ctx,
    l: &mut Local,
    sc: &ServerScen,
    msg: &[u8],
    e: ServerError<K>,
    exp: &Expect,
    got: Cls,
    agreed: bool,
    mutation: &str,
) -> Option<Vec<u8>> {
    let replay = || sc.replay(msg);
    l.transitions += 1;
    l.states += 1;
    let req = Message::from_octets(msg.to_vec()).unwrap();
    let r = guard(|| e.build_message(&req, MessageBuilder::new_vec()).map(|b| b.as_slice().to_vec()).map_err(|e| format!("{e:?}")));
    let bytes = match r {
        Err(p) => {
            l.c("build_message: panic");
            let _ = exp;
            report_panic(ctx, "server-error", "build_message", &format!("{got:?}"), &p, &replay);
            return None;
        }
        Ok(Err(e)) => {
            violate(ctx, "C11|server-error|build_message|push-error", &format!("build_message failed: {e}"), &replay);
            return None;
        }
        Ok(Ok(b)) => b,
    };
    l.c(&format!("build_message: ok for {got:?}"));
    if verbose() {
        println!("  server-error.build_message [{mutation}] -> {}", hex(&bytes));
    }
    let out = Some(bytes.clone());
    if !agreed {
        return out; // the class itself is already reported; do not pile on
    }
    check_error_response(ctx, l, sc, msg, &bytes, got);
    out
}

fn check_error_response(ctx: &Ctx, l: &mut Local, sc: &ServerScen, msg: &[u8], bytes: &[u8], got: Cls) {
    let replay = || sc.replay(msg);
    check_error_response_at(ctx, l, "server-error|build_message", &replay, &sc.refstore, sc.now, sc.now, msg, bytes, got)
}

/// The error response for a refused request; the server's clock was somewhere in `now_lo..=now_hi`.
fn check_error_response_at(ctx: &Ctx, l: &mut Local, who: &str, replay: &dyn Fn() -> Value, refstore: &[RefKey], now_lo: u64, now_hi: u64, msg: &[u8], bytes: &[u8], got: Cls) {
    let bytes = bytes.to_vec();
    let fail = |what: &str, detail: String| {
        violate(ctx, &format!("C11|{who}|{got:?}|{what}"), &format!("error response for {got:?}: {detail}"), replay);
    };
    if bytes.len() < 12 || get16(&bytes, 0) != get16(msg, 0) || bytes[2] & 0x80 == 0 {
        return fail("header", "ID not copied or QR not set".into());
    }
    let rcode = bytes[3] & 0x0F;
    if got == Cls::FormErr {
        if rcode != 1 {
            fail("rcode expected FORMERR(1)", format!("RCODE is {rcode}; RFC 8945 5.2 requires a response with RCODE 1 (FORMERR)"));
        }
        return;
    }
    if rcode != 9 {
        return fail("rcode expected NOTAUTH(9)", format!("RCODE is {rcode}"));
    }
    let t = match ref_locate(&bytes) {
        Locate::Found(t) => t,
        _ => return fail("no-well-placed-tsig", "error response carries no TSIG as last additional record".into()),
    };
    let code = match got {
        Cls::BadSig => 16,
        Cls::BadKey => 17,
        Cls::BadTime => 18,
        Cls::BadTrunc => 22,
        _ => 0,
    };
    if t.error != code {
        return fail("tsig-error-field", format!("TSIG error field {} instead of {code}", t.error));
    }
    let rt = match ref_locate(msg) {
        Locate::Found(t) => t,
        _ => return,
    };
    match got {
        Cls::BadSig | Cls::BadKey => {
            if !t.mac.is_empty() {
                fail("must-be-unsigned", "RFC 8945 5.3.2: key/MAC errors MUST NOT be signed".into());
            }
        }
        Cls::BadTime => {
            let ki = refstore.iter().position(|k| Some(k.alg) == Alg::from_labels(&rt.alg) && wire::labels_eq_ci(&k.name, &rt.owner));
            let key = match ki {
                Some(i) => &refstore[i],
                None => return,
            };
            let server_time = if t.other.len() == 6 { u64::from_be_bytes([0, 0, t.other[0], t.other[1], t.other[2], t.other[3], t.other[4], t.other[5]]) } else { u64::MAX };
            if t.time != rt.time || server_time < now_lo || server_time > now_hi {
                return fail("time-fields", format!("time signed {} (request {}), other data {} (server time {now_lo}..={now_hi})", t.time, rt.time, hex(&t.other)));
            }
            let presign = strip(&bytes, &t);
            let prefix = mac_prefix(&rt.mac);
            let full = key.full_mac(&[&prefix, &presign, &ref_variables(key, t.time, t.fudge, 18, &t.other)]);
            if t.mac.len() != key.sign || full[..key.sign] != t.mac[..] {
                // does it equal a MAC over Other Len = 6 followed by 8 octets?
                let mut v = ref_variables(key, t.time, t.fudge, 18, &[]);
                let n = v.len();
                v[n - 2..].copy_from_slice(&6u16.to_be_bytes());
                v.extend_from_slice(&server_time.to_be_bytes());
                let alt = key.full_mac(&[&prefix, &presign, &v]);
                let why = if t.mac.len() == key.sign && alt[..key.sign] == t.mac[..] {
                    "observed=mac-over-8-octet-other-data-after-other-len-6"
                } else {
                    "observed=unexplained"
                };
                fail(&format!("mac!=rfc8945|{why}"), format!("MAC {} but RFC 8945 (6-octet server time as other data) gives {}", hex(&t.mac), hex(&full[..key.sign])));
            } else {
                l.c("BADTIME response MAC equals reference");
            }
        }
        _ => {}
    }
}

#[derive(Clone)]
enum LibClient {
    Tx(ClientTransaction<K>),
    Seq(ClientSequence<K>),
}

/// A client machine (real + reference) in some reached state.
#[derive(Clone)]
struct ClientScen {
    key: KeySpec,
    req_presign: Vec<u8>,
    req_now: u64,
    fudge: u16,
    steps: Vec<(Vec<u8>, u64)>,
    lib: LibClient,
    rc: RefClient,
}

impl ClientScen {
    /// Transition: sign a request with the real client machine; the signed
    /// request is checked against the reference signer.
    fn start(ctx: &Ctx, l: &mut Local, key: &KeySpec, seq: bool, req_presign: &[u8], req_now: u64, fudge: u16) -> Option<(ClientScen, Vec<u8>)> {
        let k = key.lib().ok()?.ok()?;
        let rk = key.refkey();
        let replay = || json!({"kind": "client", "key": key.json(), "seq": seq, "req_presign": hex(req_presign), "req_now": req_now, "fudge": fudge, "steps": []});
        let mut b = builder_from(req_presign);
        l.evals += 1;
        l.transitions += 1;
        l.states += 1;
        let now = Time48::from_u64(req_now);
        let r = guard(|| {
            if seq {
                ClientSequence::request_with_fudge(k.clone(), &mut b, now, fudge).map(LibClient::Seq).map_err(|e| format!("{e:?}"))
            } else {
                ClientTransaction::request_with_fudge(k.clone(), &mut b, now, fudge).map(LibClient::Tx).map_err(|e| format!("{e:?}"))
            }
        });
        let role = if seq { "client-sequence" } else { "client-transaction" };
        let lib = match r {
            Err(p) => {
                report_panic(ctx, role, "request", "honest", &p, &replay);
                return None;
            }
            Ok(Err(e)) => {
                violate(ctx, &format!("C11|{role}|request|push-error"), &format!("request() failed: {e}"), &replay);
                return None;
            }
            Ok(Ok(c)) => c,
        };
        let signed = b.as_slice().to_vec();
        let mac = check_signed_by_lib(ctx, role, "request", &rk, &[], None, req_presign, &signed, false, req_now, fudge, &replay)?;
        l.c("request MAC equals reference");
        Some((
            ClientScen {
                key: key.clone(),
                req_presign: req_presign.to_vec(),
                req_now,
                fudge,
                steps: Vec::new(),
                lib,
                rc: RefClient::new(&rk, seq, &mac),
            },
            signed,
        ))
    }

    fn replay(&self, msg: &[u8], now: u64) -> Value {
        client_replay(&self.key, self.rc.seq, &self.req_presign, self.req_now, self.fudge, &self.steps, msg, now)
    }

    /// Transition: feed one answer to the real machine and to the reference.
    /// Returns (library class, agreed and equal to the reference's primary).
    fn step(&mut self, ctx: &Ctx, l: &mut Local, msg: &[u8], now: u64, mutation: &str) -> (Cls, bool) {
        let r = client_eval(ctx, l, &self.key, &self.req_presign, self.req_now, self.fudge, &self.steps, &mut self.lib, &mut self.rc, msg, now, mutation);
        self.steps.push((msg.to_vec(), now));
        r
    }

    /// Same transition on a copy of the state (fault enumeration).
    fn probe(&self, ctx: &Ctx, l: &mut Local, msg: &[u8], now: u64, mutation: &str) -> (Cls, bool) {
        let mut lib = self.lib.clone();
        let mut rc = self.rc.clone();
        client_eval(ctx, l, &self.key, &self.req_presign, self.req_now, self.fudge, &self.steps, &mut lib, &mut rc, msg, now, mutation)
    }

    /// `done()` on a clone of a sequence state: Ok iff the last message was signed.
    fn check_done(&self, ctx: &Ctx, l: &mut Local) {
        if let LibClient::Seq(s) = &self.lib {
            if self.rc.first {
                return;
            }
            l.evals += 1;
            l.transitions += 1;
            let s = s.clone();
            let this = self.clone();
            let replay = || {
                let mut v = this.replay(&[], 0);
                v["steps"].as_array_mut().unwrap().pop();
                v["done"] = json!(true);
                v
            };
            match guard(|| s.done()) {
                Err(p) => report_panic(ctx, "client-sequence", "done", "", &p, &replay),
                Ok(r) => {
                    let want_ok = self.rc.run == 0;
                    if verbose() {
                        println!("  client-sequence.done: reference ok={want_ok}, library {r:?}");
                    }
                    l.c(if r.is_ok() { "done: ok" } else { "done: error" });
                    if r.is_ok() != want_ok {
                        violate(ctx, 
                            &format!("C11|client-sequence|done|last-message-signed={want_ok}|observed ok={}", r.is_ok()),
                            "done() must succeed iff the last message of the sequence carried a TSIG",
                            &replay,
                        );
                    }
                }
            }
        }
    }
}

fn client_replay(key: &KeySpec, seq: bool, req_presign: &[u8], req_now: u64, fudge: u16, steps: &[(Vec<u8>, u64)], msg: &[u8], now: u64) -> Value {
    let mut st: Vec<Value> = steps.iter().map(|(m, n)| json!({"msg": hex(m), "now": n})).collect();
    st.push(json!({"msg": hex(msg), "now": now}));
    json!({"kind": "client", "key": key.json(), "seq": seq, "req_presign": hex(req_presign),
           "req_now": req_now, "fudge": fudge, "steps": st})
}

fn client_eval(
    ctx: &Ctx,
    l: &mut Local,
    key: &KeySpec,
    req_presign: &[u8],
    req_now: u64,
    fudge: u16,
    steps: &[(Vec<u8>, u64)],
    lib: &mut LibClient,
    rc: &mut RefClient,
    msg: &[u8],
    now: u64,
    mutation: &str,
) -> (Cls, bool) {
    let seq = rc.seq;
    let replay = || client_replay(key, seq, req_presign, req_now, fudge, steps, msg, now);
    client_eval_with(ctx, l, lib, rc, msg, now, mutation, &replay)
}

/// One transition of a client machine (real + reference) on one message; the
/// caller says how the case is replayed.
fn client_eval_with(
    ctx: &Ctx,
    l: &mut Local,
    lib: &mut LibClient,
    rc: &mut RefClient,
    msg: &[u8],
    now: u64,
    mutation: &str,
    replay: &dyn Fn() -> Value,
) -> (Cls, bool) {
    l.evals += 1;
    l.transitions += 1;
    l.states += 1;
    let seq = rc.seq;
    let (role, ri) = if seq { ("client-sequence", 2) } else { ("client-transaction", 1) };
    let op = if !seq {
        "answer"
    } else if rc.first {
        "answer-first"
    } else {
        "answer-subsequent"
    };
    let (exp, commit) = rc.expect(msg, now);
    l.ref_cls[ri][exp.primary as usize] += 1;
    let mut m = Message::from_octets(msg.to_vec()).expect("harness messages have a header");
    let t = Time48::from_u64(now);
    let r = guard(|| match lib {
        LibClient::Tx(c) => c.answer(&mut m, t),
        LibClient::Seq(c) => c.answer(&mut m, t),
    });
    let r = match r {
        Err(p) => {
            report_panic(ctx, role, op, &exp.cause, &p, &replay);
            return (Cls::Other, false);
        }
        Ok(r) => r,
    };
    let got = match &r {
        Ok(()) => Cls::Accept,
        Err(e) => cls_of_validation(e),
    };
    l.lib_cls[ri][got as usize] += 1;
    let agreed = judge(ctx, role, op, &exp, got, mutation, &replay);
    if agreed && got == Cls::Accept {
        match &commit {
            Commit::Signed { stripped, .. } => check_restored(ctx, role, op, m.as_slice(), stripped, l, &replay),
            Commit::Unsigned => {
                if m.as_slice() != msg {
                    violate(ctx, &format!("C11|{role}|{op}|unsigned-intermediate|message-modified"), "unsigned message was modified", &replay);
                }
            }
            Commit::None => {}
        }
    }
    if agreed && got == Cls::SrvBadTime {
        if let (Err(ValidationError::ServerBadTime { client, server }), Some((c, s))) = (&r, exp.times) {
            if u64::from(*client) != c || u64::from(*server) != s {
                violate(ctx, &format!("C11|{role}|{op}|server-reports-badtime|times"), &format!("ServerBadTime carries ({},{}) instead of ({c},{s})", u64::from(*client), u64::from(*server)), &replay);
            }
        }
    }
    let same = agreed && exp.primary == got;
    if same {
        rc.commit(&commit, msg);
    }
    (got, same)
}

// =====================================================================
// MESSAGES (harness-made wire octets)
// =====================================================================

fn qname() -> Vec<u8> {
    wire::to_wire(&labels_of("www.Example.org"))
}

fn rr(owner: &[u8], rtype: u16, class: u16, ttl: u32, rdata: &[u8]) -> Vec<u8> {
    let mut v = owner.to_vec();
    v.extend_from_slice(&rtype.to_be_bytes());
    v.extend_from_slice(&class.to_be_bytes());
    v.extend_from_slice(&ttl.to_be_bytes());
    v.extend_from_slice(&(rdata.len() as u16).to_be_bytes());
    v.extend_from_slice(rdata);
    v
}

const SHAPES: [&str; 5] = ["query", "answer3", "with-opt", "full", "big60k"];

/// Pre-signing message of a given shape. `salt` varies the content.
fn shape(kind: usize, response: bool, id: u16, rcode: u8, salt: u8) -> Vec<u8> {
    let mut h = vec![0u8; 12];
    set16(&mut h, 0, id);
    h[2] = if response { 0x85 } else { 0x01 };
    h[3] = if response { 0x80 | (rcode & 0x0F) } else { rcode & 0x0F };
    let mut m = h;
    m.extend_from_slice(&qname());
    m.extend_from_slice(&[0, 1, 0, 1]);
    set16(&mut m, 4, 1);
    let ptr = [0xC0u8, 0x0C];
    let (mut an, mut ns, mut ar) = (0u16, 0u16, 0u16);
    match kind {
        0 => {}
        1 => {
            for i in 0..3u8 {
                m.extend_from_slice(&rr(&ptr, 1, 1, 3600, &[192, 0, 2, i.wrapping_add(salt)]));
                an += 1;
            }
        }
        2 => {
            m.extend_from_slice(&rr(&ptr, 1, 1, 60, &[198, 51, 100, salt]));
            an += 1;
            // OPT: root owner, type 41, class = udp size 1232, ttl 0, one option
            m.extend_from_slice(&rr(&[0], 41, 1232, 0, &[0, 10, 0, 8, 1, 2, 3, 4, 5, 6, 7, salt]));
            ar += 1;
        }
        3 => {
            m.extend_from_slice(&rr(&ptr, 1, 1, 60, &[203, 0, 113, salt]));
            an += 1;
            let mut nsd = vec![2, b'n', b's'];
            nsd.extend_from_slice(&[0xC0, 0x10]); // ns.Example.org via pointer into the question
            m.extend_from_slice(&rr(&[0xC0, 0x10], 2, 1, 86400, &nsd));
            ns += 1;
            let mut own = vec![2, b'n', b's'];
            own.extend_from_slice(&[0xC0, 0x10]);
            m.extend_from_slice(&rr(&own, 28, 1, 86400, &[0x20, 1, 0xd, 0xb8, 0, 0, 0, 0, 0, 0, 0, 0, 0, 0, 0, salt]));
            ar += 1;
        }
        _ => {
            let mut i = 0u32;
            while m.len() < 60 * 1024 {
                let mut txt = vec![255u8];
                txt.extend((0..255u32).map(|j| (32 + ((i * 7 + j + salt as u32) % 90)) as u8));
                m.extend_from_slice(&rr(&ptr, 16, 1, 300, &txt));
                an += 1;
                i += 1;
            }
        }
    }
    set16(&mut m, 6, an);
    set16(&mut m, 8, ns);
    set16(&mut m, 10, ar);
    m
}

// =====================================================================
// MUTATIONS
// =====================================================================

fn swap_case(l: &[Vec<u8>]) -> Vec<Vec<u8>> {
    l.iter()
        .map(|x| x.iter().map(|c| if c.is_ascii_alphabetic() { c ^ 0x20 } else { *c }).collect())
        .collect()
}

/// Every structural mutation of one signed message. `prefix`/`timers_only`
/// describe the signing context so that re-signed variants can be made.
fn structural(m: &[u8], key: &RefKey, prefix: &[u8], timers_only: bool, now: u64) -> Vec<(String, Vec<u8>)> {
    let t = match ref_locate(m) {
        Locate::Found(t) => t,
        _ => return Vec::new(),
    };
    let w = walk(m).unwrap();
    let head = &m[..t.start];
    let rr_bytes = &m[t.start..];
    let presign = strip(m, &t);
    let mut out: Vec<(String, Vec<u8>)> = Vec::new();
    let build = |owner: &[Vec<u8>], class: u16, ttl: u32, alg: &[Vec<u8>], time: u64, mac: &[u8], orig: u16, other: &[u8]| {
        let mut v = head.to_vec();
        v.extend_from_slice(&tsig_rr(owner, class, ttl, alg, time, t.fudge, mac, orig, t.error, other));
        v
    };
    let same = |mac: &[u8]| build(&t.owner, 255, 0, &t.alg, t.time, mac, t.orig_id, &t.other);
    let sign_with = |k: &RefKey, time: u64| {
        let vars = if timers_only { ref_timers(time, t.fudge) } else { ref_variables(k, time, t.fudge, t.error, &t.other) };
        k.full_mac(&[prefix, &presign, &vars])
    };
    let full = sign_with(key, t.time);

    // position of the record
    let mut v = head.to_vec();
    let ar = get16(&v, 10);
    set16(&mut v, 10, ar - 1);
    out.push(("tsig-removed".into(), v));
    out.push(("tsig-duplicated".into(), append_ar(m, rr_bytes)));
    out.push(("tsig-not-last(extra A record after it)".into(), append_ar(m, &rr(&[0], 1, 1, 0, &[192, 0, 2, 99]))));
    for (sec, name) in [(0usize, "answer"), (1, "authority")] {
        let pos = w.sec_end[sec];
        let mut v = m[..pos].to_vec();
        v.extend_from_slice(rr_bytes);
        v.extend_from_slice(&m[pos..t.start]);
        let c = get16(&v, 6 + 2 * sec);
        set16(&mut v, 6 + 2 * sec, c + 1);
        set16(&mut v, 10, ar - 1);
        out.push((format!("tsig-moved-to-{name}-section"), v));
    }
    // key name
    out.push(("key-name-replaced".into(), build(&labels_of("other-key.example"), 255, 0, &t.alg, t.time, &t.mac, t.orig_id, &t.other)));
    let mut one = t.owner.clone();
    let last = one[0].len() - 1;
    one[0][last] = if one[0][last].to_ascii_lowercase() == b'q' { b'r' } else { b'q' };
    out.push(("key-name-one-octet-changed".into(), build(&one, 255, 0, &t.alg, t.time, &t.mac, t.orig_id, &t.other)));
    out.push(("key-name-case-swapped".into(), build(&swap_case(&t.owner), 255, 0, &t.alg, t.time, &t.mac, t.orig_id, &t.other)));
    // algorithm
    for a in ALGS {
        if a != key.alg {
            out.push((format!("algorithm-replaced-by-{a:?}"), build(&t.owner, 255, 0, &[a.label().to_vec()], t.time, &t.mac, t.orig_id, &t.other)));
        }
    }
    out.push(("algorithm-replaced-by-unknown".into(), build(&t.owner, 255, 0, &labels_of("hmac-md5.sig-alg.reg.int"), t.time, &t.mac, t.orig_id, &t.other)));
    out.push(("algorithm-name-upper-case".into(), build(&t.owner, 255, 0, &swap_case(&t.alg), t.time, &t.mac, t.orig_id, &t.other)));
    // ids
    out.push(("original-id-changed".into(), build(&t.owner, 255, 0, &t.alg, t.time, &t.mac, t.orig_id ^ 0x0100, &t.other)));
    let mut v = m.to_vec();
    set16(&mut v, 0, t.orig_id ^ 0x5A5A);
    out.push(("header-id-changed(original-id intact)".into(), v));
    let mut v = build(&t.owner, 255, 0, &t.alg, t.time, &t.mac, t.orig_id ^ 0x0100, &t.other);
    set16(&mut v, 0, t.orig_id ^ 0x0100);
    out.push(("header-id-and-original-id-changed".into(), v));
    // MAC length: every length 0..=native+2 (correct prefix, zero padding)
    let native = key.alg.native();
    for n in 0..=native + 2 {
        let mut mac = full.clone();
        mac.resize(n, 0);
        out.push((format!("mac-length-{n}(correct-prefix)"), same(&mac)));
        if n >= key.alg.floor() && n <= native {
            mac[n - 1] ^= 0x01;
            out.push((format!("mac-length-{n}(last-octet-wrong)"), same(&mac)));
        }
    }
    // wrong secret
    let mut wrong = key.clone();
    wrong.hk = hmac::Key::new(key.alg.ring(), b"a completely different secret!!!");
    out.push(("signed-with-wrong-secret".into(), same(&sign_with(&wrong, t.time)[..t.mac.len()])));
    // validly signed at other times
    let f = t.fudge as u64;
    for (name, time) in [
        ("resigned-time=now-fudge-1", now.checked_sub(f + 1)),
        ("resigned-time=now-fudge", now.checked_sub(f)),
        ("resigned-time=now+fudge", Some(now + f)),
        ("resigned-time=now+fudge+1", Some(now + f + 1)),
    ] {
        if let Some(time) = time {
            if time < (1 << 48) {
                let mac = sign_with(key, time);
                out.push((name.into(), build(&t.owner, 255, 0, &t.alg, time, &mac[..t.mac.len()], t.orig_id, &t.other)));
            }
        }
    }
    // class / ttl of the TSIG RR
    for (name, class, ttl) in [("tsig-class-IN", 1u16, 0u32), ("tsig-class-NONE", 254, 0), ("tsig-ttl-1", 255, 1), ("tsig-ttl-top-bit", 255, 0x8000_0000)] {
        out.push((name.into(), build(&t.owner, class, ttl, &t.alg, t.time, &t.mac, t.orig_id, &t.other)));
    }
    // other data added without re-signing
    if t.other.is_empty() {
        out.push(("other-data-4-octets-added".into(), build(&t.owner, 255, 0, &t.alg, t.time, &t.mac, t.orig_id, &[1, 2, 3, 4])));
        out.push(("other-data-6-octets-added".into(), build(&t.owner, 255, 0, &t.alg, t.time, &t.mac, t.orig_id, &[0, 0, 1, 2, 3, 4])));
    }
    // rdata length off by one
    let mut v = m.to_vec();
    let rdlen_pos = walk(m).unwrap().recs.last().unwrap().rdata - 2;
    let rl = get16(&v, rdlen_pos);
    set16(&mut v, rdlen_pos, rl + 1);
    v.push(0);
    out.push(("tsig-rdata-one-trailing-octet".into(), v));
    let mut v = m.to_vec();
    set16(&mut v, rdlen_pos, rl - 1);
    v.pop();
    out.push(("tsig-rdata-one-octet-short".into(), v));
    out
}

// =====================================================================
// RUNNERS
// =====================================================================

const T0: u64 = 1_700_000_000;
const SECRET: &[u8] = b"0123456789abcdefghijklmnopqrstuv";
const OFFSETS: [i64; 5] = [-301, -300, 0, 300, 301];

fn key_variants(quick: bool, mutation_set: bool) -> Vec<KeySpec> {
    let mut v = Vec::new();
    for alg in ALGS {
        let n = alg.native();
        let f = alg.floor();
        let mut vals = vec![n, f];
        if !quick && !mutation_set {
            vals.push(f + 3);
        }
        vals.dedup();
        for &mn in &vals {
            for &sg in &vals {
                for name in ["tsig-key.example", "TSIG-Key.Example"] {
                    v.push(KeySpec {
                        alg,
                        secret: SECRET.to_vec(),
                        name: name.to_string(),
                        min: if mn == n { None } else { Some(mn) },
                        sign: if sg == n { None } else { Some(sg) },
                    });
                }
            }
        }
    }
    v
}

/// Key::new accepts exactly the RFC 8945 5.2.2.1 range for both lengths.
fn run_key_bounds(ctx: &Ctx, g: &Glob) {
    let mut cases = Vec::new();
    for alg in ALGS {
        let mut opts: Vec<Option<usize>> = vec![None];
        opts.extend((0..=alg.native() + 2).map(Some));
        opts.push(Some(255));
        opts.push(Some(65536));
        for &mn in &opts {
            for &sg in &opts {
                cases.push((alg, mn, sg));
            }
        }
    }
    cases.par_iter().for_each(|&(alg, mn, sg)| {
        let mut l = Local::default();
        check_key_new(ctx, &mut l, alg, mn, sg);
        g.merge(l);
    });
}

fn check_key_new(ctx: &Ctx, l: &mut Local, alg: Alg, mn: Option<usize>, sg: Option<usize>) {
    l.evals += 1;
    l.transitions += 1;
    l.states += 1;
    let spec = KeySpec { alg, secret: SECRET.to_vec(), name: "k.example".into(), min: mn, sign: sg };
    let inb = |x: Option<usize>| x.map(|x| x >= alg.floor() && x <= alg.native()).unwrap_or(true);
    let want = inb(mn) && inb(sg);
    let replay = || json!({"kind": "key_new", "alg": alg.idx(), "min": mn, "sign": sg});
    match spec.lib() {
        Err(p) => report_panic(ctx, "key", "new", "bounds", &p, &replay),
        Ok(r) => {
            if verbose() {
                println!("  Key::new({alg:?}, min {mn:?}, sign {sg:?}): reference ok={want}, library {:?}", r.as_ref().map(|_| ()));
            }
            l.c(if r.is_ok() { "Key::new: ok" } else { "Key::new: refused" });
            if want {
                l.distinct.push(fnv(format!("key{alg:?}{mn:?}{sg:?}").as_bytes()));
            }
            if r.is_ok() != want {
                violate(ctx, 
                    &format!("C11|key|new|length-in-rfc-range={want}|observed ok={}", r.is_ok()),
                    &format!("Key::new({alg:?}, min_mac_len {mn:?}, signing_len {sg:?}) -> ok={}, RFC 8945 5.2.2.1 range [{}, {}]", r.is_ok(), alg.floor(), alg.native()),
                    &replay,
                );
            } else if let Ok(k) = r {
                if k.min_mac_len() != mn.unwrap_or(alg.native()) || k.signing_len() != sg.unwrap_or(alg.native()) || k.native_len() != alg.native() {
                    violate(ctx, "C11|key|new|lengths-not-as-configured", "Key reports other lengths than configured", &replay);
                }
            }
        }
    }
}

fn off(t: u64, o: i64) -> Option<u64> {
    let r = t as i64 + o;
    if r < 0 || r >= (1i64 << 48) {
        None
    } else {
        Some(r as u64)
    }
}

/// Honest exchanges: client request -> server verify -> server answer ->
/// client verify, at every clock offset, plus the error-response paths.
fn run_exchanges(ctx: &Arc<Ctx>, g: &Glob, wd: &Watchdog) {
    let quick = ctx.quick();
    let kvs = key_variants(quick, false);
    let mut jobs = Vec::new();
    for kv in &kvs {
        for rs in [0usize, 2, 3, 4] {
            if rs == 4 && !(kv.min.is_none() && kv.sign.is_none()) {
                continue;
            }
            for seq in [false, true] {
                jobs.push((kv.clone(), rs, seq));
            }
        }
    }
    jobs.par_iter().for_each(|(kv, rs, seq)| {
        wd.enter(|| json!({"kind": "job", "runner": "exchanges", "key": kv.json(), "shape": rs, "seq": seq}));
        let mut l = Local::default();
        exchange(ctx, &mut l, kv, *rs, *seq);
        g.merge(l);
        wd.leave();
    });
}

fn exchange(ctx: &Ctx, l: &mut Local, kv: &KeySpec, rs: usize, seq: bool) {
    let id = 0xA5C3u16;
    let rk = kv.refkey();
    let req_presign = shape(rs, false, id, 0, 1);
    let (cs, req) = match ClientScen::start(ctx, l, kv, seq, &req_presign, T0, 300) {
        Some(x) => x,
        None => return,
    };
    l.distinct.push(fnv(&req));
    g_sample(|| json!({"runner": "exchange", "key": kv.tag(), "request_shape": SHAPES[rs], "signed_request": hex(&req[..req.len().min(200)])}));
    // a second transaction whose answer is replayed into the first
    let other = ClientScen::start(ctx, l, kv, seq, &shape(rs, false, id, 0, 1), T0 + 7, 300);
    let resp_shapes: &[usize] = if rs == 4 { &[1, 4] } else { &[1, 2, 3] };
    for so in OFFSETS {
        let now_s = off(T0, so).unwrap();
        let mut first = true;
        for &ps in resp_shapes {
            let presign = shape(ps, true, id, 0, 3);
            let ssc = ServerScen::new(vec![kv.clone()], false, seq, now_s, presign.clone(), first);
            let out = eval_server(ctx, l, &ssc, &req, "honest", true);
            first = false;
            if let Some(ans) = &out.answer {
                l.distinct.push(fnv(ans));
                for co in OFFSETS {
                    cs.probe(ctx, l, ans, off(now_s + 1, co).unwrap(), "honest");
                }
                // the same answer made by the reference signer
                if let Some((_, reqmac)) = &out.acc {
                    let (ra, _) = ref_sign(&rk, &mac_prefix(reqmac), &presign, false, now_s + 1, 300, 0, &[]);
                    l.c(if &ra == ans { "library answer == reference answer, octet for octet" } else { "library answer differs in encoding from reference answer" });
                    cs.probe(ctx, l, &ra, now_s + 1, "reference-signed");
                }
            }
            if let Some(er) = &out.err_response {
                cs.probe(ctx, l, er, now_s, "library-error-response");
            }
            if out.got == Cls::BadTime && ps == resp_shapes[0] {
                // RFC 8945 5.2.3 BADTIME response made by the reference signer
                if let Locate::Found(rt) = ref_locate(&req) {
                    let ep = shape(0, true, id, 9, 0);
                    let (eb, _) = ref_sign(&rk, &mac_prefix(&rt.mac), &ep, false, rt.time, rt.fudge, 18, &time48(now_s));
                    cs.probe(ctx, l, &eb, now_s, "reference-signed-BADTIME-response");
                }
            }
        }
    }
    // replay of another transaction's answer
    if let Some((_ocs, oreq)) = other {
        let presign = shape(1, true, id, 0, 3);
        let ssc = ServerScen::new(vec![kv.clone()], false, seq, T0 + 7, presign, false);
        let out = eval_server(ctx, l, &ssc, &oreq, "honest", true);
        if let Some(ans) = &out.answer {
            cs.probe(ctx, l, ans, T0 + 8, "answer-of-another-transaction-replayed");
        }
    }
}

static SAMPLES: std::sync::Mutex<Vec<Value>> = std::sync::Mutex::new(Vec::new());
fn g_sample(f: impl FnOnce() -> Value) {
    let mut s = SAMPLES.lock().unwrap();
    if s.len() < 64 {
        let v = f();
        // at most four samples per runner
        if s.iter().filter(|x| x["runner"] == v["runner"]).count() < 4 {
            s.push(v);
        }
    }
}

/// Fudge / clock sweep with explicit fudge values and extreme times.
fn run_timesweep(ctx: &Arc<Ctx>, g: &Glob) {
    let mut jobs = Vec::new();
    for alg in ALGS {
        for fudge in [0u16, 1, 300, 65535] {
            for tb in [200u64, T0, 0x0123_4567_89AB, (1u64 << 48) - 1 - 70000] {
                jobs.push((alg, fudge, tb));
            }
        }
    }
    jobs.par_iter().for_each(|&(alg, fudge, tb)| {
        let mut l = Local::default();
        timesweep(ctx, &mut l, alg, fudge, tb);
        g.merge(l);
    });
}

fn timesweep(ctx: &Ctx, l: &mut Local, alg: Alg, fudge: u16, tb: u64) {
    let kv = KeySpec { alg, secret: SECRET.to_vec(), name: "tsig-key.example".into(), min: None, sign: None };
    let rk = kv.refkey();
    let id = 0x0102;
    let req_presign = shape(0, false, id, 0, 5);
    let (cs, req) = match ClientScen::start(ctx, l, &kv, false, &req_presign, tb, fudge) {
        Some(x) => x,
        None => return,
    };
    let f = fudge as i64;
    for so in [-f - 1, -f, 0, f, f + 1] {
        let now_s = match off(tb, so) {
            Some(x) => x,
            None => continue,
        };
        let ssc = ServerScen::new(vec![kv.clone()], false, false, now_s, Vec::new(), true);
        let out = eval_server(ctx, l, &ssc, &req, "honest-timesweep", false);
        l.distinct.push(fnv(format!("ts{alg:?}{fudge}{tb}{so}").as_bytes()));
        if let (Some(tx), Some((_, reqmac))) = (out.tx, out.acc) {
            let presign = shape(1, true, id, 0, 6);
            let mut b = builder_from(&presign);
            l.transitions += 1;
            l.states += 1;
            let replay = || json!({"kind": "timesweep", "alg": alg.idx(), "fudge": fudge, "tb": tb});
            match guard(|| tx.answer_with_fudge(&mut b, Time48::from_u64(now_s), fudge).map_err(|e| format!("{e:?}"))) {
                Err(p) => report_panic(ctx, "server", "answer_with_fudge", "", &p, &replay),
                Ok(Err(e)) => {
                    violate(ctx, "C11|server|answer|push-error", &e, &replay);
                }
                Ok(Ok(())) => {
                    let signed = b.as_slice().to_vec();
                    if check_signed_by_lib(ctx, "server", "answer_with_fudge", &rk, &mac_prefix(&reqmac), None, &presign, &signed, false, now_s, fudge, &replay).is_some() {
                        for co in [-f - 1, -f, 0, f, f + 1] {
                            if let Some(now_c) = off(now_s, co) {
                                cs.probe(ctx, l, &signed, now_c, "honest-timesweep");
                            }
                        }
                    }
                }
            }
        }
    }
}

/// Library ServerSequence signing `count` answers; every MAC against the
/// reference; every answer into the library ClientSequence.
fn server_sequence(ctx: &Ctx, l: &mut Local, kv: &KeySpec, count: usize, from_tx: bool, shapes_mask: u32) {
    let id = 0x7777u16;
    let rk = kv.refkey();
    let req_presign = shape(0, false, id, 0, 9);
    let replay = || json!({"kind": "server_seq", "key": kv.json(), "count": count, "from_tx": from_tx, "shapes_mask": shapes_mask});
    let (mut cs, req) = match ClientScen::start(ctx, l, kv, true, &req_presign, T0, 300) {
        Some(x) => x,
        None => return,
    };
    let ssc = ServerScen::new(vec![kv.clone()], false, !from_tx, T0, Vec::new(), false);
    let out = eval_server(ctx, l, &ssc, &req, "honest", false);
    let mut sq: ServerSequence<K> = match (out.tx, out.sq) {
        (Some(tx), _) => tx.into(),
        (_, Some(sq)) => sq,
        _ => return,
    };
    let (_, reqmac) = match out.acc {
        Some(a) => a,
        None => return,
    };
    let mut prior_wire = reqmac.clone();
    let mut prior_full = reqmac;
    for i in 0..count {
        let ps = if shapes_mask >> i & 1 == 1 { 2 } else { 1 };
        let presign = shape(ps, true, id, 0, i as u8);
        let now = T0 + 1 + i as u64;
        let mut b = builder_from(&presign);
        l.evals += 1;
        l.transitions += 1;
        l.states += 1;
        match guard(|| sq.answer(&mut b, Time48::from_u64(now)).map_err(|e| format!("{e:?}"))) {
            Err(p) => {
                report_panic(ctx, "server-sequence", "answer", "", &p, &replay);
                return;
            }
            Ok(Err(e)) => {
                violate(ctx, "C11|server-sequence|answer|push-error", &e, &replay);
                return;
            }
            Ok(Ok(())) => {}
        }
        let signed = b.as_slice().to_vec();
        let op = if i == 0 { "answer-first" } else { "answer-subsequent" };
        let alt = mac_prefix(&prior_full);
        let mac = check_signed_by_lib(ctx, "server-sequence", op, &rk, &mac_prefix(&prior_wire), Some(&alt), &presign, &signed, i > 0, now, 300, &replay);
        let mac = match mac {
            Some(m) => m,
            None => {
                l.c("server-sequence: closed after MAC mismatch");
                return; // tainted: do not explore through it
            }
        };
        l.c("server-sequence MAC equals reference");
        l.distinct.push(fnv(&signed));
        // full (untruncated) MAC of this message, for cause classification of the next
        let vars = if i > 0 { ref_timers(now, 300) } else { ref_variables(&rk, now, 300, 0, &[]) };
        prior_full = rk.full_mac(&[&mac_prefix(&prior_wire), &presign, &vars]);
        prior_wire = mac;
        let (_, same) = cs.step(ctx, l, &signed, now, "honest-library-server-sequence");
        if !same {
            return;
        }
        cs.check_done(ctx, l);
    }
}

fn run_server_sequences(ctx: &Arc<Ctx>, g: &Glob) {
    let quick = ctx.quick();
    let maxn = if quick { 4 } else { 8 };
    let mut jobs = Vec::new();
    for kv in key_variants(quick, false) {
        for n in 1..=maxn {
            for mask in 0..(1u32 << n.min(if quick { 3 } else { 5 })) {
                jobs.push((kv.clone(), n, false, mask));
            }
        }
        jobs.push((kv.clone(), 3, true, 0b010));
    }
    jobs.par_iter().for_each(|(kv, n, from_tx, mask)| {
        let mut l = Local::default();
        server_sequence(ctx, &mut l, kv, *n, *from_tx, *mask);
        g.merge(l);
    });
}

/// Build the next message an honest RFC 8945 server (the reference signer)
/// would send for symbol `sym`, given the verifier-side reference state.
fn seq_message(sym: u8, st: &ClientScen, rk: &RefKey, depth: usize, now: u64, last_signed: &Option<Vec<u8>>) -> Option<Vec<u8>> {
    seq_message_rc(sym, &st.rc, get16(&st.req_presign, 0), rk, depth, now, 301, last_signed)
}

/// The same, from the verifier-side reference state alone. `late` is how far
/// before `now` the symbol T signs (301 = first second outside the window).
fn seq_message_rc(sym: u8, rc: &RefClient, id: u16, rk: &RefKey, depth: usize, now: u64, late: u64, last_signed: &Option<Vec<u8>>) -> Option<Vec<u8>> {
    let presign = shape(1 + depth % 2, true, id, 0, depth as u8);
    let mut prefix = mac_prefix(&rc.prior);
    prefix.extend_from_slice(&rc.pending);
    let timers = rc.seq && !rc.first;
    Some(match sym {
        b'S' => ref_sign(rk, &prefix, &presign, timers, now, 300, 0, &[]).0,
        b'U' => presign,
        b'R' => last_signed.clone()?,
        b'B' => {
            let mut m = ref_sign(rk, &prefix, &presign, timers, now, 300, 0, &[]).0;
            if let Locate::Found(t) = ref_locate(&m) {
                // MAC is followed by original id(2) error(2) other len(2)
                let p = m.len() - 6 - t.other.len() - 1;
                m[p] ^= 0x80;
            }
            m
        }
        b'T' => ref_sign(rk, &prefix, &presign, timers, now - late, 300, 0, &[]).0,
        b'W' => {
            let mut w = rk.clone();
            w.hk = hmac::Key::new(rk.alg.ring(), b"not the shared secret");
            ref_sign(&w, &prefix, &presign, timers, now, 300, 0, &[]).0
        }
        _ => return None,
    })
}

fn explore_seq(ctx: &Ctx, l: &mut Local, st: &ClientScen, rk: &RefKey, alphabet: &[u8], depth: usize, max: usize, last_signed: &Option<Vec<u8>>, path: &mut String) {
    st.check_done(ctx, l);
    if depth == max {
        return;
    }
    for &sym in alphabet {
        let now = T0 + 10 + depth as u64;
        let msg = match seq_message(sym, st, rk, depth, now, last_signed) {
            Some(m) => m,
            None => continue,
        };
        path.push(sym as char);
        let mut child = st.clone();
        let (got, same) = child.step(ctx, l, &msg, now, path);
        l.distinct.push(fnv(format!("seq{}{}", st.key.tag(), path).as_bytes()));
        if path.len() <= 4 {
            g_sample_seq(path, got);
        }
        if same && got == Cls::Accept {
            let ls = if sym == b'S' { Some(msg) } else { last_signed.clone() };
            explore_seq(ctx, l, &child, rk, alphabet, depth + 1, max, &ls, path);
        }
        path.pop();
    }
}

fn g_sample_seq(path: &str, got: Cls) {
    if path == "SUS" || path == "SR" || path == "U" || path == "SUB" {
        g_sample(|| json!({"runner": "client-sequence", "pattern": path, "library_verdict_for_last_message": format!("{got:?}")}));
    }
}

fn run_client_sequences(ctx: &Arc<Ctx>, g: &Glob, wd: &Watchdog) {
    let quick = ctx.quick();
    let kvs = key_variants(quick, false);
    // (alphabet, depth)
    let plans: Vec<(&[u8], usize)> = if quick { vec![(b"SU", 6), (b"SURBTW", 3)] } else { vec![(b"SU", 8), (b"SURBTW", 5)] };
    let mut jobs = Vec::new();
    for kv in &kvs {
        for (pi, _) in plans.iter().enumerate() {
            jobs.push((kv.clone(), pi));
        }
    }
    jobs.par_iter().for_each(|(kv, pi)| {
        wd.enter(|| json!({"kind": "job", "runner": "client-sequences", "key": kv.json(), "plan": pi}));
        let mut l = Local::default();
        let (alpha, depth) = plans[*pi];
        if let Some((cs, _req)) = ClientScen::start(ctx, &mut l, kv, true, &shape(0, false, 0x4242, 0, 0), T0 + 9, 300) {
            let mut path = String::new();
            explore_seq(ctx, &mut l, &cs, &kv.refkey(), alpha, 0, depth, &None, &mut path);
        }
        g.merge(l);
        wd.leave();
    });
    // S U^k S for k = 0..=101
    let chain_kvs: Vec<KeySpec> = kvs.iter().filter(|k| k.name.starts_with('t') && (quick && k.min.is_none() && k.sign.is_none() || !quick && k.min == k.sign)).cloned().collect();
    chain_kvs.par_iter().for_each(|kv| {
        let mut l = Local::default();
        unsigned_chain(ctx, &mut l, kv);
        g.merge(l);
    });
}

fn unsigned_chain(ctx: &Ctx, l: &mut Local, kv: &KeySpec) {
    let rk = kv.refkey();
    let (mut cs, _req) = match ClientScen::start(ctx, l, kv, true, &shape(0, false, 0x5151, 0, 0), T0, 300) {
        Some(x) => x,
        None => return,
    };
    let mut path = String::from("S");
    let m = seq_message(b'S', &cs, &rk, 0, T0 + 1, &None).unwrap();
    let (_, same) = cs.step(ctx, l, &m, T0 + 1, &path);
    if !same {
        return;
    }
    let mut rejected = false;
    for k in 0..=101usize {
        // branch: S after U^k
        if !rejected {
            let mut b = cs.clone();
            let m = seq_message(b'S', &b, &rk, k + 1, T0 + 2 + k as u64, &None).unwrap();
            let (got, same) = b.step(ctx, l, &m, T0 + 2 + k as u64, &format!("S U^{k} S"));
            l.c(&format!("S U^k S final verdict: {got:?}"));
            if same {
                b.check_done(ctx, l);
            }
        }
        if k == 101 {
            break;
        }
        path.push('U');
        let m = seq_message(b'U', &cs, &rk, k + 1, T0 + 2 + k as u64, &None).unwrap();
        let (got, same) = cs.step(ctx, l, &m, T0 + 2 + k as u64, &format!("S U^{}", k + 1));
        l.distinct.push(fnv(format!("chain{}{}", kv.tag(), k).as_bytes()));
        l.c(&format!("unsigned #{:03}..: {got:?}", (k + 1) / 50 * 50));
        if (k + 1 == 99 || k + 1 == 100) && kv.alg == Alg::Sha256 && kv.min.is_none() {
            g_sample(|| json!({"runner": "unsigned-chain", "key": kv.tag(), "unsigned_message_number": k + 1, "library_verdict": format!("{got:?}")}));
        }
        if !same {
            return;
        }
        if got != Cls::Accept {
            rejected = true;
        }
        cs.check_done(ctx, l);
    }
}

enum MutTarget {
    Server(ServerScen),
    Client(ClientScen, u64),
}

struct MutScen {
    tag: String,
    base: Vec<u8>,
    target: MutTarget,
    structural: Vec<(String, Vec<u8>)>,
    bits: bool,
    post: bool,
}

impl MutScen {
    fn eval(&self, ctx: &Ctx, l: &mut Local, msg: &[u8], name: &str) {
        match &self.target {
            MutTarget::Server(s) => {
                eval_server(ctx, l, s, msg, name, self.post);
            }
            MutTarget::Client(c, now) => {
                c.probe(ctx, l, msg, *now, name);
            }
        }
    }
}

fn other_keys(kv: &KeySpec) -> Vec<KeySpec> {
    let mut v = vec![kv.clone()];
    for a in ALGS {
        if a != kv.alg {
            v.push(KeySpec { alg: a, secret: b"secret of the same name, other algorithm".to_vec(), name: kv.name.clone(), min: None, sign: None });
        }
    }
    v.push(KeySpec { alg: kv.alg, secret: b"secret of the other key".to_vec(), name: "other-key.example".into(), min: None, sign: None });
    v
}

fn build_mut_scens(ctx: &Ctx, l: &mut Local, kv: &KeySpec, with_big: bool) -> Vec<MutScen> {
    let mut v = Vec::new();
    let rk = kv.refkey();
    let id = 0x3C3Cu16;
    let now_s = T0 + 5;
    let req_shapes: Vec<usize> = if with_big { vec![0, 2, 3, 4] } else { vec![0, 2, 3] };
    for &rs in &req_shapes {
        let small = rs != 4;
        let (cs_tx, req) = match ClientScen::start(ctx, l, kv, false, &shape(rs, false, id, 0, 1), T0, 300) {
            Some(x) => x,
            None => continue,
        };
        let ans_presign = shape(if small { 1 } else { 4 }, true, id, 0, 2);
        let ssc = ServerScen::new(vec![kv.clone()], false, false, now_s, ans_presign.clone(), small);
        let out = eval_server(ctx, l, &ssc, &req, "mutation-base", true);
        if out.got != Cls::Accept || out.acc.is_none() {
            l.c(if out.got == Cls::BadTrunc {
                "mutation base skipped: key signs shorter than it accepts (honest request is BADTRUNC for library and reference alike)"
            } else {
                "mutation base skipped: server does not accept the honest request as the reference does"
            });
            continue;
        }
        let st = structural(&req, &rk, &[], false, now_s);
        v.push(MutScen { tag: format!("server/{}/{}", kv.tag(), SHAPES[rs]), base: req.clone(), target: MutTarget::Server(ssc), structural: st.clone(), bits: true, post: small });
        if small {
            let keys = other_keys(kv);
            for (multi, seq) in [(true, false), (true, true), (false, true)] {
                let ks = if multi { keys.clone() } else { vec![kv.clone()] };
                let s2 = ServerScen::new(ks, multi, seq, now_s, ans_presign.clone(), true);
                v.push(MutScen { tag: format!("server-multi={multi}-seq={seq}/{}/{}", kv.tag(), SHAPES[rs]), base: req.clone(), target: MutTarget::Server(s2), structural: st.clone(), bits: false, post: true });
            }
        }
        // responses to this request, verified by the client machines
        let reqmac = out.acc.as_ref().unwrap().1.clone();
        let resp_shapes: Vec<usize> = if small { vec![1, 2] } else { vec![4] };
        if rs == 2 {
            continue; // responses are enumerated for request shapes query/full/big
        }
        for &ps in &resp_shapes {
            let presign = shape(ps, true, id, 0, 2);
            let ssc = ServerScen::new(vec![kv.clone()], false, false, now_s, presign.clone(), false);
            let out = eval_server(ctx, l, &ssc, &req, "mutation-base", true);
            let resp = match out.answer {
                Some(a) => a,
                None => {
                    l.c("mutation base: library answer unusable, reference-signed answer used");
                    ref_sign(&rk, &mac_prefix(&reqmac), &presign, false, now_s + 1, 300, 0, &[]).0
                }
            };
            let now_c = now_s + 1;
            for seq in [false, true] {
                let cs = if seq {
                    match ClientScen::start(ctx, l, kv, true, &shape(rs, false, id, 0, 1), T0, 300) {
                        Some((c, r2)) if r2 == req => c,
                        _ => continue,
                    }
                } else {
                    cs_tx.clone()
                };
                let (got, same) = cs.probe(ctx, l, &resp, now_c, "mutation-base");
                if !(same && got == Cls::Accept) {
                    l.c("mutation base skipped: client does not accept the honest answer as the reference does");
                    continue;
                }
                let st = structural(&resp, &rk, &mac_prefix(&cs.rc.prior), false, now_c);
                v.push(MutScen { tag: format!("client-seq={seq}/{}/{}", kv.tag(), SHAPES[ps]), base: resp.clone(), target: MutTarget::Client(cs.clone(), now_c), structural: st, bits: !seq || small, post: false });
                if seq && small && ps == 1 {
                    // subsequent messages: after S, and after S U
                    let mut c1 = cs.clone();
                    let (_, same) = c1.step(ctx, l, &resp, now_c, "S");
                    if !same {
                        continue;
                    }
                    for with_unsigned in [false, true] {
                        let mut c2 = c1.clone();
                        if with_unsigned {
                            let u = seq_message(b'U', &c2, &rk, 1, now_c + 1, &None).unwrap();
                            let (_, same) = c2.step(ctx, l, &u, now_c + 1, "SU");
                            if !same {
                                continue;
                            }
                        }
                        let base = seq_message(b'S', &c2, &rk, 2, now_c + 2, &None).unwrap();
                        let (got, same) = c2.probe(ctx, l, &base, now_c + 2, "mutation-base");
                        if !(same && got == Cls::Accept) {
                            l.c("mutation base skipped: client sequence does not accept the honest subsequent answer");
                            continue;
                        }
                        let mut prefix = mac_prefix(&c2.rc.prior);
                        prefix.extend_from_slice(&c2.rc.pending);
                        let st = structural(&base, &rk, &prefix, true, now_c + 2);
                        v.push(MutScen { tag: format!("client-seq-subsequent(unsigned-before={with_unsigned})/{}", kv.tag()), base, target: MutTarget::Client(c2, now_c + 2), structural: st, bits: true, post: false });
                    }
                }
            }
        }
        // signed BADTIME error response (RFC 8945 5.2.3), made by the reference
        if rs == 0 {
            if let Locate::Found(rt) = ref_locate(&req) {
                let late = T0 + 1000;
                let ep = shape(0, true, id, 9, 0);
                let (eb, _) = ref_sign(&rk, &mac_prefix(&rt.mac), &ep, false, rt.time, rt.fudge, 18, &time48(late));
                let (got, same) = cs_tx.probe(ctx, l, &eb, late, "mutation-base-BADTIME");
                if same && got == Cls::SrvBadTime {
                    let st = structural(&eb, &rk, &mac_prefix(&rt.mac), false, late);
                    v.push(MutScen { tag: format!("client-badtime-response/{}", kv.tag()), base: eb, target: MutTarget::Client(cs_tx.clone(), late), structural: st, bits: true, post: false });
                } else {
                    l.c("mutation base skipped: BADTIME response of the reference signer not recognised by the client (known digest defect closes this branch)");
                }
            }
        }
    }
    v
}

const CHUNK_BITS: usize = 2048;

fn run_mutations(ctx: &Arc<Ctx>, g: &Glob, wd: &Watchdog) -> Value {
    let quick = ctx.quick();
    let kvs = key_variants(quick, true);
    let scens: Vec<MutScen> = kvs
        .par_iter()
        .flat_map_iter(|kv| {
            let mut l = Local::default();
            let with_big = !quick && kv.min.is_none() && kv.sign.is_none() && kv.name.starts_with('t');
            let v = build_mut_scens(ctx, &mut l, kv, with_big);
            g.merge(l);
            v.into_iter()
        })
        .collect();
    let mut jobs: Vec<(usize, usize, usize)> = Vec::new(); // (scenario, first bit, end bit); (s, MAX, MAX) = structural
    let mut nbits = 0u64;
    let mut nstruct = 0u64;
    for (i, s) in scens.iter().enumerate() {
        jobs.push((i, usize::MAX, usize::MAX));
        nstruct += s.structural.len() as u64;
        if s.bits {
            let total = s.base.len() * 8;
            nbits += total as u64;
            let mut b = 0;
            while b < total {
                jobs.push((i, b, (b + CHUNK_BITS).min(total)));
                b += CHUNK_BITS;
            }
        }
    }
    if let Some(s) = scens.iter().find(|s| s.tag.starts_with("server/")) {
        g_sample(|| json!({"runner": "mutations", "scenario": s.tag, "base_message": hex(&s.base[..s.base.len().min(300)]),
                           "mutations": format!("every bit 0..{} and {} structural", s.base.len() * 8, s.structural.len()),
                           "structural_names": s.structural.iter().map(|x| x.0.clone()).filter(|n| !n.starts_with("mac-length")).collect::<Vec<_>>()}));
    }
    jobs.par_iter().for_each(|&(si, from, to)| {
        let s = &scens[si];
        wd.enter(|| json!({"kind": "job", "runner": "mutations", "scenario": s.tag, "bits": [from, to]}));
        let mut l = Local::default();
        let sh = fnv(s.tag.as_bytes());
        if from == usize::MAX {
            for (name, msg) in &s.structural {
                s.eval(ctx, &mut l, msg, name);
                l.distinct.push(sh ^ fnv(name.as_bytes()));
            }
        } else {
            let mut m = s.base.clone();
            for bit in from..to {
                m[bit / 8] ^= 0x80 >> (bit % 8);
                let name = if verbose() { format!("bit-{bit}") } else { String::new() };
                s.eval(ctx, &mut l, &m, if verbose() { &name } else { "single-bit-flip" });
                m[bit / 8] ^= 0x80 >> (bit % 8);
                l.distinct.push(sh ^ (bit as u64).wrapping_mul(0x9E3779B97F4A7C15));
            }
        }
        g.merge(l);
        wd.leave();
    });
    json!({"scenarios": scens.len(), "bit_flips": nbits, "structural_mutations": nstruct,
           "largest_message": scens.iter().map(|s| s.base.len()).max().unwrap_or(0)})
}

// =====================================================================
// THE TRANSPORT WRAPPERS
//   net::client::tsig::Connection   (signs requests, verifies answers)
//   net::server::middleware::tsig::TsigMiddlewareSvc
// Both read the wall clock (Time48::now()); the harness therefore signs
// relative to the real time and stays >= 100 s away from the fudge edges
// (the exact edges are decided at the state machines above).
// =====================================================================

fn real_now() -> u64 {
    std::time::SystemTime::now().duration_since(std::time::UNIX_EPOCH).unwrap().as_secs()
}

#[derive(Clone, Debug, PartialEq)]
enum Step {
    /// S, U, R(eplay), B(ad MAC), T(ime outside), W(rong secret)
    Sym(u8),
    /// honest answer signed `o` seconds away from the real time
    TimeOff(i64),
    /// i-th structural mutation of the honest answer
    Structural(usize),
    /// i-th bit of the honest answer flipped
    Bit(usize),
}

impl Step {
    fn json(&self) -> Value {
        match self {
            Step::Sym(c) => json!({"sym": (*c as char).to_string()}),
            Step::TimeOff(o) => json!({"timeoff": o}),
            Step::Structural(i) => json!({"structural": i}),
            Step::Bit(i) => json!({"bit": i}),
        }
    }
    fn from_json(v: &Value) -> Step {
        if let Some(s) = v["sym"].as_str() {
            Step::Sym(s.as_bytes()[0])
        } else if let Some(o) = v["timeoff"].as_i64() {
            Step::TimeOff(o)
        } else if let Some(i) = v["structural"].as_u64() {
            Step::Structural(i as usize)
        } else {
            Step::Bit(v["bit"].as_u64().unwrap() as usize)
        }
    }
}

/// Structural mutations usable under a moving clock, and not re-reporting the
/// recorded other-data finding through a second door.
fn structural_for_transports(m: &[u8], key: &RefKey, prefix: &[u8], timers_only: bool, now: u64) -> Vec<(String, Vec<u8>)> {
    structural(m, key, prefix, timers_only, now)
        .into_iter()
        .filter(|(n, _)| !n.starts_with("resigned-time=") && !n.starts_with("other-data-"))
        .collect()
}

/// The honest answer at position `depth` of the peer's stream.
fn honest_answer(rk: &RefKey, rc: &RefClient, id: u16, depth: usize, at: u64) -> (Vec<u8>, Vec<u8>) {
    let presign = shape(1 + depth % 2, true, id, 0, depth as u8);
    let mut prefix = mac_prefix(&rc.prior);
    prefix.extend_from_slice(&rc.pending);
    (ref_sign(rk, &prefix, &presign, rc.seq && !rc.first, at, 300, 0, &[]).0, prefix)
}

/// Size of the mutation menus for the answer at `depth`; computed from the
/// reference alone so that the enumeration never depends on the subject.
fn answer_menu_sizes(rk: &RefKey, seq: bool, depth: usize) -> (usize, usize) {
    let mut rc = RefClient::new(rk, seq, &vec![0u8; rk.sign]);
    rc.first = depth == 0;
    let (h, prefix) = honest_answer(rk, &rc, 0x6A6A, depth, T0);
    (structural_for_transports(&h, rk, &prefix, seq && depth > 0, T0).len(), h.len() * 8)
}

/// State shared between the mock upstream (inside the library call) and the
/// harness (outside).
struct UpShared {
    rk: RefKey,
    seq: bool,
    mode: u8,
    modify: u8,
    script: Vec<Step>,
    /// further compositions of the request by the upstream, and which of all
    /// compositions the peer answers (None: the last one)
    recompose: Vec<Recomp>,
    reply_to: Option<usize>,
    pos: usize,
    /// the request as composed last (what an honest peer answers)
    signed_request: Option<Vec<u8>>,
    /// every composition in order
    composed: Vec<Vec<u8>>,
    /// the peer's view: it answers composition `reply_to`
    peer_rc: Option<RefClient>,
    peer_id: u16,
    compose_err: Option<String>,
    /// what the wrapper's pass-through accessors said after `modify`
    accessors: Option<(u16, bool)>,
    is_answer: Option<bool>,
    rc: Option<RefClient>,
    last_signed: Option<Vec<u8>>,
    produced: Vec<(String, Vec<u8>)>,
    exhausted: bool,
}

impl UpShared {
    /// All compositions the upstream made. The client under test must hold
    /// the state of the LAST composition (those are the octets on the wire
    /// last); the peer answers composition `reply_to`.
    fn set_requests(&mut self, all: Vec<Vec<u8>>) {
        let last = all.len() - 1;
        if let Locate::Found(t) = ref_locate(&all[last]) {
            self.rc = Some(RefClient::new(&self.rk, self.seq, &t.mac));
        }
        let r = self.reply_to.unwrap_or(last).min(last);
        if let Locate::Found(t) = ref_locate(&all[r]) {
            self.peer_rc = Some(RefClient::new(&self.rk, self.seq, &t.mac));
        }
        self.peer_id = get16(&all[r], 0);
        self.signed_request = Some(all[last].clone());
        self.composed = all;
    }

    /// The next message of the scripted peer, None at the end of the stream.
    fn next_message(&mut self) -> Option<Vec<u8>> {
        let step = self.script.get(self.pos)?.clone();
        let depth = self.pos;
        self.pos += 1;
        // the first answer comes from the peer's view of the request; once it
        // has been accepted the two views coincide
        let rc = if depth == 0 { self.rc.as_ref()?; self.peer_rc.clone()? } else { self.rc.clone()? };
        self.signed_request.as_ref()?;
        let id = self.peer_id;
        let now = real_now();
        let honest = |rk: &RefKey, at: u64| honest_answer(rk, &rc, id, depth, at);
        let (name, msg) = match step {
            Step::Sym(c) => {
                let m = seq_message_rc(c, &rc, id, &self.rk, depth, now, 400, &self.last_signed)?;
                if c == b'S' {
                    self.last_signed = Some(m.clone());
                }
                (format!("{}", c as char), m)
            }
            Step::TimeOff(o) => (format!("signed at now{o:+}"), honest(&self.rk, (now as i64 + o) as u64).0),
            Step::Structural(i) => {
                let (h, prefix) = honest(&self.rk, now);
                let mut list = structural_for_transports(&h, &self.rk, &prefix, rc.seq && !rc.first, now);
                if i >= list.len() {
                    self.exhausted = true;
                    ("honest".into(), h)
                } else {
                    list.swap_remove(i)
                }
            }
            Step::Bit(i) => {
                let (mut h, _) = honest(&self.rk, now);
                if i >= h.len() * 8 {
                    self.exhausted = true;
                    ("honest".into(), h)
                } else {
                    h[i / 8] ^= 0x80 >> (i % 8);
                    (format!("bit-{i}"), h)
                }
            }
        };
        self.produced.push((name, msg.clone()));
        Some(msg)
    }
}

fn modify_single<CR: ComposeRequest>(r: &mut CR, modify: u8) {
    match modify {
        1 => r.header_mut().set_id(0xBEEF),
        2 => {
            r.set_udp_payload_size(1232);
            r.set_dnssec_ok(true);
        }
        3 => {
            let _ = r.add_opt(&TcpKeepalive::new(None));
            r.header_mut().set_id(0x0102);
        }
        _ => {}
    }
}
fn modify_multi<CR: ComposeRequestMulti>(r: &mut CR, modify: u8) {
    match modify {
        1 => r.header_mut().set_id(0xBEEF),
        2 => {
            r.set_udp_payload_size(1232);
            r.set_dnssec_ok(true);
        }
        3 => {
            let _ = r.add_opt(&TcpKeepalive::new(None));
            r.header_mut().set_id(0x0102);
        }
        _ => {}
    }
}
/// The ways a transport obtains the octets to send.
fn compose_single<CR: ComposeRequest>(r: &CR, mode: u8) -> Result<Vec<u8>, String> {
    match mode {
        0 => r.to_message().map(|m| m.as_slice().to_vec()).map_err(|e| format!("{e:?}")),
        1 => r.to_vec().map_err(|e| format!("{e:?}")),
        _ => r.append_message(Vec::new()).map(|b| b.as_slice().to_vec()).map_err(|e| format!("{e:?}")),
    }
}
fn compose_multi<CR: ComposeRequestMulti>(r: &CR, mode: u8) -> Result<Vec<u8>, String> {
    match mode {
        0 => r.to_message().map(|m| m.as_slice().to_vec()).map_err(|e| format!("{e:?}")),
        1 => r.append_message(StaticCompressor::new(Vec::new())).map(|b| b.as_slice().to_vec()).map_err(|e| format!("{e:?}")),
        _ => r.append_message(Vec::new()).map(|b| b.as_slice().to_vec()).map_err(|e| format!("{e:?}")),
    }
}

/// One further composition of the request by the upstream transport (the
/// datagram transport composes again for every retry after picking a new ID,
/// the stream transport composes once to look at the question and once to
/// send, the multi-connection transports hand a clone to every attempt).
#[derive(Clone, Debug, PartialEq)]
struct Recomp {
    /// header ID set before composing; None: header unchanged
    id: Option<u16>,
    mode: u8,
    /// composed on a clone of the request which is dropped afterwards
    on_clone: bool,
}
impl Recomp {
    fn json(&self) -> Value {
        json!({"id": self.id, "mode": self.mode, "on_clone": self.on_clone})
    }
    fn from_json(v: &Value) -> Recomp {
        Recomp { id: v["id"].as_u64().map(|x| x as u16), mode: v["mode"].as_u64().unwrap() as u8, on_clone: v["on_clone"].as_bool().unwrap() }
    }
}

/// Everything an upstream does to a request before the answer arrives: the
/// modification, the first composition and every further one. Generic, so
/// that the wrapped request and its unsigned twin go through the same steps.
fn plan_single<CR: ComposeRequest + Clone>(r: &mut CR, modify: u8, mode: u8, more: &[Recomp]) -> Result<Vec<Vec<u8>>, String> {
    modify_single(r, modify);
    let mut out = vec![compose_single(r, mode)?];
    for rc in more {
        if rc.on_clone {
            let mut c = r.clone();
            if let Some(id) = rc.id {
                c.header_mut().set_id(id);
            }
            out.push(compose_single(&c, rc.mode)?);
        } else {
            if let Some(id) = rc.id {
                r.header_mut().set_id(id);
            }
            out.push(compose_single(r, rc.mode)?);
        }
    }
    Ok(out)
}
fn plan_multi<CR: ComposeRequestMulti + Clone>(r: &mut CR, modify: u8, mode: u8, more: &[Recomp]) -> Result<Vec<Vec<u8>>, String> {
    modify_multi(r, modify);
    let mut out = vec![compose_multi(r, mode)?];
    for rc in more {
        if rc.on_clone {
            let mut c = r.clone();
            if let Some(id) = rc.id {
                c.header_mut().set_id(id);
            }
            out.push(compose_multi(&c, rc.mode)?);
        } else {
            if let Some(id) = rc.id {
                r.header_mut().set_id(id);
            }
            out.push(compose_multi(r, rc.mode)?);
        }
    }
    Ok(out)
}

#[derive(Clone)]
struct MockUp(Arc<Mutex<UpShared>>);

struct MockGet<CR> {
    req: CR,
    sh: Arc<Mutex<UpShared>>,
}
impl<CR> std::fmt::Debug for MockGet<CR> {
    fn fmt(&self, f: &mut std::fmt::Formatter<'_>) -> std::fmt::Result {
        f.write_str("MockGet")
    }
}
struct MockGetMulti<CR> {
    req: CR,
    sh: Arc<Mutex<UpShared>>,
}
impl<CR> std::fmt::Debug for MockGetMulti<CR> {
    fn fmt(&self, f: &mut std::fmt::Formatter<'_>) -> std::fmt::Result {
        f.write_str("MockGetMulti")
    }
}

impl<CR: ComposeRequest + Clone + 'static> SendRequest<CR> for MockUp {
    fn send_request(&self, request_msg: CR) -> Box<dyn GetResponse + Send + Sync> {
        Box::new(MockGet { req: request_msg, sh: self.0.clone() })
    }
}
impl<CR: ComposeRequestMulti + Clone + 'static> SendRequestMulti<CR> for MockUp {
    fn send_request(&self, request_msg: CR) -> Box<dyn GetResponseMulti + Send + Sync> {
        Box::new(MockGetMulti { req: request_msg, sh: self.0.clone() })
    }
}

impl<CR: ComposeRequest + Clone> GetResponse for MockGet<CR> {
    fn get_response(&mut self) -> Pin<Box<dyn Future<Output = Result<Message<Bytes>, ClientError>> + Send + Sync + '_>> {
        let mut sh = self.sh.lock().unwrap();
        if sh.signed_request.is_none() {
            let more = sh.recompose.clone();
            let all = plan_single(&mut self.req, sh.modify, sh.mode, &more);
            sh.accessors = Some((self.req.header().id(), self.req.dnssec_ok()));
            match all {
                Ok(b) => sh.set_requests(b),
                Err(e) => {
                    sh.compose_err = Some(e);
                    return Box::pin(std::future::ready(Err(ClientError::ConnectionClosed)));
                }
            }
        }
        let out = match sh.next_message() {
            Some(m) => {
                sh.is_answer = Message::from_slice(&m).ok().map(|x| self.req.is_answer(x));
                Ok(Message::from_octets(Bytes::from(m)).unwrap())
            }
            None => Err(ClientError::ConnectionClosed),
        };
        drop(sh);
        Box::pin(std::future::ready(out))
    }
}
impl<CR: ComposeRequestMulti + Clone> GetResponseMulti for MockGetMulti<CR> {
    fn get_response(&mut self) -> Pin<Box<dyn Future<Output = Result<Option<Message<Bytes>>, ClientError>> + Send + Sync + '_>> {
        let mut sh = self.sh.lock().unwrap();
        if sh.signed_request.is_none() {
            let more = sh.recompose.clone();
            let all = plan_multi(&mut self.req, sh.modify, sh.mode, &more);
            sh.accessors = Some((self.req.header().id(), self.req.dnssec_ok()));
            match all {
                Ok(b) => sh.set_requests(b),
                Err(e) => {
                    sh.compose_err = Some(e);
                    return Box::pin(std::future::ready(Err(ClientError::ConnectionClosed)));
                }
            }
        }
        let out = sh.next_message().map(|m| {
            sh.is_answer = Message::from_slice(&m).ok().map(|x| self.req.is_answer(x));
            Message::from_octets(Bytes::from(m)).unwrap()
        });
        drop(sh);
        Box::pin(std::future::ready(Ok(out)))
    }
}

#[derive(Clone, Debug)]
struct TransportCase {
    key: KeySpec,
    multi: bool,
    shape: usize,
    mode: u8,
    modify: u8,
    script: Vec<Step>,
    recompose: Vec<Recomp>,
    reply_to: Option<usize>,
}
impl TransportCase {
    fn json(&self) -> Value {
        json!({"kind": "transport-client", "key": self.key.json(), "multi": self.multi, "shape": self.shape, "mode": self.mode,
               "modify": self.modify, "script": self.script.iter().map(|s| s.json()).collect::<Vec<_>>(),
               "recompose": self.recompose.iter().map(|r| r.json()).collect::<Vec<_>>(), "reply_to": self.reply_to})
    }
    fn from_json(v: &Value) -> TransportCase {
        TransportCase {
            key: KeySpec::from_json(&v["key"]),
            multi: v["multi"].as_bool().unwrap(),
            shape: v["shape"].as_u64().unwrap() as usize,
            mode: v["mode"].as_u64().unwrap() as u8,
            modify: v["modify"].as_u64().unwrap() as u8,
            script: v["script"].as_array().unwrap().iter().map(Step::from_json).collect(),
            recompose: v["recompose"].as_array().map(|a| a.iter().map(Recomp::from_json).collect()).unwrap_or_default(),
            reply_to: v["reply_to"].as_u64().map(|x| x as usize),
        }
    }
}

struct TransportResult {
    /// all scripted answers were accepted as the reference says
    all_accepted: bool,
    exhausted: bool,
}

/// Time of the TSIG record of a library-signed message, if inside the window.
fn signed_time_in(m: &[u8], lo: u64, hi: u64) -> Option<u64> {
    match ref_locate(m) {
        Locate::Found(t) if t.time >= lo && t.time <= hi => Some(t.time),
        _ => None,
    }
}

/// One run of the signing/verifying client transport against a scripted peer.
fn transport_case(ctx: &Ctx, l: &mut Local, c: &TransportCase) -> TransportResult {
    let mut res = TransportResult { all_accepted: false, exhausted: false };
    let replay = || c.json();
    let role = if c.multi { "client-transport-multi" } else { "client-transport" };
    let k = match c.key.lib() {
        Ok(Ok(k)) => k,
        _ => return res,
    };
    let rk = c.key.refkey();
    let sh = Arc::new(Mutex::new(UpShared {
        rk: rk.clone(), seq: c.multi, mode: c.mode, modify: c.modify, script: c.script.clone(), recompose: c.recompose.clone(), reply_to: c.reply_to,
        pos: 0, signed_request: None, composed: Vec::new(), peer_rc: None, peer_id: 0, compose_err: None, accessors: None, is_answer: None, rc: None, last_signed: None, produced: Vec::new(), exhausted: false,
    }));
    let mut raw = shape(c.shape, false, 0x6A6A, 0, 4);
    if c.multi {
        // multi-response requests must be zone transfers: QTYPE AXFR
        let p = 12 + qname().len();
        set16(&mut raw, p, 252);
    }
    let conn = TsigConnection::new(k.clone(), MockUp(sh.clone()));
    let t0 = real_now();
    // what the wrapped request would have put on the wire without TSIG
    // (one entry per composition the upstream makes)
    let (presign, twin_acc, twin_is_answer): (Result<Vec<Vec<u8>>, String>, (u16, bool), Box<dyn Fn(&[u8]) -> Option<bool>>) = if c.multi {
        let mut twin = PlainReqMulti::new(Message::from_octets(raw.clone()).unwrap()).unwrap();
        let all = plan_multi(&mut twin, c.modify, c.mode, &c.recompose);
        let acc = (twin.header().id(), twin.dnssec_ok());
        (all, acc, Box::new(move |m: &[u8]| Message::from_slice(m).ok().map(|x| twin.is_answer(x))))
    } else {
        let mut twin = PlainReq::new(Message::from_octets(raw.clone()).unwrap()).unwrap();
        let all = plan_single(&mut twin, c.modify, c.mode, &c.recompose);
        let acc = (twin.header().id(), twin.dnssec_ok());
        (all, acc, Box::new(move |m: &[u8]| Message::from_slice(m).ok().map(|x| twin.is_answer(x))))
    };
    let presigns = match presign {
        Ok(p) => p,
        Err(_) => return res,
    };
    enum Got {
        Msg(Vec<u8>),
        End,
        Err(ClientError),
        NotReady,
    }
    // the request object of the transport under test
    let mut single: Option<Box<dyn GetResponse + Send + Sync>> = None;
    let mut multi: Option<Box<dyn GetResponseMulti + Send + Sync>> = None;
    if c.multi {
        let plain = PlainReqMulti::new(Message::from_octets(raw.clone()).unwrap()).unwrap();
        multi = Some(SendRequestMulti::send_request(&conn, plain));
    } else {
        let plain = PlainReq::new(Message::from_octets(raw.clone()).unwrap()).unwrap();
        single = Some(SendRequest::send_request(&conn, plain));
    }
    let mut request_checked = false;
    let mut accepted = 0usize;
    let steps = if c.multi { c.script.len() + 1 } else { 1 };
    for i in 0..steps {
        l.evals += 1;
        l.transitions += 1;
        l.states += 1;
        let r = guard(|| {
            if let Some(g) = single.as_mut() {
                match g.get_response().now_or_never() {
                    None => Got::NotReady,
                    Some(Ok(m)) => Got::Msg(m.as_slice().to_vec()),
                    Some(Err(e)) => Got::Err(e),
                }
            } else {
                match multi.as_mut().unwrap().get_response().now_or_never() {
                    None => Got::NotReady,
                    Some(Ok(Some(m))) => Got::Msg(m.as_slice().to_vec()),
                    Some(Ok(None)) => Got::End,
                    Some(Err(e)) => Got::Err(e),
                }
            }
        });
        let t1 = real_now();
        let got = match r {
            Err(p) => {
                report_panic(ctx, role, "get_response", "", &p, &replay);
                return res;
            }
            Ok(Got::NotReady) => {
                violate(ctx, &format!("C11|{role}|get_response|future-not-ready-with-a-ready-upstream"), "get_response() did not complete although the upstream answered immediately", &replay);
                return res;
            }
            Ok(g) => g,
        };
        let mut g = sh.lock().unwrap();
        if let Some(e) = &g.compose_err {
            violate(ctx, &format!("C11|{role}|request|compose-error"), &format!("composing the signed request failed: {e}"), &replay);
            return res;
        }
        res.exhausted = g.exhausted;
        if res.exhausted {
            return res;
        }
        if !request_checked {
            request_checked = true;
            // the requests the transport would have sent: every composition
            // must be a correctly signed request of its own
            if g.signed_request.is_none() {
                return res;
            }
            if g.composed.len() != presigns.len() {
                violate(ctx, "C11|machinery|compositions-of-wrapper-and-twin-differ", "the wrapped request and its twin went through different plans", &replay);
                return res;
            }
            for (j, (signed, presign)) in g.composed.iter().zip(&presigns).enumerate() {
                let op = if j == 0 { "request" } else { "request(composed-again)" };
                let time = match signed_time_in(signed, t0, t1) {
                    Some(t) => t,
                    None => {
                        violate(ctx, &format!("C11|{role}|{op}|signed-output|time-signed-not-the-current-time"), "the request is not signed with the current time (or carries no well placed TSIG)", &replay);
                        return res;
                    }
                };
                if check_signed_by_lib(ctx, role, op, &rk, &[], None, presign, signed, false, time, 300, &replay).is_none() {
                    return res;
                }
                l.c(if j == 0 { "transport request MAC equals reference" } else { "transport request composed again: MAC equals reference" });
            }
            l.distinct.push(fnv(format!("req{}{:?}{}{}{}{:?}{:?}", c.key.tag(), c.script, c.mode, c.modify, c.shape, c.recompose, c.reply_to).as_bytes()));
            if g.accessors != Some(twin_acc) {
                violate(ctx, &format!("C11|{role}|request|pass-through-accessors"), &format!("header id / dnssec_ok through the wrapper {:?}, on the wrapped request {:?}", g.accessors, twin_acc), &replay);
            }
        }
        let at_end = i >= c.script.len();
        let rc = match g.rc.clone() {
            Some(rc) => rc,
            None => return res,
        };
        if at_end {
            // end of stream: done() decides
            let want_ok = rc.run == 0 && !rc.first;
            let ok = matches!(got, Got::End);
            l.c(if ok { "transport end of stream: ok" } else { "transport end of stream: error" });
            if verbose() {
                println!("  {role}.end-of-stream: reference ok={want_ok}, library ok={ok}");
            }
            if ok != want_ok || matches!(got, Got::Msg(_)) {
                violate(ctx, &format!("C11|{role}|end-of-stream|last-message-signed={want_ok}|observed ok={ok}"), "the end of the answer stream must be accepted iff the last message carried a TSIG", &replay);
            }
            res.all_accepted = accepted == c.script.len();
            return res;
        }
        let (name, msg) = match g.produced.get(i) {
            Some(x) => x.clone(),
            None => return res, // script symbol not producible (e.g. replay before any signed message)
        };
        if i == 0 && g.is_answer != twin_is_answer(&msg) {
            violate(ctx, &format!("C11|{role}|request|pass-through-is_answer"), "is_answer through the wrapper differs from the wrapped request", &replay);
        }
        let (exp, commit) = rc.expect(&msg, t1);
        l.ref_cls[3][exp.primary as usize] += 1;
        let cls = match &got {
            Got::Msg(_) => Cls::Accept,
            Got::Err(ClientError::Authentication(e)) => cls_of_validation(e),
            _ => Cls::Other,
        };
        l.lib_cls[3][cls as usize] += 1;
        l.distinct.push(fnv(format!("{}{:?}{}{}{}{:?}{:?}{:?}", c.key.tag(), c.script, c.mode, c.modify, c.shape, i, c.recompose, c.reply_to).as_bytes()));
        // which composition the answer belongs to is part of the class
        let last = g.composed.len().saturating_sub(1);
        let op = if g.composed.len() <= 1 {
            "get_response".to_string()
        } else if c.reply_to.unwrap_or(last) >= last {
            format!("get_response(request-composed-{}x,answer-to-the-last-composition)", g.composed.len())
        } else {
            format!("get_response(request-composed-{}x,answer-to-an-earlier-composition)", g.composed.len())
        };
        if g.composed.len() > 1 {
            l.c(&format!("transport: {} answer to a re-composed request: reference {:?}", if c.reply_to.unwrap_or(last) >= last { "last-composition" } else { "earlier-composition" }, exp.primary));
        }
        let agreed = judge(ctx, role, &op, &exp, cls, &name, &replay);
        if !(agreed && exp.primary == cls) {
            return res;
        }
        if cls != Cls::Accept {
            return res;
        }
        if let Got::Msg(after) = &got {
            match &commit {
                Commit::Signed { stripped, .. } => check_restored(ctx, role, "get_response", after, stripped, l, &replay),
                Commit::Unsigned => {
                    if after[..] != msg[..] {
                        violate(ctx, &format!("C11|{role}|get_response|unsigned-intermediate|message-modified"), "unsigned message was modified", &replay);
                    }
                }
                Commit::None => {}
            }
        }
        let mut rc2 = rc;
        rc2.commit(&commit, &msg);
        g.rc = Some(rc2);
        accepted += 1;
    }
    res.all_accepted = accepted == c.script.len();
    res
}

fn transport_keys(quick: bool) -> Vec<KeySpec> {
    let mut v = key_variants(quick, true);
    // a key name that shares its suffix with the question: the compressing
    // target of to_message() then writes the TSIG owner with a pointer
    for alg in ALGS {
        v.push(KeySpec { alg, secret: SECRET.to_vec(), name: "TSIG-Key.Example.ORG".into(), min: None, sign: if alg == Alg::Sha256 { Some(alg.floor()) } else { None } });
    }
    v
}

fn run_client_transport(ctx: &Arc<Ctx>, g: &Glob, wd: &Watchdog) -> Value {
    let quick = ctx.quick();
    let kvs = transport_keys(quick);
    let counts = Mutex::new(BTreeMap::<&'static str, u64>::new());
    let bump = |k: &'static str, n: u64| *counts.lock().unwrap().entry(k).or_insert(0) += n;
    kvs.par_iter().for_each(|kv| {
        wd.enter(|| json!({"kind": "job", "runner": "client-transport", "key": kv.json()}));
        let mut l = Local::default();
        let full = kv.min == kv.sign; // mutation menus for the symmetric keys
        // (a) single answer: every way of composing x every request modification x clock offsets
        for shape_id in [0usize, 3] {
            for mode in 0..3u8 {
                for modify in 0..4u8 {
                    for o in [-400i64, -200, 0, 200, 400] {
                        transport_case(ctx, &mut l, &TransportCase { key: kv.clone(), multi: false, shape: shape_id, mode, modify, script: vec![Step::TimeOff(o)], recompose: Vec::new(), reply_to: None });
                        bump("single honest/offset cases", 1);
                    }
                }
            }
        }
        // (b) single answer: the whole mutation menu
        if full {
            let sizes = answer_menu_sizes(&kv.refkey(), false, 0);
            for mk in [0usize, 1] {
                for i in 0..if mk == 0 { sizes.0 } else { sizes.1 } {
                    let step = if mk == 0 { Step::Structural(i) } else { Step::Bit(i) };
                    let r = transport_case(ctx, &mut l, &TransportCase { key: kv.clone(), multi: false, shape: 0, mode: 0, modify: 0, script: vec![step], recompose: Vec::new(), reply_to: None });
                    if r.exhausted {
                        violate(ctx, "C11|machinery|mutation-menu-size", "menu shorter than computed", &|| json!({"kind": "job"}));
                        break;
                    }
                    bump(if mk == 0 { "single structural mutations" } else { "single bit flips" }, 1);
                }
            }
        }
        // (c) answer streams: every pattern over the fault alphabet, prefix-closed
        let depth = if quick { 4 } else { 5 };
        for mode in [0u8, 2] {
            let mut frontier: Vec<Vec<Step>> = vec![Vec::new()];
            for _ in 0..depth {
                let mut next = Vec::new();
                for p in &frontier {
                    for sym in *b"SURBTW" {
                        if sym == b'R' && !p.iter().any(|s| *s == Step::Sym(b'S')) {
                            continue;
                        }
                        let mut q = p.clone();
                        q.push(Step::Sym(sym));
                        let r = transport_case(ctx, &mut l, &TransportCase { key: kv.clone(), multi: true, shape: 0, mode, modify: if mode == 0 { 0 } else { 1 }, script: q.clone(), recompose: Vec::new(), reply_to: None });
                        bump("stream patterns", 1);
                        if r.all_accepted {
                            next.push(q);
                        }
                    }
                }
                frontier = next;
            }
        }
        // (d) streams: first and subsequent message mutation menus, and S U^k (S) around the limit
        if full {
            for pre in [vec![Step::Sym(b'S')], vec![Step::Sym(b'S'), Step::Sym(b'U')]] {
                let sizes = answer_menu_sizes(&kv.refkey(), true, pre.len());
                for mk in [0usize, 1] {
                    for i in 0..if mk == 0 { sizes.0 } else { sizes.1 } {
                        let mut script = pre.clone();
                        script.push(if mk == 0 { Step::Structural(i) } else { Step::Bit(i) });
                        let r = transport_case(ctx, &mut l, &TransportCase { key: kv.clone(), multi: true, shape: 0, mode: 0, modify: 0, script, recompose: Vec::new(), reply_to: None });
                        if r.exhausted {
                            violate(ctx, "C11|machinery|mutation-menu-size", "menu shorter than computed", &|| json!({"kind": "job"}));
                            break;
                        }
                        bump("stream subsequent-message mutations", 1);
                    }
                }
            }
        }
        if kv.min.is_none() && kv.sign.is_none() && kv.name.starts_with('t') {
            for k in [98usize, 99, 100] {
                for tail in [None, Some(b'S')] {
                    let mut script = vec![Step::Sym(b'S')];
                    script.extend(std::iter::repeat(Step::Sym(b'U')).take(k));
                    if let Some(t) = tail {
                        script.push(Step::Sym(t));
                    }
                    transport_case(ctx, &mut l, &TransportCase { key: kv.clone(), multi: true, shape: 0, mode: 0, modify: 0, script, recompose: Vec::new(), reply_to: None });
                    bump("stream unsigned-run cases", 1);
                }
            }
        }
        // (e) the upstream composes the request more than once before the
        // answer arrives: every plan of 1 or 2 further compositions over
        // {header unchanged, new ID} x {on the request itself, on a clone that
        // is dropped} x compose paths; the peer answers the last composition
        // (honest) or an earlier one (signed over a request MAC the client no
        // longer holds unless the octets were the same)
        let extra_modes: &[u8] = if quick { &[0, 2] } else { &[0, 1, 2] };
        let mut menu: Vec<(bool, bool, u8)> = Vec::new();
        for new_id in [false, true] {
            for on_clone in [false, true] {
                for &mode in extra_modes {
                    menu.push((new_id, on_clone, mode));
                }
            }
        }
        let mk = |pos: usize, e: &(bool, bool, u8)| Recomp { id: if e.0 { Some(0x3100 + 0x0111 * pos as u16) } else { None }, mode: e.2, on_clone: e.1 };
        let mut plans: Vec<Vec<Recomp>> = Vec::new();
        for a in &menu {
            plans.push(vec![mk(1, a)]);
            for b in &menu {
                plans.push(vec![mk(1, a), mk(2, b)]);
            }
        }
        for (pi, plan) in plans.iter().enumerate() {
            let firsts: Vec<(u8, u8)> = if quick { vec![[(0u8, 0u8), (2, 1)][pi % 2]] } else { vec![(0, 0), (1, 0), (2, 1), (0, 3)] };
            for (mode, modify) in firsts {
                for reply_to in 0..=plan.len() {
                    let reply = if reply_to == plan.len() { None } else { Some(reply_to) };
                    for script in [vec![Step::TimeOff(0)], vec![Step::Sym(b'B')]] {
                        transport_case(ctx, &mut l, &TransportCase { key: kv.clone(), multi: false, shape: if pi % 3 == 0 { 3 } else { 0 }, mode, modify, script, recompose: plan.clone(), reply_to: reply });
                        bump("request composed 2x/3x: single answer cases", 1);
                    }
                    for script in [vec![Step::Sym(b'S')], vec![Step::Sym(b'S'), Step::Sym(b'U'), Step::Sym(b'S')], vec![Step::Sym(b'B')]] {
                        transport_case(ctx, &mut l, &TransportCase { key: kv.clone(), multi: true, shape: 0, mode, modify, script, recompose: plan.clone(), reply_to: reply });
                        bump("request composed 2x/3x: stream cases", 1);
                    }
                }
            }
        }
        g.merge(l);
        wd.leave();
    });
    g_sample(|| json!({"runner": "client-transport", "what": "net::client::tsig::Connection over a scripted SendRequest/SendRequestMulti upstream answering from the reference signer",
        "compose_modes": ["to_message", "to_vec / append_message(StaticCompressor)", "append_message(Vec)"],
        "request_modifications_by_the_upstream": ["none", "header_mut().set_id", "set_udp_payload_size+set_dnssec_ok", "add_opt+set_id"],
        "compositions_by_the_upstream": "1 (parts a-d); part e: 2 and 3 compositions, each further one over {header unchanged, new ID} x {on the request, on a clone dropped afterwards} x compose paths; every composition must be a correctly signed request (reference MAC); the peer answers the last composition (must be accepted) or an earlier one (verdict of the reference client holding the MAC of the last composition), honest and with a bad MAC, single answers and streams S / S U S"}));
    json!(counts.into_inner().unwrap())
}

// ---------------------------------------------------------------------
// TsigMiddlewareSvc behind a mock service
// ---------------------------------------------------------------------

#[derive(Clone, Debug)]
struct SvcPlan {
    /// number of responses the service produces
    n: usize,
    /// 0: no feedback (single response), 1: BeginTransaction attached to the
    /// first response, 2: feedback-only BeginTransaction/EndTransaction items
    /// around the responses (what the XFR service does)
    feedback: u8,
    /// index of a response that leaves no room for the TSIG record
    oversize: Option<usize>,
}

#[derive(Default)]
struct SvcShared {
    calls: Vec<SvcCall>,
}
struct SvcCall {
    key: Option<(Vec<u8>, usize)>, // key name (wire) and algorithm native length, from the metadata
    msg: Vec<u8>,
    reserved: u16,
    presigns: Vec<Vec<u8>>,
}

#[derive(Clone)]
struct MockSvc {
    plan: SvcPlan,
    sh: Arc<Mutex<SvcShared>>,
}

type SvcStream = futures_util::stream::Iter<std::vec::IntoIter<ServiceResult<Vec<u8>>>>;

impl Service<Vec<u8>, Option<K>> for MockSvc {
    type Target = Vec<u8>;
    type Stream = SvcStream;
    type Future = std::future::Ready<SvcStream>;

    fn call(&self, request: SrvRequest<Vec<u8>, Option<K>>) -> Self::Future {
        let owner = Name::<Vec<u8>>::from_str("www.example.org.").unwrap();
        let mut items: Vec<ServiceResult<Vec<u8>>> = Vec::new();
        let mut presigns = Vec::new();
        if self.plan.feedback == 2 {
            items.push(Ok(CallResult::feedback_only(ServiceFeedback::BeginTransaction)));
        }
        for i in 0..self.plan.n {
            let b = mk_builder_for_target::<Vec<u8>>();
            let mut a = b.start_answer(request.message(), Rcode::NOERROR).unwrap();
            for j in 0..=(i % 3) as u8 {
                a.push((&owner, 3600, A::from_octets(192, 0, 2, j))).unwrap();
            }
            if self.plan.oversize == Some(i) {
                // fill the 65535 octets a stream message can have
                while a.as_slice().len() + 31 <= 65535 {
                    if a.push((&owner, 3600, A::from_octets(10, 0, 0, 1))).is_err() {
                        break;
                    }
                }
            }
            let add = a.additional();
            presigns.push(add.as_slice().to_vec());
            let mut cr = CallResult::new(add);
            if self.plan.feedback == 1 && i == 0 {
                cr = cr.with_feedback(ServiceFeedback::BeginTransaction);
            }
            items.push(Ok(cr));
        }
        if self.plan.feedback == 2 {
            items.push(Ok(CallResult::feedback_only(ServiceFeedback::EndTransaction)));
        }
        self.sh.lock().unwrap().calls.push(SvcCall {
            key: request.metadata().as_ref().map(|k| (k.name().as_slice().to_vec(), k.native_len())),
            msg: request.message().as_slice().to_vec(),
            reserved: request.num_reserved_bytes(),
            presigns,
        });
        std::future::ready(futures_util::stream::iter(items))
    }
}

#[derive(Clone, Debug)]
struct MwCase {
    keys: Vec<KeySpec>,
    plan: SvcPlan,
    tcp: bool,
    /// how the request is made from the reference-signed honest request
    step: Step,
    shape: usize,
}
impl MwCase {
    fn json(&self) -> Value {
        json!({"kind": "middleware", "keys": self.keys.iter().map(|k| k.json()).collect::<Vec<_>>(), "n": self.plan.n, "feedback": self.plan.feedback,
               "oversize": self.plan.oversize, "tcp": self.tcp, "step": self.step.json(), "shape": self.shape})
    }
    fn from_json(v: &Value) -> MwCase {
        MwCase {
            keys: v["keys"].as_array().unwrap().iter().map(KeySpec::from_json).collect(),
            plan: SvcPlan { n: v["n"].as_u64().unwrap() as usize, feedback: v["feedback"].as_u64().unwrap() as u8, oversize: v["oversize"].as_u64().map(|x| x as usize) },
            tcp: v["tcp"].as_bool().unwrap(),
            step: Step::from_json(&v["step"]),
            shape: v["shape"].as_u64().unwrap() as usize,
        }
    }
}

/// Length of the TSIG RR a key appends to an answer (no other data).
fn ref_tsig_rr_len(k: &RefKey) -> usize {
    wire::to_wire(&k.name).len() + 10 + wire::to_wire(&[k.alg.label().to_vec()]).len() + 16 + k.sign
}

/// One request through the middleware. Returns true when the mutation index ran out.
fn middleware_case(ctx: &Ctx, l: &mut Local, c: &MwCase) -> bool {
    let replay = || c.json();
    let role = "middleware";
    let refstore: Vec<RefKey> = c.keys.iter().map(|k| k.refkey()).collect();
    let libs: Vec<K> = match c.keys.iter().map(|k| k.lib()).collect::<Result<Result<Vec<_>, _>, _>>() {
        Ok(Ok(v)) => v,
        _ => return false,
    };
    let rk = &refstore[0];
    // the request, from the independent signer
    let now = real_now();
    let presign_req = shape(c.shape, false, 0x2B2B, 0, 7);
    let honest = |at: u64| ref_sign(rk, &[], &presign_req, false, at, 300, 0, &[]).0;
    let (mname, reqmsg) = match &c.step {
        Step::Sym(b'U') => ("unsigned-request".to_string(), presign_req.clone()),
        Step::Sym(b'W') => {
            let mut w = rk.clone();
            w.hk = hmac::Key::new(rk.alg.ring(), b"not the shared secret");
            ("wrong-secret".to_string(), ref_sign(&w, &[], &presign_req, false, now, 300, 0, &[]).0)
        }
        Step::Sym(_) => ("honest".to_string(), honest(now)),
        Step::TimeOff(o) => (format!("signed at now{o:+}"), honest((now as i64 + o) as u64)),
        Step::Structural(i) => {
            let h = honest(now);
            let mut list = structural_for_transports(&h, rk, &[], false, now);
            if *i >= list.len() {
                return true;
            }
            list.swap_remove(*i)
        }
        Step::Bit(i) => {
            let mut h = honest(now);
            if *i >= h.len() * 8 {
                return true;
            }
            h[i / 8] ^= 0x80 >> (i % 8);
            (format!("bit-{i}"), h)
        }
    };
    l.evals += 1;
    l.transitions += 1;
    l.states += 1;
    let sh = Arc::new(Mutex::new(SvcShared::default()));
    let svc = MockSvc { plan: c.plan.clone(), sh: sh.clone() };
    type Item = Result<(Option<Vec<u8>>, Option<ServiceFeedback>), String>;
    let run = |req: SrvRequest<Vec<u8>, ()>| -> Result<Option<Vec<Item>>, String> {
        let drive = |mut st: Pin<Box<dyn futures_util::Stream<Item = ServiceResult<Vec<u8>>> + Send>>| {
            let mut items: Vec<Item> = Vec::new();
            loop {
                match st.next().now_or_never() {
                    None => return None,
                    Some(None) => break,
                    Some(Some(Ok(cr))) => {
                        let (resp, fb) = cr.into_inner();
                        items.push(Ok((resp.map(|r| r.as_slice().to_vec()), fb)));
                    }
                    Some(Some(Err(e))) => items.push(Err(format!("{e}"))),
                }
                if items.len() > 16 {
                    break;
                }
            }
            Some(items)
        };
        guard(|| {
            if libs.len() == 1 {
                let mw = TsigMiddlewareSvc::<Vec<u8>, MockSvc, K, ()>::new(svc.clone(), libs[0].clone());
                mw.call(req).now_or_never().and_then(|st| drive(Box::pin(st)))
            } else {
                let mut h: HashMap<(KeyName, Algorithm), K> = HashMap::new();
                for k in &libs {
                    h.insert((k.name().clone(), k.algorithm()), k.clone());
                }
                let mw = TsigMiddlewareSvc::<Vec<u8>, MockSvc, HashMap<(KeyName, Algorithm), K>, ()>::new(svc.clone(), h);
                mw.call(req).now_or_never().and_then(|st| drive(Box::pin(st)))
            }
        })
    };
    let tctx = if c.tcp { NonUdpTransportContext::new(None).into() } else { UdpTransportContext::new(None).into() };
    let request = SrvRequest::new("192.0.2.7:5353".parse().unwrap(), tokio::time::Instant::now(), Message::from_octets(reqmsg.clone()).unwrap(), tctx, ());
    let t0 = real_now();
    let out = run(request);
    let t1 = real_now();
    let items = match out {
        Err(p) => {
            report_panic(ctx, role, "call", "", &p, &replay);
            return false;
        }
        Ok(None) => {
            violate(ctx, "C11|middleware|call|stream-not-ready-with-a-ready-service", "the middleware stream did not complete although the service answered immediately", &replay);
            return false;
        }
        Ok(Some(i)) => i,
    };
    let (exp, acc) = ref_server(&refstore, &reqmsg, t1);
    l.ref_cls[4][exp.primary as usize] += 1;
    let g = sh.lock().unwrap();
    let responses: Vec<&Vec<u8>> = items.iter().filter_map(|i| i.as_ref().ok().and_then(|(r, _)| r.as_ref())).collect();
    let got = if let Some(call) = g.calls.first() {
        if call.key.is_some() {
            Cls::Accept
        } else {
            Cls::Unsigned
        }
    } else if let (1, Some(r)) = (items.len(), responses.first()) {
        // the middleware answered itself: which error did it send?
        match (r.get(3).map(|b| b & 0x0F), ref_locate(r)) {
            (Some(1), _) => Cls::FormErr,
            (Some(9), Locate::Found(t)) => cls_of_code(t.error),
            _ => Cls::Other,
        }
    } else {
        Cls::Other
    };
    l.lib_cls[4][got as usize] += 1;
    l.distinct.push(fnv(format!("mw{:?}{}", c, mname).as_bytes()));
    let agreed = judge(ctx, role, "call", &exp, got, &mname, &replay);
    if !agreed || exp.primary != got {
        if agreed && !matches!(got, Cls::Accept | Cls::Unsigned) {
            // an allowed alternative rejection: still check the error message
            check_error_response_at(ctx, l, "middleware|error-response", &replay, &refstore, t0, t1, &reqmsg, responses[0], got);
        }
        return false;
    }
    if g.calls.len() > 1 {
        violate(ctx, "C11|middleware|call|service-called-more-than-once", "the next service was called more than once for one request", &replay);
        return false;
    }
    match got {
        Cls::Accept => {
            let call = &g.calls[0];
            let (ki, reqmac, stripped) = acc.unwrap();
            let key = &refstore[ki];
            check_restored(ctx, role, "request-passed-on", &call.msg, &stripped, l, &replay);
            if call.key != Some((wire::to_wire(&key.name), key.alg.native())) && call.key.as_ref().map(|k| wire::lower(&k.0)) != Some(wire::lower(&wire::to_wire(&key.name))) {
                violate(ctx, "C11|middleware|call|metadata-key", "the key handed to the next service is not the key that signed the request", &replay);
            }
            if call.reserved as usize != ref_tsig_rr_len(key) {
                violate(ctx, "C11|middleware|call|reserved-octets!=length-of-the-TSIG-record", &format!("{} octets reserved for a TSIG record of {} octets", call.reserved, ref_tsig_rr_len(key)), &replay);
            }
            if responses.len() != c.plan.n {
                violate(ctx, "C11|middleware|call|number-of-responses", &format!("{} responses from the service, {} from the middleware", c.plan.n, responses.len()), &replay);
                return false;
            }
            let sequence = c.plan.feedback != 0;
            let mut prior_wire = reqmac.clone();
            let mut prior_full = reqmac;
            for (i, signed) in responses.iter().enumerate() {
                let timers = sequence && i > 0;
                let op = if !sequence { "single-response" } else if i == 0 { "stream-first-response" } else { "stream-subsequent-response" };
                let time = match signed_time_in(signed, t0, t1) {
                    Some(t) => t,
                    None => {
                        violate(ctx, &format!("C11|middleware|{op}|signed-output|not-signed-with-the-current-time"), "response to a signed request carries no well placed TSIG with the current time", &replay);
                        return false;
                    }
                };
                let mut presign = call.presigns[i].clone();
                let op_name;
                if c.plan.oversize == Some(i) {
                    // RFC 8945 5.3: only the question and the TSIG, TC set, RCODE 0
                    let mut p = presign_req[..12 + qname().len() + 4].to_vec();
                    p[2] = (presign_req[2] & 0x79) | 0x80 | 0x02; // QR, opcode and RD kept, TC set
                    p[3] = 0;
                    set16(&mut p, 6, 0);
                    set16(&mut p, 8, 0);
                    set16(&mut p, 10, 0);
                    presign = p;
                    op_name = format!("{op}(truncated-because-no-room)");
                } else {
                    op_name = op.to_string();
                }
                let mut alt = mac_prefix(&prior_full);
                if c.plan.oversize == Some(i) && sequence {
                    // explanation to try: the sequence state had already moved on
                    // over the response that did not fit when its TSIG was refused
                    for at in t0..=t1 {
                        let vars = if timers { ref_timers(at, 300) } else { ref_variables(key, at, 300, 0, &[]) };
                        let lost = key.full_mac(&[&mac_prefix(&prior_wire), &call.presigns[i], &vars]);
                        let p = mac_prefix(&lost[..key.sign]);
                        let probe = key.full_mac(&[&p, &presign, &ref_timers(time, 300)]);
                        if let Locate::Found(t) = ref_locate(signed) {
                            if probe[..key.sign] == t.mac[..] {
                                violate(ctx, "C11|middleware|stream-response(truncated-because-no-room)|signed-output|mac!=reference|observed=digest-continues-from-the-response-that-was-never-sent",
                                    "after a response of a stream left no room for its TSIG record, the replacement (question + TSIG, TC set) is signed as if the oversized response had been sent: a client cannot verify it", &replay);
                                return false;
                            }
                        }
                    }
                    alt = mac_prefix(&prior_wire);
                }
                let mac = check_signed_by_lib(ctx, role, &op_name, key, &mac_prefix(&prior_wire), Some(&alt), &presign, signed, timers, time, 300, &replay);
                let mac = match mac {
                    Some(m) => m,
                    None => return false,
                };
                if c.plan.oversize != Some(i) && signed.len() - presign.len() != call.reserved as usize {
                    violate(ctx, "C11|middleware|call|reserved-octets!=appended-octets", &format!("{} octets reserved, {} appended", call.reserved, signed.len() - presign.len()), &replay);
                }
                l.c("middleware response MAC equals reference");
                let vars = if timers { ref_timers(time, 300) } else { ref_variables(key, time, 300, 0, &[]) };
                prior_full = key.full_mac(&[&mac_prefix(&prior_wire), &presign, &vars]);
                prior_wire = mac;
                if !sequence {
                    break;
                }
            }
        }
        Cls::Unsigned => {
            let call = &g.calls[0];
            if call.msg != reqmsg || call.reserved != 0 {
                violate(ctx, "C11|middleware|call|unsigned-request-not-passed-through", "a request without TSIG must reach the service unchanged", &replay);
            }
            if responses.len() != call.presigns.len() || responses.iter().zip(&call.presigns).any(|(a, b)| a[..] != b[..]) {
                violate(ctx, "C11|middleware|call|unsigned-response-modified", "responses to a request without TSIG must pass unchanged", &replay);
            }
            l.c("middleware: unsigned pass-through");
        }
        _ => {
            l.c(&format!("middleware error response for {got:?}"));
            check_error_response_at(ctx, l, "middleware|error-response", &replay, &refstore, t0, t1, &reqmsg, responses[0], got);
        }
    }
    false
}

fn run_middleware(ctx: &Arc<Ctx>, g: &Glob, wd: &Watchdog) -> Value {
    let quick = ctx.quick();
    let kvs = key_variants(quick, true);
    let counts = Mutex::new(BTreeMap::<&'static str, u64>::new());
    let bump = |k: &'static str, n: u64| *counts.lock().unwrap().entry(k).or_insert(0) += n;
    let plans = [
        SvcPlan { n: 1, feedback: 0, oversize: None },
        SvcPlan { n: 1, feedback: 1, oversize: None },
        SvcPlan { n: 3, feedback: 1, oversize: None },
        SvcPlan { n: 4, feedback: 2, oversize: None },
        SvcPlan { n: 1, feedback: 0, oversize: Some(0) },
        SvcPlan { n: 3, feedback: 2, oversize: Some(0) },
        SvcPlan { n: 3, feedback: 2, oversize: Some(1) },
        SvcPlan { n: 3, feedback: 1, oversize: Some(2) },
    ];
    kvs.par_iter().for_each(|kv| {
        wd.enter(|| json!({"kind": "job", "runner": "middleware", "key": kv.json()}));
        let mut l = Local::default();
        let single = vec![kv.clone()];
        let multi = other_keys(kv);
        // (a) honest requests: every service plan x both stores x transports x request shapes
        for plan in &plans {
            for keys in [&single, &multi] {
                for shape_id in [0usize, 2, 3] {
                    for step in [Step::Sym(b'S'), Step::Sym(b'U')] {
                        middleware_case(ctx, &mut l, &MwCase { keys: keys.clone(), plan: plan.clone(), tcp: plan.n > 1 || plan.oversize.is_some(), step, shape: shape_id });
                        bump("honest and unsigned requests", 1);
                    }
                }
            }
        }
        // (b) clock offsets and the wrong secret
        for o in [-400i64, -200, 200, 400] {
            for tcp in [false, true] {
                middleware_case(ctx, &mut l, &MwCase { keys: single.clone(), plan: plans[0].clone(), tcp, step: Step::TimeOff(o), shape: 0 });
                bump("clock offsets", 1);
            }
        }
        middleware_case(ctx, &mut l, &MwCase { keys: single.clone(), plan: plans[0].clone(), tcp: false, step: Step::Sym(b'W'), shape: 0 });
        // (c) the whole mutation menu on the request
        if kv.min == kv.sign {
            for (keys, bits) in [(&single, true), (&multi, false)] {
                for mk in [0usize, 1] {
                    if mk == 1 && !bits {
                        continue;
                    }
                    let mut i = 0;
                    loop {
                        let step = if mk == 0 { Step::Structural(i) } else { Step::Bit(i) };
                        if middleware_case(ctx, &mut l, &MwCase { keys: keys.clone(), plan: plans[if i % 2 == 0 { 0 } else { 2 }].clone(), tcp: i % 2 == 1, step, shape: if mk == 0 { 3 } else { 0 } }) {
                            break;
                        }
                        bump(if mk == 0 { "request structural mutations" } else { "request bit flips" }, 1);
                        i += 1;
                    }
                }
            }
        }
        g.merge(l);
        wd.leave();
    });
    g_sample(|| json!({"runner": "middleware", "what": "TsigMiddlewareSvc::call over a mock Service; requests from the reference signer",
        "service_plans": plans.iter().map(|p| format!("{p:?}")).collect::<Vec<_>>()}));
    json!(counts.into_inner().unwrap())
}

// ---------------------------------------------------------------------
// TsigMiddlewareSvc: what the inner service answers
//   header flags x rcode x size class x target type x transport context;
//   oracle: the reference CLIENT (RFC 8945 5.3 verification written above)
//   must accept every response the middleware emits, in order.
// ---------------------------------------------------------------------

/// Message capacity of a response target behind `StreamTarget`.
trait Cap {
    const CAP: usize;
    const NAME: &'static str;
}
impl Cap for Vec<u8> {
    const CAP: usize = 65535;
    const NAME: &'static str = "Vec<u8> (65535 octets through StreamTarget)";
}

/// A response target that holds a 512-octet message (plus the two length
/// octets of `StreamTarget`) and refuses anything longer.
#[derive(Clone, Debug, Default)]
struct Lim512(Vec<u8>);
impl Cap for Lim512 {
    const CAP: usize = 512;
    const NAME: &'static str = "bounded target of 512 octets";
}
impl OctetsBuilder for Lim512 {
    type AppendError = octseq::builder::ShortBuf;
    fn append_slice(&mut self, s: &[u8]) -> Result<(), Self::AppendError> {
        if self.0.len() + s.len() > Self::CAP + 2 {
            return Err(octseq::builder::ShortBuf);
        }
        self.0.extend_from_slice(s);
        Ok(())
    }
}
impl Truncate for Lim512 {
    fn truncate(&mut self, len: usize) {
        self.0.truncate(len)
    }
}
impl AsRef<[u8]> for Lim512 {
    fn as_ref(&self) -> &[u8] {
        &self.0
    }
}
impl AsMut<[u8]> for Lim512 {
    fn as_mut(&mut self) -> &mut [u8] {
        &mut self.0
    }
}
impl Composer for Lim512 {}

const RESP_FLAGS: [&str; 6] = ["AA", "TC", "RD", "RA", "AD", "CD"];
const RESP_SIZES: [&str; 4] = ["small", "tsig-fits-exactly", "one-octet-short-for-the-tsig", "target-full"];

/// One response of the inner service.
#[derive(Clone, Debug, PartialEq)]
struct RespSpec {
    /// bit i set: header flag RESP_FLAGS[i] set, else cleared
    flags: u8,
    rcode: u8,
    /// index into RESP_SIZES
    size: u8,
}
impl RespSpec {
    fn json(&self) -> Value {
        json!({"flags": self.flags, "rcode": self.rcode, "size": self.size})
    }
    fn from_json(v: &Value) -> RespSpec {
        RespSpec { flags: v["flags"].as_u64().unwrap() as u8, rcode: v["rcode"].as_u64().unwrap() as u8, size: v["size"].as_u64().unwrap() as u8 }
    }
    fn no_room(&self) -> bool {
        self.size >= 2
    }
}

#[derive(Default)]
struct FlagShared {
    calls: usize,
    keyed: bool,
    presigns: Vec<Vec<u8>>,
    build_err: Option<String>,
}

struct FlagSvc<T> {
    resps: Vec<RespSpec>,
    feedback: u8,
    /// length of the TSIG record the key appends (computed by the harness)
    tsig_len: usize,
    sh: Arc<Mutex<FlagShared>>,
    _t: std::marker::PhantomData<fn() -> T>,
}
impl<T> Clone for FlagSvc<T> {
    fn clone(&self) -> Self {
        FlagSvc { resps: self.resps.clone(), feedback: self.feedback, tsig_len: self.tsig_len, sh: self.sh.clone(), _t: std::marker::PhantomData }
    }
}

impl<T> FlagSvc<T>
where
    T: Cap + Composer + Default,
    T::AppendError: Into<octseq::builder::ShortBuf>,
{
    fn build(&self, request: &SrvRequest<Vec<u8>, Option<K>>, i: usize, spec: &RespSpec) -> Result<AdditionalBuilder<domain::base::StreamTarget<T>>, String> {
        let owner = Name::<Vec<u8>>::from_str("www.example.org.").unwrap();
        let b = mk_builder_for_target::<T>();
        let mut a = b.start_answer(request.message(), Rcode::masked_from_int(spec.rcode)).map_err(|e| format!("start_answer: {e}"))?;
        a.push((&owner, 3600, A::from_octets(192, 0, 2, i as u8))).map_err(|e| format!("push A: {e}"))?;
        let want = match spec.size {
            0 => None,
            1 => Some(T::CAP - self.tsig_len),
            2 => Some(T::CAP - self.tsig_len + 1),
            _ => Some(T::CAP),
        };
        if let Some(want) = want {
            // one record with the root owner (1 + 10 octets before the data)
            let cur = a.as_slice().len();
            if want < cur + 11 {
                return Err(format!("cannot fill from {cur} to {want}"));
            }
            let data = vec![0x5Au8; want - cur - 11];
            let rd = domain::base::rdata::UnknownRecordData::from_octets(domain::base::iana::Rtype::NULL, data).map_err(|e| format!("filler: {e}"))?;
            a.push((Name::<Vec<u8>>::root_vec(), 0, rd)).map_err(|e| format!("push filler: {e}"))?;
            if a.as_slice().len() != want {
                return Err(format!("filled to {} instead of {want}", a.as_slice().len()));
            }
        }
        let mut add = a.additional();
        let h = add.header_mut();
        h.set_aa(spec.flags & 1 != 0);
        h.set_tc(spec.flags & 2 != 0);
        h.set_rd(spec.flags & 4 != 0);
        h.set_ra(spec.flags & 8 != 0);
        h.set_ad(spec.flags & 16 != 0);
        h.set_cd(spec.flags & 32 != 0);
        Ok(add)
    }
}

impl<T> Service<Vec<u8>, Option<K>> for FlagSvc<T>
where
    T: Cap + Composer + Default + Send + Sync + Unpin + 'static,
    T::AppendError: Into<octseq::builder::ShortBuf>,
{
    type Target = T;
    type Stream = futures_util::stream::Iter<std::vec::IntoIter<ServiceResult<T>>>;
    type Future = std::future::Ready<Self::Stream>;

    fn call(&self, request: SrvRequest<Vec<u8>, Option<K>>) -> Self::Future {
        let mut items: Vec<ServiceResult<T>> = Vec::new();
        let mut presigns = Vec::new();
        let mut err = None;
        if self.feedback == 2 {
            items.push(Ok(CallResult::feedback_only(ServiceFeedback::BeginTransaction)));
        }
        for (i, spec) in self.resps.iter().enumerate() {
            match self.build(&request, i, spec) {
                Ok(add) => {
                    presigns.push(add.as_slice().to_vec());
                    let mut cr = CallResult::new(add);
                    if self.feedback == 1 && i == 0 {
                        cr = cr.with_feedback(ServiceFeedback::BeginTransaction);
                    }
                    items.push(Ok(cr));
                }
                Err(e) => {
                    err = Some(e);
                    break;
                }
            }
        }
        if self.feedback == 2 {
            items.push(Ok(CallResult::feedback_only(ServiceFeedback::EndTransaction)));
        }
        let mut g = self.sh.lock().unwrap();
        g.calls += 1;
        g.keyed = request.metadata().is_some();
        g.presigns = presigns;
        g.build_err = err;
        std::future::ready(futures_util::stream::iter(items))
    }
}

#[derive(Clone, Debug)]
struct MwRespCase {
    keys: Vec<KeySpec>,
    tcp: bool,
    /// 0: Vec<u8>, 1: Lim512
    target: u8,
    /// as SvcPlan::feedback
    feedback: u8,
    resps: Vec<RespSpec>,
    /// header flags of the request: bit 0 RD, bit 1 CD
    req_flags: u8,
    shape: usize,
}
impl MwRespCase {
    fn json(&self) -> Value {
        json!({"kind": "middleware-resp", "keys": self.keys.iter().map(|k| k.json()).collect::<Vec<_>>(), "tcp": self.tcp, "target": self.target,
               "feedback": self.feedback, "resps": self.resps.iter().map(|r| r.json()).collect::<Vec<_>>(), "req_flags": self.req_flags, "shape": self.shape})
    }
    fn from_json(v: &Value) -> MwRespCase {
        MwRespCase {
            keys: v["keys"].as_array().unwrap().iter().map(KeySpec::from_json).collect(),
            tcp: v["tcp"].as_bool().unwrap(),
            target: v["target"].as_u64().unwrap() as u8,
            feedback: v["feedback"].as_u64().unwrap() as u8,
            resps: v["resps"].as_array().unwrap().iter().map(RespSpec::from_json).collect(),
            req_flags: v["req_flags"].as_u64().unwrap() as u8,
            shape: v["shape"].as_u64().unwrap() as usize,
        }
    }
}

type MwItem = Result<(Option<Vec<u8>>, Option<ServiceFeedback>), String>;

/// Run one request through the middleware in front of `FlagSvc<T>`.
fn drive_flag_svc<T>(svc: FlagSvc<T>, libs: &[K], req: SrvRequest<Vec<u8>, ()>) -> Result<Option<Vec<MwItem>>, String>
where
    T: Cap + Composer + Default + Send + Sync + Unpin + 'static,
    T::AppendError: Into<octseq::builder::ShortBuf>,
{
    fn drive<T: AsRef<[u8]>>(mut st: Pin<Box<dyn futures_util::Stream<Item = ServiceResult<T>> + Send + '_>>) -> Option<Vec<MwItem>> {
        let mut items: Vec<MwItem> = Vec::new();
        loop {
            match st.next().now_or_never() {
                None => return None,
                Some(None) => break,
                Some(Some(Ok(cr))) => {
                    let (resp, fb) = cr.into_inner();
                    items.push(Ok((resp.map(|r| r.as_slice().to_vec()), fb)));
                }
                Some(Some(Err(e))) => items.push(Err(format!("{e}"))),
            }
            if items.len() > 16 {
                break;
            }
        }
        Some(items)
    }
    guard(|| {
        if libs.len() == 1 {
            let mw = TsigMiddlewareSvc::<Vec<u8>, FlagSvc<T>, K, ()>::new(svc, libs[0].clone());
            mw.call(req).now_or_never().and_then(|st| drive(Box::pin(st)))
        } else {
            let mut h: HashMap<(KeyName, Algorithm), K> = HashMap::new();
            for k in libs {
                h.insert((k.name().clone(), k.algorithm()), k.clone());
            }
            let mw = TsigMiddlewareSvc::<Vec<u8>, FlagSvc<T>, HashMap<(KeyName, Algorithm), K>, ()>::new(svc, h);
            mw.call(req).now_or_never().and_then(|st| drive(Box::pin(st)))
        }
    })
}

/// One honest signed request through the middleware; what comes back is
/// given to the reference client.
fn middleware_resp_case(ctx: &Ctx, l: &mut Local, c: &MwRespCase) {
    let replay = || c.json();
    let refstore: Vec<RefKey> = c.keys.iter().map(|k| k.refkey()).collect();
    let libs: Vec<K> = match c.keys.iter().map(|k| k.lib()).collect::<Result<Result<Vec<_>, _>, _>>() {
        Ok(Ok(v)) => v,
        _ => return,
    };
    let rk = &refstore[0];
    if rk.sign < rk.min {
        // the honest client's own policy refuses the MACs this key makes
        return;
    }
    let now = real_now();
    let mut presign_req = shape(c.shape, false, 0x2B2B, 0, 7);
    presign_req[2] = (presign_req[2] & !0x01) | (c.req_flags & 1);
    presign_req[3] = (presign_req[3] & !0x10) | ((c.req_flags & 2) << 3);
    let (reqmsg, reqmac) = ref_sign(rk, &[], &presign_req, false, now, 300, 0, &[]);
    let qlen = qname().len() + 4;
    l.evals += 1;
    l.transitions += 1;
    l.states += 1;
    let sh = Arc::new(Mutex::new(FlagShared::default()));
    let tctx = if c.tcp { NonUdpTransportContext::new(None).into() } else { UdpTransportContext::new(None).into() };
    let request = SrvRequest::new("192.0.2.7:5353".parse().unwrap(), tokio::time::Instant::now(), Message::from_octets(reqmsg.clone()).unwrap(), tctx, ());
    let tsig_len = ref_tsig_rr_len(rk);
    let out = if c.target == 0 {
        drive_flag_svc(FlagSvc::<Vec<u8>> { resps: c.resps.clone(), feedback: c.feedback, tsig_len, sh: sh.clone(), _t: std::marker::PhantomData }, &libs, request)
    } else {
        drive_flag_svc(FlagSvc::<Lim512> { resps: c.resps.clone(), feedback: c.feedback, tsig_len, sh: sh.clone(), _t: std::marker::PhantomData }, &libs, request)
    };
    let t1 = real_now();
    let items = match out {
        Err(p) => {
            report_panic(ctx, "middleware", "call", "inner-response-flags-and-sizes", &p, &replay);
            return;
        }
        Ok(None) => {
            violate(ctx, "C11|middleware|call|stream-not-ready-with-a-ready-service", "the middleware stream did not complete although the service answered immediately", &replay);
            return;
        }
        Ok(Some(i)) => i,
    };
    let g = sh.lock().unwrap();
    if let Some(e) = &g.build_err {
        violate(ctx, "C11|machinery|inner-service-could-not-build-its-response", e, &replay);
        return;
    }
    if g.calls != 1 || !g.keyed {
        violate(ctx, "C11|middleware|call|honest-signed-request|expected passed on with its key|observed not", &format!("service called {} time(s), key in the metadata: {}", g.calls, g.keyed), &replay);
        return;
    }
    if let Some(Err(e)) = items.iter().find(|i| i.is_err()) {
        violate(ctx, "C11|middleware|call|inner-response-flags-and-sizes|expected every response signed or replaced|observed error item", &format!("the middleware produced an error item: {e}"), &replay);
        return;
    }
    let responses: Vec<&Vec<u8>> = items.iter().filter_map(|i| i.as_ref().ok().and_then(|(r, _)| r.as_ref())).collect();
    if responses.len() != c.resps.len() {
        violate(ctx, "C11|middleware|call|number-of-responses", &format!("{} responses from the service, {} from the middleware", c.resps.len(), responses.len()), &replay);
        return;
    }
    let sequence = c.feedback != 0;
    let mut rc = RefClient::new(rk, sequence, &reqmac);
    for (i, r) in responses.iter().enumerate() {
        let spec = &c.resps[i];
        let op = format!("{}({})", if !sequence { "single-response" } else if i == 0 { "stream-first-response" } else { "stream-subsequent-response" }, RESP_SIZES[spec.size as usize]);
        l.evals += 1;
        l.transitions += 1;
        l.distinct.push(fnv(format!("mwresp{:?}{}", c, i).as_bytes()));
        // keeps ID and question (RFC 1035; RFC 8945 5.3 for the replacement)
        if r.len() < 12 + qlen || get16(r, 0) != 0x2B2B || get16(r, 4) != 1 || r[12..12 + qlen] != presign_req[12..12 + qlen] || r[2] & 0x80 == 0 {
            violate(ctx, &format!("C11|middleware|{op}|response-header|expected response with the ID and question of the request|observed other"), "the response does not carry QR, the ID and the question of the request", &replay);
            return;
        }
        let (exp, commit) = rc.expect(r, t1);
        l.ref_cls[4][exp.primary as usize] += 1;
        if exp.primary != Cls::Accept {
            violate(
                ctx,
                &format!("C11|middleware|{op}|verification-by-an-independent-client|expected Accept|observed {}", CLS_NAMES[exp.primary as usize]),
                &format!("the response the middleware emitted for an honest signed request does not verify at an RFC 8945 client holding the request MAC ({}); inner response flags {:?} rcode {}", exp.cause, (0..6).filter(|b| spec.flags >> b & 1 == 1).map(|b| RESP_FLAGS[b]).collect::<Vec<_>>(), spec.rcode),
                &replay,
            );
            return;
        }
        match &commit {
            Commit::Signed { stripped, .. } => {
                if !spec.no_room() {
                    // there was room: the service's response, unchanged
                    if stripped[..] != g.presigns[i][..] {
                        violate(ctx, &format!("C11|middleware|{op}|signed-output|message-octets-changed"), "the verified response differs from what the service answered although the TSIG record fitted", &replay);
                        return;
                    }
                    l.c("middleware flags x sizes: signed response verifies and equals the service's");
                } else {
                    // RFC 8945 5.3: only the question and a TSIG, TC set, RCODE 0
                    let ok = stripped.len() == 12 + qlen && stripped[2] & 0x02 != 0 && stripped[3] & 0x0F == 0 && stripped[2] & 0x78 == presign_req[2] & 0x78
                        && get16(stripped, 6) == 0 && get16(stripped, 8) == 0 && get16(stripped, 10) == 0;
                    if !ok {
                        violate(ctx, &format!("C11|middleware|{op}|replacement-response|expected question+TSIG with TC and RCODE 0|observed other"), "RFC 8945 5.3: a response that leaves no room for the TSIG is replaced by question + TSIG, TC set, RCODE 0", &replay);
                        return;
                    }
                    l.c("middleware flags x sizes: no room, replacement verifies (question+TSIG, TC, RCODE 0)");
                }
            }
            Commit::Unsigned => {
                // an unsigned intermediate message of a stream (permitted up to 99 in a row)
                if r[..] != g.presigns[i][..] || spec.no_room() {
                    violate(ctx, &format!("C11|middleware|{op}|unsigned-intermediate|message-modified"), "an unsigned intermediate response differs from what the service answered", &replay);
                    return;
                }
                l.c("middleware flags x sizes: unsigned intermediate response");
            }
            Commit::None => return,
        }
        l.lib_cls[4][Cls::Accept as usize] += 1;
        rc.commit(&commit, r);
    }
    if sequence && !(rc.run == 0 && !rc.first) {
        violate(ctx, "C11|middleware|stream-last-response|expected signed|observed unsigned", "the last response of a stream must carry a TSIG", &replay);
    }
}

fn run_middleware_responses(ctx: &Arc<Ctx>, g: &Glob, wd: &Watchdog) -> Value {
    let quick = ctx.quick();
    let kvs = key_variants(quick, true);
    let counts = Mutex::new(BTreeMap::<&'static str, u64>::new());
    let bump = |k: &'static str, n: u64| *counts.lock().unwrap().entry(k).or_insert(0) += n;
    // none, every flag alone, all
    let few_flags: Vec<u8> = std::iter::once(0u8).chain((0..6).map(|b| 1u8 << b)).chain(std::iter::once(63u8)).collect();
    let all_flags: Vec<u8> = (0..64u8).collect();
    let rcodes: &[u8] = if quick { &[0, 3] } else { &[0, 2, 3, 5] };
    kvs.par_iter().for_each(|kv| {
        if kv.sign.unwrap_or(kv.alg.native()) < kv.min.unwrap_or(kv.alg.native()) {
            return;
        }
        wd.enter(|| json!({"kind": "job", "runner": "middleware-responses", "key": kv.json()}));
        let mut l = Local::default();
        let single = vec![kv.clone()];
        let multi = other_keys(kv);
        // (f) single response: the full product on the bounded target, the
        // flag menu {none, each alone, all} on the 65535-octet target
        for target in [1u8, 0] {
            let flags = if target == 1 || !quick { &all_flags } else { &few_flags };
            for &f in flags {
                for &rcode in rcodes {
                    for size in 0..4u8 {
                        for tcp in [false, true] {
                            // the replacement is made from the request: vary it where it is used
                            let reqs: &[u8] = if size >= 2 || !quick { &[1, 0, 3] } else { &[1] };
                            for &req_flags in reqs {
                                let stores: &[&Vec<KeySpec>] = if !quick || (target == 1 && few_flags.contains(&f) && req_flags == 1) { &[&single, &multi] } else { &[&single] };
                                for keys in stores {
                                    middleware_resp_case(ctx, &mut l, &MwRespCase { keys: (*keys).clone(), tcp, target, feedback: 0, resps: vec![RespSpec { flags: f, rcode, size }], req_flags, shape: if f % 2 == 0 { 0 } else { 2 } });
                                    bump(if target == 1 { "single response, bounded target: flags x rcode x size x transport x request flags" } else { "single response, 65535-octet target: flags x rcode x size x transport x request flags" }, 1);
                                }
                            }
                        }
                    }
                }
            }
        }
        // (g) streams of 3 responses: every size pattern x flag menu x announcement form
        for target in [1u8, 0] {
            let patterns: Vec<[u8; 3]> = if target == 1 || !quick {
                (0..64u8).map(|p| [p & 3, (p >> 2) & 3, (p >> 4) & 3]).collect()
            } else {
                vec![[1, 0, 0], [2, 0, 0], [0, 2, 0], [0, 0, 2], [3, 2, 1], [2, 2, 2]]
            };
            let flags: Vec<u8> = if target == 1 { few_flags.clone() } else if quick { vec![0, 1, 63] } else { few_flags.clone() };
            for p in &patterns {
                for &f in &flags {
                    for feedback in [1u8, 2] {
                        for tcp in if quick { vec![true] } else { vec![true, false] } {
                            // the flags rotate over the responses so that neighbours differ
                            let resps: Vec<RespSpec> = (0..3).map(|i| RespSpec { flags: ((f << i) | (f >> (6 - i))) & 63, rcode: if i == 2 { rcodes[1] } else { 0 }, size: p[i] }).collect();
                            middleware_resp_case(ctx, &mut l, &MwRespCase { keys: if p[0] % 2 == 0 { single.clone() } else { multi.clone() }, tcp, target, feedback, resps, req_flags: 1, shape: 0 });
                            bump(if target == 1 { "stream of 3, bounded target: size patterns x flags x announcement" } else { "stream of 3, 65535-octet target: size patterns x flags x announcement" }, 1);
                        }
                    }
                }
            }
        }
        g.merge(l);
        wd.leave();
    });
    g_sample(|| json!({"runner": "middleware-responses", "what": "TsigMiddlewareSvc::call over a service that answers with chosen header flags, rcode and size; every emitted response is verified by the reference client (RFC 8945 5.3) holding the request MAC, in order; ID, QR and question must be those of the request; where the TSIG fits the verified response equals the service's, where it does not the replacement is question + TSIG with TC and RCODE 0 (other header flags of the replacement are left to the implementation)",
        "flags": RESP_FLAGS, "sizes": RESP_SIZES, "targets": [<Vec<u8> as Cap>::NAME, <Lim512 as Cap>::NAME], "rcodes": rcodes,
        "request_flags": ["RD", "none", "RD+CD"]}));
    json!(counts.into_inner().unwrap())
}

// ---------------------------------------------------------------------
// Remaining entry points: Key::generate, a plain `Key` as key and store
// type, the Arc<HashMap<_, Key>> store, Algorithm <-> text
// ---------------------------------------------------------------------

fn server_verdict_with<S>(store: &S, msg: &[u8], now: u64) -> Result<(Cls, Vec<u8>), String>
where
    S: domain::tsig::KeyStore,
{
    let mut m = Message::from_octets(msg.to_vec()).unwrap();
    guard(|| match ServerTransaction::request(store, &mut m, Time48::from_u64(now)) {
        Ok(Some(_)) => Cls::Accept,
        Ok(None) => Cls::Unsigned,
        Err(e) => cls_of_code(e.error().to_int()),
    })
    .map(|c| (c, m.as_slice().to_vec()))
}

fn key_misc_case(ctx: &Ctx, l: &mut Local, alg: Alg, mn: Option<usize>, sg: Option<usize>) {
    let replay = || json!({"kind": "key_misc", "alg": alg.idx(), "min": mn, "sign": sg});
    l.evals += 1;
    l.transitions += 1;
    l.states += 1;
    let inb = |x: Option<usize>| x.map(|x| x >= alg.floor() && x <= alg.native()).unwrap_or(true);
    let want = inb(mn) && inb(sg);
    let rng = ring::rand::SystemRandom::new();
    let name = "Generated-Key.example";
    let r = guard(|| Key::generate(alg.lib(), &rng, KeyName::from_str(&format!("{name}.")).unwrap(), mn, sg).map_err(|e| format!("{e:?}")));
    let (key, secret) = match r {
        Err(p) => return report_panic(ctx, "key", "generate", "bounds", &p, &replay),
        Ok(r) => {
            if r.is_ok() != want {
                violate(ctx, &format!("C11|key|generate|length-in-rfc-range={want}|observed ok={}", r.is_ok()), &format!("Key::generate({alg:?}, {mn:?}, {sg:?}) -> ok={}", r.is_ok()), &replay);
                return;
            }
            match r {
                Ok(x) => x,
                Err(_) => return,
            }
        }
    };
    if secret.len() != alg.native() {
        violate(ctx, "C11|key|generate|secret-length", &format!("generated secret has {} octets", secret.len()), &replay);
    }
    l.distinct.push(fnv(format!("gen{alg:?}{mn:?}{sg:?}").as_bytes()));
    // the exported octets make the same key for the reference
    let spec = KeySpec { alg, secret: secret.to_vec(), name: name.into(), min: mn, sign: sg };
    let rk = spec.refkey();
    let presign = shape(3, false, 0x0909, 0, 1);
    // the plain `Key` as key type (AsRef<Key> for Key) and as single-key store
    let mut b = builder_from(&presign);
    l.transitions += 1;
    let tx = match guard(|| ClientTransaction::request(key.clone(), &mut b, Time48::from_u64(T0)).map_err(|e| format!("{e:?}"))) {
        Ok(Ok(tx)) => tx,
        Ok(Err(e)) => {
            violate(ctx, "C11|client-transaction|request|push-error", &e, &replay);
            return;
        }
        Err(p) => return report_panic(ctx, "client-transaction", "request(default fudge)", "", &p, &replay),
    };
    let signed = b.as_slice().to_vec();
    let reqmac = match check_signed_by_lib(ctx, "client-transaction", "request(generated key, default fudge)", &rk, &[], None, &presign, &signed, false, T0, 300, &replay) {
        Some(m) => m,
        None => return,
    };
    l.c("generated key: request MAC equals reference");
    // stores: the key itself, and Arc<HashMap<(name, algorithm), Key>>
    let mut h: HashMap<(KeyName, Algorithm), Key> = HashMap::new();
    h.insert((key.name().clone(), key.algorithm()), key.clone());
    let arcmap = Arc::new(h);
    let mut msgs = vec![("honest".to_string(), signed.clone())];
    msgs.extend(structural(&signed, &rk, &[], false, T0 + 1).into_iter().filter(|(n, _)| !n.starts_with("other-data-") && !n.starts_with("mac-length")));
    for (mname, m) in &msgs {
        let (exp, acc) = ref_server(&[rk.clone()], m, T0 + 1);
        for (sname, r) in [("Key", server_verdict_with(&key, m, T0 + 1)), ("Arc<HashMap<_,Key>>", server_verdict_with(&arcmap, m, T0 + 1))] {
            l.evals += 1;
            l.transitions += 1;
            match r {
                Err(p) => report_panic(ctx, "server", &format!("request[store={sname}]"), &exp.cause, &p, &replay),
                Ok((got, after)) => {
                    l.ref_cls[0][exp.primary as usize] += 1;
                    l.lib_cls[0][got as usize] += 1;
                    let ok = judge(ctx, "server", &format!("request[store={sname}]"), &exp, got, mname, &replay);
                    if ok && got == Cls::Accept {
                        if let Some((_, _, stripped)) = &acc {
                            check_restored(ctx, "server", &format!("request[store={sname}]"), &after, stripped, l, &replay);
                        }
                    }
                }
            }
        }
    }
    // the answer, signed by the reference, back into the transaction that holds a plain Key
    let ans_presign = shape(1, true, 0x0909, 0, 2);
    let (ans, _) = ref_sign(&rk, &mac_prefix(&reqmac), &ans_presign, false, T0 + 2, 300, 0, &[]);
    let rc = RefClient::new(&rk, false, &reqmac);
    for (mname, m) in std::iter::once(("honest".to_string(), ans.clone())).chain(structural(&ans, &rk, &mac_prefix(&reqmac), false, T0 + 2).into_iter().filter(|(n, _)| !n.starts_with("other-data-") && !n.starts_with("mac-length"))) {
        let (exp, _) = rc.expect(&m, T0 + 2);
        let mut msg = Message::from_octets(m.clone()).unwrap();
        l.evals += 1;
        l.transitions += 1;
        match guard(|| tx.answer(&mut msg, Time48::from_u64(T0 + 2))) {
            Err(p) => report_panic(ctx, "client-transaction", "answer[K=Key]", &exp.cause, &p, &replay),
            Ok(r) => {
                let got = match &r {
                    Ok(()) => Cls::Accept,
                    Err(e) => cls_of_validation(e),
                };
                l.ref_cls[1][exp.primary as usize] += 1;
                l.lib_cls[1][got as usize] += 1;
                judge(ctx, "client-transaction", "answer[K=Key]", &exp, got, &mname, &replay);
            }
        }
    }
}

fn run_key_misc(ctx: &Arc<Ctx>, g: &Glob) {
    let mut cases = Vec::new();
    for alg in ALGS {
        let opts = [None, Some(alg.floor() - 1), Some(alg.floor()), Some(alg.native()), Some(alg.native() + 1)];
        for mn in opts {
            for sg in opts {
                cases.push((alg, mn, sg));
            }
        }
    }
    cases.par_iter().for_each(|&(alg, mn, sg)| {
        let mut l = Local::default();
        key_misc_case(ctx, &mut l, alg, mn, sg);
        g.merge(l);
    });
    // Algorithm <-> text (configuration files name the algorithm this way)
    let mut l = Local::default();
    for alg in ALGS {
        l.evals += 1;
        let text = String::from_utf8(alg.label().to_vec()).unwrap();
        let parsed = Algorithm::from_str(&text).ok();
        let shown = alg.lib().to_string();
        // the text form is a domain name: letter case and a trailing dot do not change which name it is
        let same_name = shown.trim_end_matches('.').eq_ignore_ascii_case(&text);
        if parsed != Some(alg.lib()) || !same_name || alg.lib().native_len() != alg.native() {
            violate(ctx, "C11|algorithm|text-round-trip", &format!("{text}: parsed {parsed:?}, displayed {shown}, native_len {}", alg.lib().native_len()), &|| json!({"kind": "algorithm_text", "alg": alg.idx()}));
        }
    }
    // only texts that name no TSIG algorithm at all: the absolute spelling "hmac-sha256." is the same
    // domain name, and hmac-md5 / hmac-sha224 are registered algorithms a library may come to support
    for bad in ["", "sha256", "hmac-sha257", "hmac-sha256x", "hmac-sha256.example"] {
        l.evals += 1;
        if Algorithm::from_str(bad).is_ok() {
            violate(ctx, "C11|algorithm|from_str-accepts-unknown-name", bad, &|| json!({"kind": "algorithm_text", "text": bad}));
        }
    }
    g.merge(l);
}

// =====================================================================
// SIGNING ON THE USER'S BUILDER
//   target type x name compressor of the message being signed x key name
//   relative to the names of the message x message shape x the five signing
//   entry points x histories of signing attempts that fail for lack of room
//   (push limit / capacity of a bounded buffer) before one succeeds on the
//   SAME builder (limit lifted or raised, additional section rewound,
//   authority and additional section dropped).
//
//   Oracle: a failed attempt leaves the message octets (and the stream
//   frame) exactly as they were; the message signed at last parses under the
//   independent reader (pointers strictly backwards), its TSIG owner
//   decompresses to the key name, its MAC equals the RFC 8945 reference over
//   the octets the builder held before that attempt, and the other side
//   (real machine judged by the reference machine) accepts it; a sequence
//   goes on with the MAC of the message that was sent, not of one that
//   was not.
// =====================================================================

use bytes::BytesMut;
use domain::base::iana::{Class, Rtype};
use domain::base::message_builder::{HashCompressor, StreamTarget, TreeCompressor};
use domain::base::Ttl;
use domain::rdata::Ns;
use octseq::array::Array;
use octseq::builder::ShortBuf;

/// A buffer of a capacity chosen at run time (what `octseq::Array<N>` is for a
/// capacity chosen at compile time): appends all or nothing.
#[derive(Clone, Debug)]
struct Bounded {
    buf: Vec<u8>,
    cap: usize,
}
impl OctetsBuilder for Bounded {
    type AppendError = ShortBuf;
    fn append_slice(&mut self, s: &[u8]) -> Result<(), Self::AppendError> {
        if self.buf.len() + s.len() > self.cap {
            return Err(ShortBuf);
        }
        self.buf.extend_from_slice(s);
        Ok(())
    }
}
impl Truncate for Bounded {
    fn truncate(&mut self, len: usize) {
        self.buf.truncate(len)
    }
}
impl AsRef<[u8]> for Bounded {
    fn as_ref(&self) -> &[u8] {
        &self.buf
    }
}
impl AsMut<[u8]> for Bounded {
    fn as_mut(&mut self) -> &mut [u8] {
        &mut self.buf
    }
}
impl Composer for Bounded {}

/// A target a user may hand to `MessageBuilder::from_target`.
trait SignTarget: Composer + Sized {
    /// `cap`: message capacity, for the targets whose capacity is chosen at run time.
    fn fresh(cap: usize) -> Option<Self>;
    /// Targets that frame the message: the frame as it would go out.
    fn frame(&self) -> Option<Vec<u8>> {
        None
    }
}
impl SignTarget for Vec<u8> {
    fn fresh(_: usize) -> Option<Self> {
        Some(Vec::new())
    }
}
impl SignTarget for BytesMut {
    fn fresh(_: usize) -> Option<Self> {
        Some(BytesMut::new())
    }
}
impl SignTarget for Array<1024> {
    fn fresh(_: usize) -> Option<Self> {
        Some(Array::new())
    }
}
impl SignTarget for Bounded {
    fn fresh(cap: usize) -> Option<Self> {
        Some(Bounded { buf: Vec::new(), cap })
    }
}
impl SignTarget for StreamTarget<Vec<u8>> {
    fn fresh(_: usize) -> Option<Self> {
        Some(StreamTarget::new_vec())
    }
    fn frame(&self) -> Option<Vec<u8>> {
        Some(self.as_stream_slice().to_vec())
    }
}
impl SignTarget for StreamTarget<Bounded> {
    fn fresh(cap: usize) -> Option<Self> {
        StreamTarget::new(Bounded { buf: Vec::new(), cap: cap.saturating_add(2) }).ok()
    }
    fn frame(&self) -> Option<Vec<u8>> {
        Some(self.as_stream_slice().to_vec())
    }
}
impl<T: SignTarget> SignTarget for StaticCompressor<T> {
    fn fresh(cap: usize) -> Option<Self> {
        T::fresh(cap).map(StaticCompressor::new)
    }
    fn frame(&self) -> Option<Vec<u8>> {
        self.as_target().frame()
    }
}
impl<T: SignTarget> SignTarget for TreeCompressor<T> {
    fn fresh(cap: usize) -> Option<Self> {
        T::fresh(cap).map(TreeCompressor::new)
    }
    fn frame(&self) -> Option<Vec<u8>> {
        self.as_target().frame()
    }
}
impl<T: SignTarget> SignTarget for HashCompressor<T> {
    fn fresh(cap: usize) -> Option<Self> {
        T::fresh(cap).map(HashCompressor::new)
    }
    fn frame(&self) -> Option<Vec<u8>> {
        self.as_target().frame()
    }
}

const SIGN_TARGETS: [&str; 6] = [
    "Vec<u8>",
    "BytesMut",
    "octseq::Array<1024>",
    "bounded buffer (capacity chosen per case)",
    "StreamTarget<Vec<u8>>",
    "StreamTarget<bounded buffer>",
];
const SIGN_COMPS: [&str; 4] = ["no compressor", "StaticCompressor", "TreeCompressor", "HashCompressor"];
const SIGN_OPS: [&str; 5] = [
    "ClientTransaction::request",
    "ClientSequence::request",
    "ServerTransaction::answer",
    "ServerSequence::answer (first)",
    "ServerSequence::answer (subsequent)",
];
const SIGN_SHAPES: [&str; 3] = ["question only", "question + answer, authority (NS) and additional records", "question + OPT"];
/// The names of the message built through the builder interface.
const SIGN_QNAME: &str = "host.zone.example";
const SIGN_ZONE: &str = "zone.example";
const SIGN_NS: &str = "ns.zone.example";
/// Key names by their relation to those names; "<alg>" is the algorithm name of the key.
const SIGN_KEY_NAMES: [(&str, &str); 7] = [
    ("tsig-key.other", "absent from the message, shares nothing"),
    ("host.zone.example", "equal to the question name"),
    ("key.zone.example", "shares a suffix with the names of the message"),
    ("HOST.Zone.EXAMPLE", "differs from the question name in case only"),
    ("ns.zone.example", "equal to the owner of the first additional record"),
    ("example", "an ancestor of the names of the message"),
    ("<alg>", "equal to the algorithm name"),
];

fn bounded_target(t: usize) -> bool {
    t == 3 || t == 5
}

/// Kinds of steps of a history; every step is followed by a signing attempt.
const ST_NONE: u8 = 0; // nothing (sign right away)
const ST_LIMIT: u8 = 1; // set_push_limit(length of the message as first built + arg)
const ST_CLEAR: u8 = 2; // clear_push_limit()
const ST_REWIND: u8 = 3; // AdditionalBuilder::rewind()
const ST_REOPEN: u8 = 4; // .answer().additional(): drops authority and additional records
const STEP_NAMES: [&str; 5] = ["sign", "set_push_limit(len+arg), sign", "clear_push_limit, sign", "rewind additional, sign", "drop authority+additional, sign"];

#[derive(Clone, Debug)]
struct SignCase {
    key: KeySpec,
    target: usize,
    comp: usize,
    shape: usize,
    op: usize,
    /// capacity of a bounded target: length of the message as built + this
    cap: Option<i64>,
    steps: Vec<(u8, i64)>,
}

impl SignCase {
    fn json(&self) -> Value {
        json!({"kind": "sign-history", "key": self.key.json(), "target": self.target, "comp": self.comp, "shape": self.shape,
               "op": self.op, "cap": self.cap, "steps": self.steps.iter().map(|s| json!([s.0, s.1])).collect::<Vec<_>>(),
               "reading": {"target": SIGN_TARGETS[self.target], "compressor": SIGN_COMPS[self.comp], "shape": SIGN_SHAPES[self.shape], "entry point": SIGN_OPS[self.op],
                           "steps": self.steps.iter().map(|s| STEP_NAMES[s.0 as usize]).collect::<Vec<_>>()}})
    }
    fn from_json(v: &Value) -> SignCase {
        SignCase {
            key: KeySpec::from_json(&v["key"]),
            target: v["target"].as_u64().unwrap() as usize,
            comp: v["comp"].as_u64().unwrap() as usize,
            shape: v["shape"].as_u64().unwrap() as usize,
            op: v["op"].as_u64().unwrap() as usize,
            cap: v["cap"].as_i64(),
            steps: v["steps"].as_array().unwrap().iter().map(|s| (s[0].as_u64().unwrap() as u8, s[1].as_i64().unwrap())).collect(),
        }
    }
    fn role(&self) -> &'static str {
        ["client-transaction", "client-sequence", "server", "server-sequence", "server-sequence"][self.op]
    }
    fn opname(&self) -> &'static str {
        ["request", "request", "answer", "answer-first", "answer-subsequent"][self.op]
    }
}

/// A message made through the builder interface, so that the compressor (if
/// any) knows its names. `None`: it did not fit (bounded target).
fn build_for_signing<T: SignTarget>(cap: usize, shape: usize, response: bool, id: u16) -> Option<AdditionalBuilder<T>> {
    let name = |s: &str| Name::<Vec<u8>>::from_str(&format!("{s}.")).unwrap();
    let (qn, zone, ns) = (name(SIGN_QNAME), name(SIGN_ZONE), name(SIGN_NS));
    let mut mb = MessageBuilder::from_target(T::fresh(cap)?).ok()?;
    mb.header_mut().set_id(id);
    mb.header_mut().set_rd(true);
    if response {
        mb.header_mut().set_qr(true);
        mb.header_mut().set_aa(true);
    }
    let mut q = mb.question();
    q.push((&qn, Rtype::A)).ok()?;
    Some(match shape {
        1 => {
            let mut an = q.answer();
            an.push((&qn, Class::IN, Ttl::from_secs(300), A::from_octets(192, 0, 2, 1))).ok()?;
            an.push((&qn, Class::IN, Ttl::from_secs(300), A::from_octets(192, 0, 2, 2))).ok()?;
            let mut au = an.authority();
            au.push((&zone, Class::IN, Ttl::from_secs(3600), Ns::new(ns.clone()))).ok()?;
            let mut ad = au.additional();
            ad.push((&ns, Class::IN, Ttl::from_secs(3600), A::from_octets(192, 0, 2, 53))).ok()?;
            ad
        }
        2 => {
            let mut ad = q.additional();
            ad.opt(|o| {
                o.set_udp_payload_size(1232);
                Ok(())
            })
            .ok()?;
            ad
        }
        _ => q.additional(),
    })
}

/// Who signs. The server sequence is the caller's: it lives through the failed attempts.
enum Signer<'a> {
    ClientTx(&'a K),
    ClientSeq(&'a K),
    ServerTx(&'a ServerTransaction<K>),
    ServerSeq(&'a mut ServerSequence<K>),
}

struct Signed {
    /// message octets the builder held before the attempt that succeeded
    presign: Vec<u8>,
    signed: Vec<u8>,
    now: u64,
    client: Option<LibClient>,
    failed: usize,
}

const SIGN_T: u64 = T0 + 10;

/// Run the steps of `c` on one builder until a signing attempt succeeds.
fn run_sign_history<T: SignTarget>(ctx: &Ctx, l: &mut Local, c: &SignCase, signer: &mut Signer) -> Option<Signed> {
    let replay = || c.json();
    let (role, op) = (c.role(), c.opname());
    let response = c.op >= 2;
    let id = 0x5150u16;
    let len0 = match build_for_signing::<T>(65535, c.shape, response, id) {
        Some(b) => b.as_slice().len(),
        None => {
            eprintln!("MACHINERY: the message to be signed cannot be built on {}", SIGN_TARGETS[c.target]);
            std::process::exit(2);
        }
    };
    let at = |d: i64| (len0 as i64 + d).max(0) as usize;
    let mut b = match build_for_signing::<T>(c.cap.map(at).unwrap_or(65535), c.shape, response, id) {
        Some(b) => b,
        None => {
            l.c("sign-history: message does not fit the bounded target (no case)");
            return None;
        }
    };
    let mut failed = 0usize;
    for (i, &(kind, arg)) in c.steps.iter().enumerate() {
        match kind {
            ST_LIMIT => b.set_push_limit(at(arg)),
            ST_CLEAR => b.clear_push_limit(),
            ST_REWIND => b.rewind(),
            ST_REOPEN => b = b.answer().additional(),
            _ => {}
        }
        let before = b.as_slice().to_vec();
        let frame_before = b.as_target().frame();
        let now = SIGN_T + i as u64;
        let t = Time48::from_u64(now);
        l.transitions += 1;
        l.states += 1;
        let r = guard(|| match signer {
            Signer::ClientTx(k) => ClientTransaction::request((*k).clone(), &mut b, t).map(|c| Some(LibClient::Tx(c))).map_err(|_| ()),
            Signer::ClientSeq(k) => ClientSequence::request((*k).clone(), &mut b, t).map(|c| Some(LibClient::Seq(c))).map_err(|_| ()),
            Signer::ServerTx(tx) => (*tx).clone().answer(&mut b, t).map(|_| None).map_err(|_| ()),
            Signer::ServerSeq(sq) => sq.answer(&mut b, t).map(|_| None).map_err(|_| ()),
        });
        match r {
            Err(p) => {
                report_panic(ctx, role, op, "signing-on-the-user's-builder", &p, &replay);
                return None;
            }
            Ok(Err(())) => {
                failed += 1;
                l.c("sign-history: attempt refused for lack of room");
                if b.as_slice() != &before[..] || b.as_target().frame() != frame_before {
                    violate(ctx, &format!("C11|{role}|{op}|signing-attempt-refused|message-in-the-builder-changed"),
                        &format!("{role}.{op}: signing failed for lack of room but the builder holds {} where it held {}", hex(b.as_slice()), hex(&before)), &replay);
                    return None;
                }
            }
            Ok(Ok(client)) => {
                let signed = b.as_slice().to_vec();
                if let Some(f) = b.as_target().frame() {
                    let mut want = (signed.len() as u16).to_be_bytes().to_vec();
                    want.extend_from_slice(&signed);
                    if f != want {
                        violate(ctx, &format!("C11|{role}|{op}|signed-output|stream-frame-is-not-length+message"),
                            &format!("{role}.{op}: stream frame {} for message {}", hex(&f), hex(&signed)), &replay);
                        return None;
                    }
                }
                return Some(Signed { presign: before, signed, now, client, failed });
            }
        }
    }
    // all steps used up without a signature
    let last = c.steps.last().map(|s| s.0).unwrap_or(ST_NONE);
    if c.cap.is_none() && (last == ST_CLEAR || c.steps.iter().all(|s| s.0 != ST_LIMIT)) {
        violate(ctx, &format!("C11|{role}|{op}|signing-refused-although-there-is-room"),
            &format!("{role}.{op}: no push limit, target {} far from full, still no signature after {failed} attempt(s)", SIGN_TARGETS[c.target]), &replay);
    } else {
        l.c("sign-history: no room to the end (no signature, nothing sent)");
    }
    None
}

fn sign_by_comp<B: SignTarget>(ctx: &Ctx, l: &mut Local, c: &SignCase, s: &mut Signer) -> Option<Signed> {
    match c.comp {
        0 => run_sign_history::<B>(ctx, l, c, s),
        1 => run_sign_history::<StaticCompressor<B>>(ctx, l, c, s),
        2 => run_sign_history::<TreeCompressor<B>>(ctx, l, c, s),
        _ => run_sign_history::<HashCompressor<B>>(ctx, l, c, s),
    }
}

fn sign_dispatch(ctx: &Ctx, l: &mut Local, c: &SignCase, s: &mut Signer) -> Option<Signed> {
    match c.target {
        0 => sign_by_comp::<Vec<u8>>(ctx, l, c, s),
        1 => sign_by_comp::<BytesMut>(ctx, l, c, s),
        2 => sign_by_comp::<Array<1024>>(ctx, l, c, s),
        3 => sign_by_comp::<Bounded>(ctx, l, c, s),
        4 => sign_by_comp::<StreamTarget<Vec<u8>>>(ctx, l, c, s),
        _ => sign_by_comp::<StreamTarget<Bounded>>(ctx, l, c, s),
    }
}

/// What exists before the signing under test: the key and, for the server
/// entry points, the machines that verified an honest request (signed by the
/// real client on a plain builder, checked against the reference).
struct SignSetup {
    k: K,
    cs: Option<ClientScen>,
    tx: Option<ServerTransaction<K>>,
    sq: Option<ServerSequence<K>>,
    /// MAC (as on the wire) digested before the answer under test
    prior: Vec<u8>,
}

impl SignSetup {
    fn new(ctx: &Ctx, l: &mut Local, kv: &KeySpec, op: usize) -> Option<SignSetup> {
        let k = kv.lib().ok()?.ok()?;
        if op < 2 {
            return Some(SignSetup { k, cs: None, tx: None, sq: None, prior: Vec::new() });
        }
        let id = 0x5150u16;
        let seq = op >= 3;
        let (mut cs, req) = ClientScen::start(ctx, l, kv, seq, &shape(0, false, id, 0, 11), T0, 300)?;
        let ssc = ServerScen::new(vec![kv.clone()], false, seq, T0, Vec::new(), false);
        let out = eval_server(ctx, l, &ssc, &req, "honest", false);
        let (_, reqmac) = out.acc?;
        let mut su = SignSetup { k, cs: None, tx: out.tx, sq: out.sq, prior: reqmac };
        if op == 4 {
            // the first answer of the sequence: plain builder, as everywhere else
            let presign = shape(1, true, id, 0, 12);
            let mut b = builder_from(&presign);
            let sq = su.sq.as_mut()?;
            let replay = || json!({"kind": "sign-history-setup", "key": kv.json(), "op": op});
            guard(|| sq.answer(&mut b, Time48::from_u64(T0 + 1)).ok()).ok()??;
            let mac = check_signed_by_lib(ctx, "server-sequence", "answer-first", &kv.refkey(), &mac_prefix(&su.prior), None, &presign, b.as_slice(), false, T0 + 1, 300, &replay)?;
            let (_, same) = cs.step(ctx, l, b.as_slice(), T0 + 2, "honest-library-server-sequence");
            if !same {
                return None;
            }
            su.prior = mac;
        }
        su.cs = Some(cs);
        Some(su)
    }
}

fn sign_history_case(ctx: &Ctx, l: &mut Local, c: &SignCase, su: &SignSetup) {
    l.evals += 1;
    let replay = || c.json();
    let rk = c.key.refkey();
    let (role, opname) = (c.role(), c.opname());
    let mut sq = su.sq.clone();
    let out = {
        let mut signer = match c.op {
            0 => Signer::ClientTx(&su.k),
            1 => Signer::ClientSeq(&su.k),
            2 => match su.tx.as_ref() {
                Some(tx) => Signer::ServerTx(tx),
                None => return,
            },
            _ => match sq.as_mut() {
                Some(sq) => Signer::ServerSeq(sq),
                None => return,
            },
        };
        sign_dispatch(ctx, l, c, &mut signer)
    };
    let out = match out {
        Some(o) => o,
        None => return,
    };
    l.c(if out.failed == 0 { "sign-history: signed at the first attempt" } else { "sign-history: signed on the same builder after refused attempt(s)" });
    let history = if out.failed == 0 { "first-attempt" } else { "later-attempt-on-the-same-builder" };
    let op = format!("{opname}|{}|{history}", SIGN_COMPS[c.comp]);
    // 1. well-formed for a reader that knows nothing of the library
    match wire::read_message(&out.signed) {
        Ok(m) if m.end == out.signed.len() => {}
        r => {
            violate(ctx, &format!("C11|{role}|{op}|signed-output|not-well-formed-for-an-independent-reader"),
                &format!("{role}.{opname}: the signed message {} does not parse (names, pointers strictly backwards, counts, end): {:?}", hex(&out.signed), r.map(|m| m.end)), &replay);
            return;
        }
    }
    // 2. the TSIG record and its MAC against RFC 8945
    let prefix = if c.op < 2 { Vec::new() } else { mac_prefix(&su.prior) };
    let mac = match check_signed_by_lib(ctx, role, &op, &rk, &prefix, None, &out.presign, &out.signed, c.op == 4, out.now, 300, &replay) {
        Some(m) => m,
        None => return,
    };
    l.c("sign-history: MAC equals reference");
    l.distinct.push(fnv(format!("sh{}|{}|{}|{}|{}|{:?}|{:?}", c.key.tag(), c.target, c.comp, c.shape, c.op, c.cap, c.steps).as_bytes()));
    // 3. the other side
    let id = get16(&out.signed, 0);
    if c.op < 2 {
        let seq = c.op == 1;
        let ssc = ServerScen::new(vec![c.key.clone()], false, seq, out.now, shape(1, true, id, 0, 13), false);
        let o = eval_server(ctx, l, &ssc, &out.signed, "honest(signed-on-the-user's-builder)", true);
        if let (Some(ans), Some(mut lib)) = (o.answer, out.client) {
            // the client machine handed out by the attempt that succeeded
            let mut rc = RefClient::new(&rk, seq, &mac);
            client_eval_with(ctx, l, &mut lib, &mut rc, &ans, out.now + 1, "honest(answer to a request signed on the user's builder)", &replay);
        }
    } else if let Some(cs) = su.cs.as_ref() {
        let (mut lib, mut rc) = (cs.lib.clone(), cs.rc.clone());
        let (_, same) = client_eval_with(ctx, l, &mut lib, &mut rc, &out.signed, out.now + 1, "honest(signed-on-the-user's-builder)", &replay);
        if same && c.op >= 3 {
            // the sequence goes on from the message that was sent
            let presign = shape(1, true, id, 0, 14);
            let mut b = builder_from(&presign);
            let now = out.now + 2;
            let sq = sq.as_mut().unwrap();
            l.transitions += 1;
            l.states += 1;
            match guard(|| sq.answer(&mut b, Time48::from_u64(now)).map_err(|_| ())) {
                Err(p) => report_panic(ctx, role, "answer-after", "signing-on-the-user's-builder", &p, &replay),
                Ok(Err(())) => {
                    violate(ctx, "C11|server-sequence|answer|push-error", "answer() on a plain builder failed", &replay);
                }
                Ok(Ok(())) => {
                    let op2 = format!("answer-after-{opname}|{history}");
                    if check_signed_by_lib(ctx, role, &op2, &rk, &mac_prefix(&mac), None, &presign, b.as_slice(), true, now, 300, &replay).is_some() {
                        l.c("sign-history: next answer of the sequence equals reference");
                        client_eval_with(ctx, l, &mut lib, &mut rc, b.as_slice(), now + 1, "honest(next answer of the sequence)", &replay);
                    }
                }
            }
        }
    }
}

/// Amounts of room (octets beyond the message as built) worth a look: none, a
/// pointer, the key name, the record without / with the key name, each +-1.
fn room_menu(rk: &RefKey, all: bool) -> Vec<i64> {
    let t = ref_tsig_rr_len(rk) as i64;
    let n = wire::to_wire(&rk.name).len() as i64;
    let mut v: Vec<i64> = if all { (0..=t + 2).collect() } else { vec![0, 2, n, t - n + 1, t - n + 2, t - n + 3, t - 1, t, t + 1] };
    v.sort();
    v.dedup();
    v
}

fn sign_histories(rk: &RefKey, target: usize, shape: usize, quick: bool) -> Vec<(Option<i64>, Vec<(u8, i64)>)> {
    // the full sweep for the keys with a full-length MAC (one record length per algorithm)
    let menu = room_menu(rk, !quick && rk.sign == rk.alg.native());
    let small = room_menu(rk, false);
    let big = ref_tsig_rr_len(rk) as i64 + 64;
    let mut v = vec![(None, vec![(ST_NONE, 0)])];
    for &d in &menu {
        v.push((None, vec![(ST_LIMIT, d), (ST_CLEAR, 0)]));
        v.push((None, vec![(ST_LIMIT, d), (ST_LIMIT, big)]));
        if shape != 0 {
            v.push((None, vec![(ST_LIMIT, d), (ST_REWIND, 0), (ST_CLEAR, 0)]));
        }
        if shape == 1 {
            v.push((None, vec![(ST_LIMIT, d), (ST_REOPEN, 0), (ST_CLEAR, 0)]));
        }
        if bounded_target(target) {
            v.push((Some(d), vec![(ST_NONE, 0)]));
            if shape != 0 {
                v.push((Some(d), vec![(ST_NONE, 0), (ST_REWIND, 0)]));
            }
            if shape == 1 {
                v.push((Some(d), vec![(ST_NONE, 0), (ST_REOPEN, 0)]));
            }
        }
    }
    if !quick {
        for &d1 in &small {
            for &d2 in &small {
                if d1 != d2 {
                    v.push((None, vec![(ST_LIMIT, d1), (ST_LIMIT, d2), (ST_CLEAR, 0)]));
                    if shape != 0 {
                        v.push((None, vec![(ST_LIMIT, d1), (ST_REWIND, 0), (ST_LIMIT, d2), (ST_CLEAR, 0)]));
                    }
                }
            }
        }
    }
    v
}

fn sign_keys(quick: bool) -> Vec<KeySpec> {
    let mut v = Vec::new();
    let algs: Vec<(Alg, Option<usize>)> = if quick {
        vec![(Alg::Sha256, None)]
    } else {
        ALGS.iter().flat_map(|&a| [(a, None), (a, Some(a.floor()))]).collect()
    };
    for (alg, sign) in algs {
        for (name, _) in SIGN_KEY_NAMES {
            let name = if name == "<alg>" { String::from_utf8(alg.label().to_vec()).unwrap() } else { name.to_string() };
            v.push(KeySpec { alg, secret: SECRET.to_vec(), name, min: sign, sign });
        }
    }
    v
}

fn run_sign_histories(ctx: &Arc<Ctx>, g: &Glob, wd: &Watchdog) -> Value {
    let quick = ctx.quick();
    let mut jobs = Vec::new();
    for kv in sign_keys(quick) {
        for op in 0..SIGN_OPS.len() {
            for target in 0..SIGN_TARGETS.len() {
                jobs.push((kv.clone(), op, target));
            }
        }
    }
    let cases = AtomicU64::new(0);
    jobs.par_iter().for_each(|(kv, op, target)| {
        wd.enter(|| json!({"kind": "job", "runner": "sign-histories", "key": kv.json(), "op": op, "target": target}));
        let mut l = Local::default();
        if let Some(su) = SignSetup::new(ctx, &mut l, kv, *op) {
            let rk = kv.refkey();
            for comp in 0..SIGN_COMPS.len() {
                for shape in 0..SIGN_SHAPES.len() {
                    for (cap, steps) in sign_histories(&rk, *target, shape, quick) {
                        let c = SignCase { key: kv.clone(), target: *target, comp, shape, op: *op, cap, steps };
                        sign_history_case(ctx, &mut l, &c, &su);
                        cases.fetch_add(1, AO::Relaxed);
                    }
                }
            }
        } else {
            l.c("sign-history: setup did not agree with the reference (reported there)");
        }
        g.merge(l);
        wd.leave();
    });
    g_sample(|| json!({"runner": "sign-histories", "example": SignCase { key: sign_keys(true)[2].clone(), target: 4, comp: 2, shape: 1, op: 3, cap: None, steps: vec![(ST_LIMIT, 2), (ST_CLEAR, 0)] }.json()}));
    json!({
        "cases": cases.load(AO::Relaxed),
        "targets": SIGN_TARGETS,
        "compressors": SIGN_COMPS,
        "entry_points": SIGN_OPS,
        "message_shapes (built through the builder interface; names host.zone.example, zone.example, ns.zone.example)": SIGN_SHAPES,
        "key_names": SIGN_KEY_NAMES.iter().map(|(n, w)| format!("{n}: {w}")).collect::<Vec<_>>(),
        "keys": if quick { "hmac-sha256, full-length MAC" } else { "4 algorithms x {full-length, floor-length} MAC" },
        "room": if quick { "push limit / capacity = message length + {0, 2, N, T-N+1, T-N+2, T-N+3, T-1, T, T+1} (T uncompressed TSIG record length, N key name length)" } else { "push limit / capacity = message length + every value 0..=T+2 for the keys with a full-length MAC, the quick menu for the truncating keys" },
        "histories": if quick {
            "sign; limit, sign, then {clear limit | raise limit | rewind additional section, sign, clear limit | drop authority+additional, sign, clear limit}, sign; bounded targets also: capacity, sign, then {rewind | drop sections}, sign. Every attempt at its own time; the first success ends the history"
        } else {
            "as quick, plus two limits in a row (every ordered pair of the quick menu), with and without a rewind in between"
        },
    })
}

// =====================================================================
// REPLAY AND MAIN
// =====================================================================

fn run_replay(ctx: &Arc<Ctx>, path: &str) -> ! {
    VERBOSE.store(true, AO::Relaxed);
    let text = std::fs::read_to_string(path).unwrap_or_else(|e| {
        eprintln!("MACHINERY: cannot read replay {path}: {e}");
        std::process::exit(2)
    });
    let v: Value = serde_json::from_str(&text).expect("replay json");
    let case = &v["case"];
    let mut l = Local::default();
    println!("replaying {} ({})", path, case["kind"]);
    match case["kind"].as_str().unwrap_or("") {
        "key_new" => {
            check_key_new(ctx, &mut l, Alg::from_idx(case["alg"].as_u64().unwrap() as usize), case["min"].as_u64().map(|x| x as usize), case["sign"].as_u64().map(|x| x as usize));
        }
        "server_request" => {
            let (sc, msg) = ServerScen::from_json(case);
            println!("  request: {}", hex(&msg));
            eval_server(ctx, &mut l, &sc, &msg, "replay", true);
        }
        "client" => {
            let key = KeySpec::from_json(&case["key"]);
            let seq = case["seq"].as_bool().unwrap();
            let start = ClientScen::start(ctx, &mut l, &key, seq, &unhex(case["req_presign"].as_str().unwrap()), case["req_now"].as_u64().unwrap(), case["fudge"].as_u64().unwrap() as u16);
            if let Some((mut cs, req)) = start {
                println!("  signed request: {}", hex(&req));
                for (i, s) in case["steps"].as_array().unwrap().iter().enumerate() {
                    let m = unhex(s["msg"].as_str().unwrap());
                    println!("  step {i}: now {} message {}", s["now"], hex(&m));
                    cs.step(ctx, &mut l, &m, s["now"].as_u64().unwrap(), "replay");
                }
                if case["done"].as_bool() == Some(true) {
                    cs.check_done(ctx, &mut l);
                }
            }
        }
        "server_seq" => {
            server_sequence(ctx, &mut l, &KeySpec::from_json(&case["key"]), case["count"].as_u64().unwrap() as usize, case["from_tx"].as_bool().unwrap(), case["shapes_mask"].as_u64().unwrap() as u32);
        }
        "middleware" => {
            middleware_case(ctx, &mut l, &MwCase::from_json(case));
        }
        "middleware-resp" => {
            middleware_resp_case(ctx, &mut l, &MwRespCase::from_json(case));
        }
        "key_misc" => {
            key_misc_case(ctx, &mut l, Alg::from_idx(case["alg"].as_u64().unwrap() as usize), case["min"].as_u64().map(|x| x as usize), case["sign"].as_u64().map(|x| x as usize));
        }
        "transport-client" => {
            transport_case(ctx, &mut l, &TransportCase::from_json(case));
        }
        "sign-history" => {
            let c = SignCase::from_json(case);
            if let Some(su) = SignSetup::new(ctx, &mut l, &c.key, c.op) {
                sign_history_case(ctx, &mut l, &c, &su);
            }
        }
        "timesweep" => {
            timesweep(ctx, &mut l, Alg::from_idx(case["alg"].as_u64().unwrap() as usize), case["fudge"].as_u64().unwrap() as u16, case["tb"].as_u64().unwrap());
        }
        k => {
            println!("  replay kind {k:?} names a whole job; rerun the tier to reproduce it");
        }
    }
    ctx.finish(
        json!({"states": l.states.max(1), "transitions": l.transitions.max(1), "traces_validated_against_impl": l.transitions,
               "evaluations": l.evals.max(1), "distinct_nontrivial": 0, "rule": "replay of one case", "samples": [], "exhaustive": false}),
        &["replay run"],
    )
}

fn self_test() {
    // machinery: the preloaded target must reproduce the octets it was given,
    // and the reference must accept what the reference signs.
    for k in 0..5 {
        let raw = shape(k, k % 2 == 1, 0x1111, 0, 3);
        let b = builder_from(&raw);
        if b.as_slice() != &raw[..] {
            eprintln!("MACHINERY: preloaded builder changed the message octets");
            std::process::exit(2);
        }
        match (walk(&raw), wire::read_message(&raw)) {
            (Ok(w), Ok(rm)) if w.end == raw.len() && rm.end == raw.len() => {}
            _ => {
                eprintln!("MACHINERY: harness message shape {k} does not parse");
                std::process::exit(2);
            }
        }
        if Message::from_octets(raw.clone()).map(|m| m.additional().is_err()).unwrap_or(true) {
            eprintln!("MACHINERY: harness message shape {k} is not walked by the library");
            std::process::exit(2);
        }
    }
    let kv = KeySpec { alg: Alg::Sha256, secret: SECRET.to_vec(), name: "Self.Test".into(), min: Some(16), sign: Some(20) };
    let rk = kv.refkey();
    let (signed, mac) = ref_sign(&rk, &[], &shape(3, false, 7, 0, 0), false, T0, 300, 0, &[]);
    let (e, acc) = ref_server(&[rk.clone()], &signed, T0 + 300);
    if e.primary != Cls::Accept || acc.map(|a| a.1) != Some(mac) {
        eprintln!("MACHINERY: reference verifier rejects the reference signer");
        std::process::exit(2);
    }
    // RFC 8945 / RFC 4635 known answer: HMAC-SHA256 of RFC 4231 test case 2
    let k = hmac::Key::new(hmac::HMAC_SHA256, b"Jefe");
    let t = hmac::sign(&k, b"what do ya want for nothing?");
    if hex(t.as_ref()) != "5bdcc146bf60754e6a042426089575c75a003f089d2739839dec58b964ec3843" {
        eprintln!("MACHINERY: ring::hmac known-answer test failed");
        std::process::exit(2);
    }
}

fn main() {
    let ctx = Ctx::new("C11", "model_checking");
    if let Some(p) = ctx.replay.clone() {
        run_replay(&ctx, &p);
    }
    self_test();
    let g = Glob::new();
    let wd = Watchdog::start(ctx.clone(), std::time::Duration::from_secs(240), |d| {
        format!("C11|hang|{}", d["runner"].as_str().unwrap_or("?"))
    });
    run_key_bounds(&ctx, &g);
    run_exchanges(&ctx, &g, &wd);
    run_timesweep(&ctx, &g);
    run_server_sequences(&ctx, &g);
    run_client_sequences(&ctx, &g, &wd);
    let mutinfo = run_mutations(&ctx, &g, &wd);
    run_key_misc(&ctx, &g);
    let tinfo = run_client_transport(&ctx, &g, &wd);
    let minfo = run_middleware(&ctx, &g, &wd);
    let rinfo = run_middleware_responses(&ctx, &g, &wd);
    let sinfo = run_sign_histories(&ctx, &g, &wd);

    let quick = ctx.quick();
    let transitions = g.transitions.load(AO::Relaxed);
    let sum = |h: &[[AtomicU64; NCLS]; NROLES], pred: &dyn Fn(usize) -> bool| -> u64 {
        let mut n = 0;
        for r in h.iter() {
            for (c, x) in r.iter().enumerate() {
                if pred(c) {
                    n += x.load(AO::Relaxed);
                }
            }
        }
        n
    };
    let acc = Cls::Accept as usize;
    ctx.finish(
        json!({
            "states": g.states.load(AO::Relaxed),
            "transitions": transitions,
            "traces_validated_against_impl": transitions,
            "evaluations": g.stats.evals(),
            "distinct_nontrivial": g.stats.distinct_count(),
            "rule": "distinct = hash of (scenario, mutation or pattern) for every case in which a real TSIG state machine was stepped on a message the reference could place a verdict on; signing on the user's builder: one per (key, target, compressor, shape, entry point, history) that ended in a signature equal to the reference; trivial cases (machinery self-tests) are not counted",
            "exhaustive": true,
            "bounds": {
                "tier": if quick { "quick" } else { "thorough" },
                "algorithms": ["hmac-sha1", "hmac-sha256", "hmac-sha384", "hmac-sha512"],
                "key_lengths": "Key::new: every (min_mac_len, signing_len) in {None, 0..=native+2, 255, 65536}^2 per algorithm; exchanges: {native, floor(, floor+3 thorough)}^2 x {lower-case, mixed-case key name}",
                "clock_offsets": OFFSETS,
                "timesweep": "fudge {0,1,300,65535} x base time {200, 1.7e9, 0x0123456789AB, 2^48-70001} x offsets {-f-1,-f,0,f,f+1}",
                "message_shapes": SHAPES,
                "client_sequence_patterns": if quick { "all S/U patterns <=6; alphabet {S,U,Replay,BadMac,Time,WrongSecret} <=3; S U^k S k=0..101" } else { "all S/U patterns <=8; alphabet {S,U,Replay,BadMac,Time,WrongSecret} <=5; S U^k S k=0..101" },
                "server_sequence_lengths": if quick { "1..=4" } else { "1..=8" },
                "mutations": mutinfo,
                "other_entry_points": "Key::generate over {None, floor-1, floor, native, native+1}^2 per algorithm, the generated key used as plain `Key` (key type and single-key store) and in an Arc<HashMap<_, Key>> store against all structural mutations; ClientTransaction::request with the default fudge; Algorithm from_str/Display",
                "client_transport_bounds": if quick { "single answer: 2 request shapes x 3 compose paths x 4 request modifications by the upstream x 5 clock offsets, plus every bit and structural mutation of the answer; streams: every pattern over {S,U,Replay,BadMac,Time,WrongSecret} <=4 (prefix-closed) x 2 compose paths, every bit and structural mutation of the 2nd message after S and of the 3rd after S U, S U^k (S) for k in 98..=100, end of stream after every accepted pattern; request composed 2x and 3x by the upstream (72 plans over {header unchanged, new ID} x {on the request, on a dropped clone} x 2 compose paths) x answer to the last / an earlier composition x {honest, bad MAC} x {single, stream S, stream S U S}" } else { "as quick, patterns <=5; re-composition plans over 3 compose paths x 4 first compositions" },
                "middleware_bounds": "8 service plans (1,3,4 responses; BeginTransaction attached / feedback-only; a response that leaves no room for the TSIG at position 0,1,2) x {single-key store, 5-key HashMap store} x 3 request shapes x {signed, unsigned}; clock offsets x {UDP, TCP}; wrong secret; every bit and structural mutation of the request",
                "middleware_inner_response_bounds": if quick { "single response: bounded 512-octet target: all 64 combinations of AA,TC,RD,RA,AD,CD x rcode {0,3} x 4 size classes (small, TSIG fits exactly, one octet short, target full) x {UDP,TCP} x request flags {RD, none, RD+CD} where the replacement is built; 65535-octet target: flags {none, each alone, all}; streams of 3 responses: all 64 size patterns (bounded target; 6 patterns on the 65535-octet target) x flag menu (rotated over the responses) x {BeginTransaction attached, feedback-only}; single-key and 5-key stores; keys whose own policy accepts their MACs" } else { "as quick with the full flag product on both targets, rcode {0,2,3,5}, both stores and both transports everywhere" },
                "client_transport(net::client::tsig)": tinfo,
                "server_middleware(TsigMiddlewareSvc)": minfo,
                "server_middleware_inner_responses": rinfo,
                "signing_on_the_user's_builder": sinfo,
            },
            "verdict_histogram_library": g.hist(&g.lib_cls),
            "verdict_histogram_reference": g.hist(&g.ref_cls),
            "accepted_by_library": sum(&g.lib_cls, &|c| c == acc),
            "accepted_by_reference": sum(&g.ref_cls, &|c| c == acc),
            "rejected_by_library": sum(&g.lib_cls, &|c| c != acc),
            "rejected_by_reference": sum(&g.ref_cls, &|c| c != acc),
            "counters": g.stats.counters_json(),
            "samples": SAMPLES.lock().unwrap().clone(),
        }),
        &[
            "the oracle is an RFC 8945 signer/verifier written in the harness on ring::hmac; ring's HMAC itself is trusted (known-answer self-test)",
            "message parsing disagreements are not TSIG verdicts: where the reference cannot walk a mutated message, FORMERR, BADSIG and BADKEY are all accepted as rejection; where an owner name of the answer/authority section does not decompress (the TSIG layer need not look at it), FORMERR is accepted next to the TSIG verdict",
            "client side: RFC 8945 assigns no wire error to a client; for MAC-length faults FormErr, BadTrunc and BadSig are all accepted, for NOTAUTH+BADKEY/BADSIG any rejection",
            "two simultaneous faults where one is the local truncation policy: either error accepted (the library checks the policy first, RFC 8945 5.2 last)",
            "'returns the message to its pre-signing octets' is read as: the message delimited by its own section counts equals the pre-signing octets; the library cannot shrink the octets type and leaves the TSIG octets behind the end (counted in counters)",
            "a branch whose honest base case already disagrees with the reference (a reported finding) is closed, not explored through",
            "single-bit flips are first-order: pairs of flips are not enumerated",
            "net::client::tsig::Connection and TsigMiddlewareSvc read the wall clock (Time48::now()); there the reference signs relative to the real time, the time signed of every library-made TSIG must lie between the readings taken before and after the call, and clock offsets are {-400,-200,0,+200,+400} s (the exact fudge edges are decided at the state machines, which take `now`)",
            "through the two transport wrappers the structural mutations that re-sign at the fudge edge and the two other-data mutations (a recorded finding at the state-machine level) are left out",
            "a request composed several times by the upstream: the client is expected to hold the state of the composition made last (those octets went out last); an answer to an earlier composition is judged by the reference client holding the last request MAC (accepted only if the octets were identical)",
            "inner-response product of the middleware: the header flags other than TC and RCODE of the RFC 8945 5.3 replacement response are not prescribed; it must verify, keep ID/QR/opcode/question, carry nothing but the question and the TSIG",
            "signing on the user's builder: which limit is the first to leave room is the library's business (only 'refused => message unchanged' and 'signed => verifies, MAC equals reference' are checked); whether and how far the TSIG owner name is compressed is left open (it must decompress, by backward pointers only, to the key name compared without case); the algorithm name must be uncompressed (RFC 8945 4.2); a history on a bounded buffer may end without a signature",
            "the middleware is driven with services that announce a multi-response answer (BeginTransaction attached to the first response, or as feedback-only items like the XFR service); several responses without that announcement are a contract violation of the service and are not driven",
        ],
    );
}
