//! C03 — every domain-name value is valid; limits enforced at construction.
//!
//! Part 1 (seqx, fixpoint): BFS over the abstract state graph of the real
//!   `NameBuilder<Vec<u8>>` (len, open-label length) under all operations.
//! Part 2 (gramx): all presentation strings over an 11-symbol alphabet to
//!   length n; boundary-length families; all wire strings from a
//!   label-length menu; raw octet strings; every slice/split/truncate index.
use domain::base::name::{
    Label, Name, NameBuilder, RelativeName, ToLabelIter, ToName, ToRelativeName, UncertainName,
};
use mc::wire::validate_name;
use mc::*;
use octseq::Parser;
use rayon::prelude::*;
use serde_json::{json, Value};
use std::collections::{BTreeMap, VecDeque};
use std::str::FromStr;
use std::sync::Arc;

// ---------------------------------------------------------------- part 1

#[derive(Clone, Debug)]
struct MState {
    labels: Vec<usize>,  // closed label lengths
    open: Option<usize>, // open label content length
}
impl MState {
    fn len(&self) -> usize {
        self.labels.iter().map(|l| l + 1).sum::<usize>() + self.open.map(|o| o + 1).unwrap_or(0)
    }
    fn key(&self) -> (usize, Option<usize>) {
        (self.len(), self.open)
    }
    fn ended(&self) -> MState {
        let mut s = self.clone();
        if let Some(o) = s.open.take() {
            s.labels.push(o);
        }
        s
    }
}

#[derive(Clone, Debug, PartialEq)]
enum Op {
    Push,
    AppendSlice(usize),
    EndLabel,
    AppendLabel(usize),
    AppendName(Vec<usize>),
    DecLabel(u8),
    HexLabel,
    PushSymDot,
    PushSymChar,
    PushSymEsc,
    // terminal
    Finish,
    IntoName,
    AppendOrigin(Vec<usize>),
}

fn op_name(op: &Op) -> String {
    match op {
        Op::Push => "push".into(),
        Op::AppendSlice(n) => format!("append_slice({n})"),
        Op::EndLabel => "end_label".into(),
        Op::AppendLabel(n) => format!("append_label({n})"),
        Op::AppendName(v) => format!("append_name(rel{:?})", v),
        Op::DecLabel(v) => format!("append_dec_u8_label({v})"),
        Op::HexLabel => "append_hex_digit_label".into(),
        Op::PushSymDot => "push_symbol('.')".into(),
        Op::PushSymChar => "push_symbol(char)".into(),
        Op::PushSymEsc => "push_symbol(escape)".into(),
        Op::Finish => "finish".into(),
        Op::IntoName => "into_name".into(),
        Op::AppendOrigin(v) => format!("append_origin(abs{:?})", v),
    }
}
fn op_kind(op: &Op) -> &'static str {
    match op {
        Op::Push => "push",
        Op::AppendSlice(_) => "append_slice",
        Op::EndLabel => "end_label",
        Op::AppendLabel(_) => "append_label",
        Op::AppendName(_) => "append_name",
        Op::DecLabel(_) => "append_dec_u8_label",
        Op::HexLabel => "append_hex_digit_label",
        Op::PushSymDot | Op::PushSymChar | Op::PushSymEsc => "push_symbol",
        Op::Finish => "finish",
        Op::IntoName => "into_name",
        Op::AppendOrigin(_) => "append_origin",
    }
}

fn rel_wire(lens: &[usize], fill: u8) -> Vec<u8> {
    let mut v = Vec::new();
    for l in lens {
        v.push(*l as u8);
        v.extend(std::iter::repeat(fill).take(*l));
    }
    v
}

/// Label length vector whose relative wire length is exactly `total`.
fn lens_for_total(total: usize) -> Vec<usize> {
    let mut v = Vec::new();
    let mut rest = total;
    while rest > 0 {
        let take = rest.min(64); // label of 63 + length octet
        if take == 1 {
            // cannot have a 1-octet remainder: steal from the previous label
            let last = v.pop().unwrap();
            v.push(last - 1usize);
            v.push(1);
            rest = 0;
            // (last-1)+1 + 1+1 = last+1 + 1 -> fine
        } else {
            v.push(take - 1);
            rest -= take;
        }
    }
    v
}

/// Model of one push. Ok(new state) or Err(()).
fn m_push(s: &MState) -> Result<MState, ()> {
    let mut n = s.clone();
    match s.open {
        Some(o) => {
            if o + 1 > 63 || s.len() + 1 > 254 {
                return Err(());
            }
            n.open = Some(o + 1);
        }
        None => {
            if s.len() + 2 > 254 {
                return Err(());
            }
            n.open = Some(1);
        }
    }
    Ok(n)
}

/// Model: result and set of legal post-states. For Ok: exactly one state.
/// For Err: the set of states the builder may be left in ("usable").
fn model(s: &MState, op: &Op) -> (bool, Vec<MState>) {
    match op {
        Op::Push | Op::PushSymChar | Op::PushSymEsc => match m_push(s) {
            Ok(n) => (true, vec![n]),
            Err(()) => (false, vec![s.clone()]),
        },
        Op::AppendSlice(n) => {
            if *n == 0 {
                return (true, vec![s.clone()]);
            }
            let mut ns = s.clone();
            match s.open {
                Some(o) => {
                    if o + n > 63 || s.len() + n > 254 {
                        return (false, vec![s.clone()]);
                    }
                    ns.open = Some(o + n);
                }
                None => {
                    if *n > 63 || s.len() + 1 + n > 254 {
                        return (false, vec![s.clone()]);
                    }
                    ns.open = Some(*n);
                }
            }
            (true, vec![ns])
        }
        Op::EndLabel => (true, vec![s.ended()]),
        Op::PushSymDot => {
            // an unescaped dot ends the label; empty label is an error
            if s.open.is_some() {
                (true, vec![s.ended()])
            } else {
                (false, vec![s.clone()])
            }
        }
        Op::AppendLabel(n) => {
            let e = s.ended();
            if *n == 0 {
                // documented: ends the current label, appends nothing
                return (true, vec![e]);
            }
            if *n > 63 || e.len() + 1 + n > 254 {
                // either "unchanged" or "label ended" leaves a usable builder
                return (false, vec![s.clone(), e]);
            }
            let mut ns = e;
            ns.labels.push(*n);
            (true, vec![ns])
        }
        Op::AppendName(v) => {
            let e = s.ended();
            let add: usize = v.iter().map(|l| l + 1).sum();
            if e.len() + add > 254 {
                return (false, vec![s.clone(), e]);
            }
            let mut ns = e;
            ns.labels.extend(v.iter().cloned());
            (true, vec![ns])
        }
        Op::DecLabel(val) => {
            let digits = if *val >= 100 { 3 } else if *val >= 10 { 2 } else { 1 };
            compound_push(s, digits)
        }
        Op::HexLabel => compound_push(s, 1),
        Op::Finish | Op::IntoName | Op::AppendOrigin(_) => unreachable!(),
    }
}

/// end_label; push x d; end_label. On failure any prefix state is "usable".
fn compound_push(s: &MState, d: usize) -> (bool, Vec<MState>) {
    let e = s.ended();
    if e.len() + 1 + d > 254 {
        let mut cands = vec![s.clone(), e.clone()];
        let mut cur = e;
        for _ in 0..d {
            match m_push(&cur) {
                Ok(n) => {
                    cands.push(n.clone());
                    cur = n;
                }
                Err(()) => break,
            }
        }
        return (false, cands);
    }
    let mut ns = e;
    ns.labels.push(d);
    (true, vec![ns])
}

fn apply(b: &mut NameBuilder<Vec<u8>>, op: &Op, fill: u8) -> Result<bool, String> {
    use domain::base::scan::Symbol;
    guard(|| match op {
        Op::Push => b.push(fill).is_ok(),
        Op::AppendSlice(n) => b.append_slice(&vec![fill; *n]).is_ok(),
        Op::EndLabel => {
            b.end_label();
            true
        }
        Op::AppendLabel(n) => b.append_label(&vec![fill; *n]).is_ok(),
        Op::AppendName(v) => {
            let w = rel_wire(v, fill);
            let r = RelativeName::from_octets(w).expect("harness: relative name operand");
            b.append_name(&r).is_ok()
        }
        Op::DecLabel(v) => b.append_dec_u8_label(*v).is_ok(),
        Op::HexLabel => b.append_hex_digit_label(fill & 0xf).is_ok(),
        Op::PushSymDot => b.push_symbol(Symbol::Char('.')).is_ok(),
        Op::PushSymChar => b.push_symbol(Symbol::Char(if fill == b'a' { 'a' } else { 'z' })).is_ok(),
        Op::PushSymEsc => b.push_symbol(Symbol::DecimalEscape(fill)).is_ok(),
        _ => unreachable!(),
    })
}

/// Does the finished relative name have exactly these label lengths?
fn check_rel_octets(octets: &[u8], want: &[usize]) -> Result<(), String> {
    let labels = validate_name(octets, false)?;
    let got: Vec<usize> = labels.iter().map(|l| l.len()).collect();
    if got != want {
        return Err(format!("label lengths {:?}, expected {:?}", got, want));
    }
    Ok(())
}

fn part1(ctx: &Arc<Ctx>, stats: &Stats) -> (u64, u64, Vec<Value>) {
    let slice_ns = [0usize, 1, 2, 31, 62, 63, 64];
    let label_ns = [0usize, 1, 4, 5, 62, 63, 64];
    let name_tot = [0usize, 2, 64, 127, 128, 200, 253, 254];
    let origin_tot = [1usize, 3, 65, 128, 254, 255];
    let mut ops: Vec<Op> = vec![Op::Push, Op::EndLabel, Op::HexLabel, Op::PushSymDot, Op::PushSymChar, Op::PushSymEsc];
    ops.extend(slice_ns.iter().map(|n| Op::AppendSlice(*n)));
    ops.extend(label_ns.iter().map(|n| Op::AppendLabel(*n)));
    ops.extend(name_tot.iter().map(|t| Op::AppendName(lens_for_total(*t))));
    ops.extend([Op::DecLabel(7), Op::DecLabel(42), Op::DecLabel(255)]);
    let mut terminal: Vec<Op> = vec![Op::Finish, Op::IntoName];
    terminal.extend(origin_tot.iter().map(|t| Op::AppendOrigin(lens_for_total(*t - 1))));

    let mut seen: BTreeMap<(usize, Option<usize>), ()> = BTreeMap::new();
    let mut queue: VecDeque<(MState, NameBuilder<Vec<u8>>, NameBuilder<Vec<u8>>, Vec<String>)> = VecDeque::new();
    let init = MState { labels: vec![], open: None };
    seen.insert(init.key(), ());
    queue.push_back((init, NameBuilder::new_vec(), NameBuilder::new_vec(), vec![]));
    let mut transitions = 0u64;
    let mut samples = Vec::new();
    let mut maxdepth = 0;

    while let Some((ms, b1, b2, hist)) = queue.pop_front() {
        maxdepth = maxdepth.max(hist.len());
        // real builder observables agree with the model state
        if b1.len() != ms.len() || b1.in_label() != ms.open.is_some() {
            ctx.violation(
                "C03|builder|state-observables|len-or-in_label-disagree-with-model",
                &format!("len()={} in_label()={} but model {:?}", b1.len(), b1.in_label(), ms.key()),
                json!({"history": hist}),
            );
            continue;
        }
        // terminal operations (consume a clone)
        for op in &terminal {
            transitions += 1;
            stats.count(&format!("op:{}", op_kind(op)));
            let e = ms.ended();
            let sig_base = format!("C03|builder|{}", op_kind(op));
            match op {
                Op::Finish => {
                    let r = guard(|| b1.clone().finish());
                    match r {
                        Err(p) => {
                            ctx.violation(&format!("{sig_base}|panic|{}", panic_class(&p)), &p, json!({"history": hist}));
                        }
                        Ok(n) => {
                            if let Err(why) = check_rel_octets(n.as_slice(), &e.labels) {
                                ctx.violation(
                                    &format!("{sig_base}|invalid-relative-name|open={}", ms.open.is_some()),
                                    &format!("finish() returned octets that are not the valid relative name built: {why}"),
                                    json!({"history": hist, "octets": hex(n.as_slice())}),
                                );
                            } else {
                                // the library's own checker must agree and round trips must hold
                                name_roundtrips_rel(ctx, n.as_slice(), &hist);
                            }
                        }
                    }
                }
                Op::IntoName => {
                    let r = guard(|| b1.clone().into_name());
                    match r {
                        Err(p) => {
                            ctx.violation(&format!("{sig_base}|panic|{}", panic_class(&p)), &p, json!({"history": hist}));
                        }
                        Ok(Err(_)) => {
                            ctx.violation(&format!("{sig_base}|rejected-should-accept"), "into_name() on a legal relative name failed", json!({"history": hist}));
                        }
                        Ok(Ok(n)) => {
                            let want: Vec<usize> = e.labels.clone();
                            match validate_name(n.as_slice(), true) {
                                Ok(l) if l.iter().map(|x| x.len()).collect::<Vec<_>>() == want => {
                                    name_roundtrips_abs(ctx, n.as_slice(), &hist);
                                }
                                other => {
                                    ctx.violation(
                                        &format!("{sig_base}|invalid-absolute-name|open={}", ms.open.is_some()),
                                        &format!("into_name() returned invalid octets: {:?}", other.err()),
                                        json!({"history": hist, "octets": hex(n.as_slice())}),
                                    );
                                }
                            }
                        }
                    }
                }
                Op::AppendOrigin(v) => {
                    let mut w = rel_wire(v, b'o');
                    w.push(0);
                    let origin = Name::from_octets(w.clone()).expect("harness: origin operand");
                    let expect_ok = e.len() + w.len() <= 255;
                    let r = guard(|| b1.clone().append_origin(&origin));
                    match r {
                        Err(p) => {
                            ctx.violation(&format!("{sig_base}|panic|{}", panic_class(&p)), &p, json!({"history": hist, "origin_len": w.len()}));
                        }
                        Ok(Err(_)) if expect_ok => {
                            ctx.violation(&format!("{sig_base}|rejected-should-accept"), &format!("append_origin: {}+{} <= 255 refused", e.len(), w.len()), json!({"history": hist, "origin_len": w.len()}));
                        }
                        Ok(Err(_)) => {}
                        Ok(Ok(n)) => {
                            let mut want = e.labels.clone();
                            want.extend(v.iter().cloned());
                            let ok = matches!(validate_name(n.as_slice(), true), Ok(l) if l.iter().map(|x| x.len()).collect::<Vec<_>>() == want);
                            if !expect_ok || !ok {
                                ctx.violation(
                                    &format!("{sig_base}|{}|total={}", if !expect_ok { "accepted-should-reject" } else { "invalid-absolute-name" }, if e.len() + w.len() > 255 { ">255" } else { "<=255" }),
                                    &format!("append_origin({} + {}) returned a name of {} octets", e.len(), w.len(), n.as_slice().len()),
                                    json!({"history": hist, "origin_len": w.len(), "octets": hex(n.as_slice())}),
                                );
                            }
                        }
                    }
                }
                _ => unreachable!(),
            }
        }
        // non-terminal operations
        for op in &ops {
            transitions += 1;
            let (exp_ok, cands) = model(&ms, op);
            let mut n1 = b1.clone();
            let mut n2 = b2.clone();
            let r1 = apply(&mut n1, op, b'a');
            let r2 = apply(&mut n2, op, 0x07);
            let mut h2 = hist.clone();
            h2.push(op_name(op));
            let sig_base = format!("C03|builder|{}", op_kind(op));
            let (ok1, ok2) = match (r1, r2) {
                (Ok(a), Ok(b)) => (a, b),
                (Err(p), _) | (_, Err(p)) => {
                    ctx.violation(&format!("{sig_base}|panic|{}", panic_class(&p)), &p, json!({"history": h2}));
                    continue;
                }
            };
            if ok1 != ok2 {
                ctx.violation(&format!("{sig_base}|content-dependent-result"), "result depends on the fill octet", json!({"history": h2}));
                continue;
            }
            stats.count(&format!("op:{}:{}", op_kind(op), if ok1 { "ok" } else { "err" }));
            if ok1 && !exp_ok {
                // accepted something the limits forbid: classify by structural cause
                let e = ms.ended();
                let cause = match op {
                    Op::AppendSlice(n) if ms.open.is_none() => format!("new-label|total={}", total_class(ms.len() + 1 + n)),
                    Op::AppendSlice(n) => format!("in-label|label={}|total={}", if ms.open.unwrap() + n > 63 { ">63" } else { "<=63" }, total_class(ms.len() + n)),
                    Op::AppendLabel(n) => format!("total={}", total_class(e.len() + 1 + n)),
                    Op::Push | Op::PushSymChar | Op::PushSymEsc if ms.open.is_none() => format!("new-label|total={}", total_class(ms.len() + 2)),
                    Op::Push | Op::PushSymChar | Op::PushSymEsc => format!("in-label|total={}", total_class(ms.len() + 1)),
                    Op::AppendName(v) => format!("total={}", total_class(e.len() + v.iter().map(|l| l + 1).sum::<usize>())),
                    Op::DecLabel(_) | Op::HexLabel => format!("total={}", total_class(n1.len())),
                    _ => "other".into(),
                };
                ctx.violation(
                    &format!("{sig_base}|{cause}|accepted-should-reject"),
                    &format!("{} accepted at (len {}, open {:?}); builder now holds {} octets", op_name(op), ms.len(), ms.open, n1.len()),
                    json!({"history": h2}),
                );
                continue; // tainted: do not explore through an illegal state
            }
            if !ok1 && exp_ok {
                ctx.violation(
                    &format!("{sig_base}|rejected-should-accept"),
                    &format!("{} refused at (len {}, open {:?}) although the result would be within 63/254", op_name(op), ms.len(), ms.open),
                    json!({"history": h2}),
                );
                continue;
            }
            // post-state must be one of the legal candidates
            let obs = (n1.len(), n1.in_label());
            let cand = cands.iter().find(|c| (c.len(), c.open.is_some()) == obs);
            let Some(next) = cand.cloned() else {
                ctx.violation(
                    &format!("{sig_base}|post-state|{}", if ok1 { "ok" } else { "err" }),
                    &format!("after {} ({}) builder has len {} in_label {}; legal: {:?}", op_name(op), if ok1 { "Ok" } else { "Err" }, obs.0, obs.1, cands.iter().map(|c| c.key()).collect::<Vec<_>>()),
                    json!({"history": h2}),
                );
                continue;
            };
            // builder must still be usable and hold the modelled labels
            let fin = guard(|| n1.clone().finish());
            match fin {
                Ok(n) => {
                    if let Err(why) = check_rel_octets(n.as_slice(), &next.ended().labels) {
                        ctx.violation(
                            &format!("{sig_base}|then-finish|invalid-relative-name|open-before={}|{}", ms.open.is_some(), if ok1 { "ok" } else { "err" }),
                            &format!("after {} the builder finishes to an invalid/unexpected name: {why}", op_name(op)),
                            json!({"history": h2, "octets": hex(n.as_slice())}),
                        );
                        continue;
                    }
                }
                Err(p) => {
                    ctx.violation(&format!("{sig_base}|then-finish|panic|{}", panic_class(&p)), &p, json!({"history": h2}));
                    continue;
                }
            }
            if seen.insert(next.key(), ()).is_none() {
                if samples.len() < 4 || (next.len() >= 254 && samples.len() < 8) {
                    samples.push(json!({"history": h2, "state": {"len": next.len(), "open_label": next.open}}));
                }
                queue.push_back((next, n1, n2, h2));
            }
        }
    }
    stats.count_n("part1.max_depth", maxdepth as u64);
    (seen.len() as u64, transitions, samples)
}

// ---------------------------------------------------------------- part 1b
// The same builder over a BOUNDED buffer (octseq::Array<40>) and over Bytes,
// differentially against the Vec-backed builder that part 1 has checked
// against the model: every operation sequence to the depth bound. A step
// whose result does not fit the buffer must fail and leave a usable builder
// (in its previous state, or with only the open label closed); every other
// step must behave exactly like the Vec-backed one.

fn apply_any<B>(b: &mut NameBuilder<B>, op: &Op, fill: u8) -> Result<bool, String>
where
    B: octseq::builder::OctetsBuilder + AsRef<[u8]> + AsMut<[u8]> + Clone,
{
    use domain::base::scan::Symbol;
    guard(|| match op {
        Op::Push => b.push(fill).is_ok(),
        Op::AppendSlice(n) => b.append_slice(&vec![fill; *n]).is_ok(),
        Op::EndLabel => {
            b.end_label();
            true
        }
        Op::AppendLabel(n) => b.append_label(&vec![fill; *n]).is_ok(),
        Op::AppendName(v) => {
            let w = rel_wire(v, fill);
            let r = RelativeName::from_octets(w).expect("harness: relative name operand");
            b.append_name(&r).is_ok()
        }
        Op::DecLabel(v) => b.append_dec_u8_label(*v).is_ok(),
        Op::HexLabel => b.append_hex_digit_label(fill & 0xf).is_ok(),
        Op::PushSymDot => b.push_symbol(Symbol::Char('.')).is_ok(),
        Op::PushSymChar => b.push_symbol(Symbol::Char('a')).is_ok(),
        Op::PushSymEsc => b.push_symbol(Symbol::DecimalEscape(fill)).is_ok(),
        _ => unreachable!(),
    })
}

fn part1b(ctx: &Ctx, stats: &Stats, depth: usize) -> u64 {
    const CAP: usize = 40;
    let ops: Vec<Op> = vec![
        Op::Push, Op::AppendSlice(1), Op::AppendSlice(19), Op::AppendSlice(38), Op::EndLabel, Op::AppendLabel(1), Op::AppendLabel(20), Op::AppendLabel(39),
        Op::AppendName(vec![18]), Op::AppendName(vec![1, 1]), Op::DecLabel(255), Op::HexLabel, Op::PushSymDot, Op::PushSymChar,
    ];
    let total = pow(ops.len(), depth) as u64;
    (0..pow(ops.len(), depth)).into_par_iter().for_each(|k| {
        let mut idx = Vec::new();
        nth_string(&(0..ops.len()).collect::<Vec<_>>(), depth, k, &mut idx);
        let mut v = NameBuilder::new_vec();
        let mut a = NameBuilder::<octseq::Array<CAP>>::new();
        let mut by = NameBuilder::new_bytes();
        let mut hist: Vec<String> = Vec::new();
        for i in idx {
            let op = &ops[i];
            hist.push(op_name(op));
            stats.eval();
            let case = || json!({"history": hist, "buffer": "Array<40>"});
            let pre = (a.len(), a.in_label());
            let pre_ended = (a.len(), false);
            let pre_octets = a.clone().finish().as_slice().to_vec();
            let (rv, ra, rb) = (apply_any(&mut v, op, b'a'), apply_any(&mut a, op, b'a'), apply_any(&mut by, op, b'a'));
            let (rv, ra, rb) = match (rv, ra, rb) {
                (Ok(x), Ok(y), Ok(z)) => (x, y, z),
                (x, y, z) => {
                    let p = x.err().or(y.err()).or(z.err()).unwrap();
                    ctx.violation(&format!("C03|builder-buffers|{}|panic|{}", op_kind(op), panic_class(&p)), &p, case());
                    return;
                }
            };
            // Bytes-backed: exactly like Vec
            if rb != rv || (by.len(), by.in_label()) != (v.len(), v.in_label()) || by.as_slice() != v.as_slice() {
                ctx.violation(&format!("C03|builder-buffers|{}|bytes-backed-builder-differs-from-vec-backed", op_kind(op)), &format!("{}: BytesMut-backed builder: {rb} len {} vs Vec-backed: {rv} len {}", op_name(op), by.len(), v.len()), json!({"history": hist, "buffer": "BytesMut"}));
                return;
            }
            let fits = v.len() <= CAP;
            if rv && fits {
                if !ra || (a.len(), a.in_label()) != (v.len(), v.in_label()) || a.as_slice() != v.as_slice() {
                    ctx.violation(&format!("C03|builder-buffers|{}|bounded-builder-differs-although-result-fits", op_kind(op)), &format!("{}: Array<40>-backed builder: {ra} len {} in_label {}; Vec-backed: Ok len {} in_label {}", op_name(op), a.len(), a.in_label(), v.len(), v.in_label()), case());
                    return;
                }
            } else {
                // limit of the name (Vec refuses too) or of the buffer: an error and a usable builder
                if ra {
                    ctx.violation(&format!("C03|builder-buffers|{}|accepted-beyond-{}", op_kind(op), if rv { "buffer" } else { "name-limits" }), &format!("{}: Array<40>-backed builder accepted; it now reports len {}", op_name(op), a.len()), case());
                    return;
                }
                let post = (a.len(), a.in_label());
                let fin = guard(|| a.clone().finish().as_slice().to_vec());
                let valid = matches!(&fin, Ok(o) if validate_name(o, false).is_ok());
                // append_name may have appended some complete labels of its operand before the buffer ran full
                let partial_name = matches!(op, Op::AppendName(_)) && !a.in_label() && a.len() >= pre.0 && valid;
                let keeps_content = matches!(&fin, Ok(o) if o.len() >= pre_octets.len() && o[..pre_octets.len()] == pre_octets[..] && (partial_name || o.len() == pre_octets.len()));
                if !(post == pre || post == pre_ended || partial_name) || !valid || !keeps_content {
                    ctx.violation(&format!("C03|builder-buffers|{}|unusable-after-refused-step", op_kind(op)), &format!("{}: refused, builder went from {:?} to {:?}, finish() = {:?}", op_name(op), pre, post, fin.map(|o| hex(&o))), case());
                    return;
                }
                // the two builders have diverged (one holds more than the other can): stop this history
                return;
            }
        }
        // terminal steps on the bounded builder
        let e_len = a.len();
        let r = guard(|| a.clone().into_name().map(|n| n.as_slice().to_vec()).ok());
        match r {
            Ok(Some(o)) => {
                if e_len + 1 > CAP || validate_name(&o, true).is_err() {
                    ctx.violation("C03|builder-buffers|into_name|invalid-or-beyond-buffer", &format!("into_name() on {e_len} octets in a 40-octet buffer returned {}", hex(&o)), json!({"history": hist}));
                }
            }
            Ok(None) => {
                if e_len + 1 <= CAP {
                    ctx.violation("C03|builder-buffers|into_name|refused-although-it-fits", &format!("into_name() on {e_len} octets in a 40-octet buffer failed"), json!({"history": hist}));
                }
            }
            Err(p) => {
                ctx.violation(&format!("C03|builder-buffers|into_name|panic|{}", panic_class(&p)), &p, json!({"history": hist}));
            }
        }
    });
    total
}

// ---------------------------------------------------------------- part 1c
// Steps that are refused HALF WAY because the buffer is full. The builder sits
// atop a fixed-capacity octets builder (octseq::Array<8/16/40/80> pre-filled so
// that exactly `room` octets are left, and a run-time capacity builder of the
// harness for every capacity). Operations that consist of several parts
// (append_name / append_origin of a name of several labels, given flat or as a
// chain; append_chars / append_symbols; append_label; the small-label
// shorthands) are run with and without a label under construction for EVERY
// amount of room from 0 to the amount at which the whole sequence fits, and the
// builder is used further afterwards.
//
// Oracle: an abstract content model (closed labels, label under construction)
// written here. A step is made of parts (end the open label; one whole label;
// one octet; one separator). It must be accepted exactly when every part fits
// the 63/254 limits and the room, and then the builder holds all parts. When it
// is refused the builder must hold some PREFIX of the parts - the documentation
// of NameBuilder promises no more than that for a full buffer -, i.e. whole
// labels only, never a label whose length octet covers other labels, and is
// used further from that state: finish / into_name / append_origin on a copy of
// every state reached must give an error or exactly the modelled name, which an
// independent validator accepts.

/// Fixed-capacity octets builder of the harness; all-or-nothing appends like
/// the fixed-size builders of octseq, capacity chosen at run time.
#[derive(Clone)]
struct CapVec {
    v: Vec<u8>,
    cap: usize,
}
impl octseq::builder::OctetsBuilder for CapVec {
    type AppendError = octseq::builder::ShortBuf;
    fn append_slice(&mut self, slice: &[u8]) -> Result<(), Self::AppendError> {
        if self.v.len() + slice.len() > self.cap {
            return Err(octseq::builder::ShortBuf);
        }
        self.v.extend_from_slice(slice);
        Ok(())
    }
}
impl AsRef<[u8]> for CapVec {
    fn as_ref(&self) -> &[u8] {
        &self.v
    }
}
impl AsMut<[u8]> for CapVec {
    fn as_mut(&mut self) -> &mut [u8] {
        &mut self.v
    }
}
impl octseq::builder::FreezeBuilder for CapVec {
    type Octets = Vec<u8>;
    fn freeze(self) -> Vec<u8> {
        self.v
    }
}

#[derive(Clone, Debug, PartialEq)]
struct CState {
    labels: Vec<Vec<u8>>,
    open: Option<Vec<u8>>,
}
impl CState {
    fn len(&self) -> usize {
        self.labels.iter().map(|l| l.len() + 1).sum::<usize>() + self.open.as_ref().map(|o| o.len() + 1).unwrap_or(0)
    }
    fn ended(&self) -> CState {
        let mut s = self.clone();
        if let Some(o) = s.open.take() {
            s.labels.push(o);
        }
        s
    }
    /// Wire octets of the relative name this state finishes to.
    fn wire(&self) -> Vec<u8> {
        let mut v = Vec::with_capacity(self.len());
        for l in self.labels.iter().chain(self.open.iter()) {
            v.push(l.len() as u8);
            v.extend_from_slice(l);
        }
        v
    }
}

#[derive(Clone, Debug, PartialEq)]
enum Part {
    End,
    Label(Vec<u8>),
    Octet(u8),
    Slice(Vec<u8>),
    Dot,
}

/// One part on the model under the name limits and `cap` octets of buffer.
fn part_apply(s: &CState, p: &Part, cap: usize) -> Result<CState, ()> {
    let lim = cap.min(254);
    let mut n = s.clone();
    match p {
        Part::End => return Ok(s.ended()),
        Part::Dot => {
            if s.open.is_none() {
                return Err(());
            }
            return Ok(s.ended());
        }
        Part::Label(l) => {
            if s.open.is_some() || l.is_empty() || l.len() > 63 || s.len() + 1 + l.len() > lim {
                return Err(());
            }
            n.labels.push(l.clone());
        }
        Part::Octet(b) => match &mut n.open {
            Some(o) => {
                if o.len() + 1 > 63 || s.len() + 1 > lim {
                    return Err(());
                }
                o.push(*b);
            }
            None => {
                if s.len() + 2 > lim {
                    return Err(());
                }
                n.open = Some(vec![*b]);
            }
        },
        Part::Slice(x) => match &mut n.open {
            Some(o) => {
                if o.len() + x.len() > 63 || s.len() + x.len() > lim {
                    return Err(());
                }
                o.extend_from_slice(x);
            }
            None => {
                if x.len() > 63 || s.len() + 1 + x.len() > lim {
                    return Err(());
                }
                n.open = Some(x.clone());
            }
        },
    }
    Ok(n)
}

#[derive(Clone, Debug, PartialEq)]
enum BOp {
    Push,
    AppendSlice(usize),
    EndLabel,
    AppendLabel(usize),
    /// label lengths; handed in flat or as a chain (first label + rest)
    AppendName(Vec<usize>, bool),
    AppendChars(&'static str),
    AppendSymbols(&'static str),
    DecLabel(u8),
    HexLabel(u8),
}
#[derive(Clone, Debug, PartialEq)]
enum BTerm {
    Finish,
    IntoName,
    /// label lengths before the root; flat or as a chain (relative first label + absolute rest)
    AppendOrigin(Vec<usize>, bool),
}

fn bop_kind(op: &BOp) -> &'static str {
    match op {
        BOp::Push => "push",
        BOp::AppendSlice(_) => "append_slice",
        BOp::EndLabel => "end_label",
        BOp::AppendLabel(_) => "append_label",
        BOp::AppendName(_, false) => "append_name",
        BOp::AppendName(_, true) => "append_name(chain)",
        BOp::AppendChars(_) => "append_chars",
        BOp::AppendSymbols(_) => "append_symbols",
        BOp::DecLabel(_) => "append_dec_u8_label",
        BOp::HexLabel(_) => "append_hex_digit_label",
    }
}

/// Labels of an operand: label i is filled with `base + i`, so that a label that swallowed its
/// neighbours cannot look like the expected one.
fn operand_labels(shape: &[usize], base: u8) -> Vec<Vec<u8>> {
    shape.iter().enumerate().map(|(i, l)| vec![base + i as u8; *l]).collect()
}

/// The parts an operation consists of. More than one reading where documentation and
/// established behaviour differ (append_chars / append_symbols with a label under construction:
/// documented to end it first, established to continue it).
fn bop_parts(op: &BOp, open: bool) -> Vec<Vec<Part>> {
    match op {
        BOp::Push => vec![vec![Part::Octet(b'p')]],
        BOp::AppendSlice(n) => vec![vec![Part::Slice(vec![b's'; *n])]],
        BOp::EndLabel => vec![vec![Part::End]],
        BOp::AppendLabel(n) => vec![vec![Part::End, Part::Label(vec![b'l'; *n])]],
        BOp::AppendName(shape, _) => {
            let mut v = vec![Part::End];
            v.extend(operand_labels(shape, b'b').into_iter().map(Part::Label));
            vec![v]
        }
        BOp::AppendChars(t) | BOp::AppendSymbols(t) => {
            let syms: Vec<Part> = t.bytes().map(|c| if c == b'.' { Part::Dot } else { Part::Octet(c) }).collect();
            if open {
                let mut ended = vec![Part::End];
                ended.extend(syms.iter().cloned());
                vec![syms, ended]
            } else {
                vec![syms]
            }
        }
        BOp::DecLabel(v) => vec![vec![Part::End, Part::Label(v.to_string().into_bytes())]],
        BOp::HexLabel(n) => vec![vec![Part::End, Part::Label(vec![b"0123456789"[*n as usize]])]],
    }
}

/// Octets the operation adds when nothing is in the way.
fn bop_growth(op: &BOp) -> usize {
    bop_parts(op, false)[0]
        .iter()
        .map(|p| match p {
            Part::End | Part::Dot => 0,
            Part::Label(l) => l.len() + 1,
            Part::Octet(_) => 2,
            Part::Slice(x) => x.len() + 1,
        })
        .sum()
}

trait BoundedBuf: octseq::builder::OctetsBuilder + octseq::builder::FreezeBuilder + AsRef<[u8]> + AsMut<[u8]> + Clone {}
impl BoundedBuf for CapVec {}
impl<const N: usize> BoundedBuf for octseq::Array<N> {}

fn bop_apply<B: BoundedBuf>(b: &mut NameBuilder<B>, op: &BOp) -> Result<bool, String>
where
    B::Octets: AsRef<[u8]>,
{
    use domain::base::scan::Symbol;
    guard(|| match op {
        BOp::Push => b.push(b'p').is_ok(),
        BOp::AppendSlice(n) => b.append_slice(&vec![b's'; *n]).is_ok(),
        BOp::EndLabel => {
            b.end_label();
            true
        }
        BOp::AppendLabel(n) => b.append_label(&vec![b'l'; *n]).is_ok(),
        BOp::AppendName(shape, chain) => {
            let labels = operand_labels(shape, b'b');
            if *chain {
                let left = RelativeName::from_octets(labels_wire(&labels[..1], false)).expect("harness: operand");
                let right = RelativeName::from_octets(labels_wire(&labels[1..], false)).expect("harness: operand");
                let c = left.chain(right).expect("harness: chain operand");
                b.append_name(&c).is_ok()
            } else {
                let r = RelativeName::from_octets(labels_wire(&labels, false)).expect("harness: operand");
                b.append_name(&r).is_ok()
            }
        }
        BOp::AppendChars(t) => b.append_chars(t.chars()).is_ok(),
        BOp::AppendSymbols(t) => b.append_symbols(t.chars().map(Symbol::Char)).is_ok(),
        BOp::DecLabel(v) => b.append_dec_u8_label(*v).is_ok(),
        BOp::HexLabel(n) => b.append_hex_digit_label(*n).is_ok(),
    })
}

struct BEnv<'a> {
    ctx: &'a Ctx,
    stats: &'a Stats,
    buffer: &'static str,
    cap: usize,
    prefill: usize,
    terms: &'a [BTerm],
    conts: &'a [BOp],
    evals: u64,
    counts: BTreeMap<String, u64>,
}
impl BEnv<'_> {
    fn case(&self, path: &[&BOp], extra: Value) -> Value {
        json!({"buffer": self.buffer, "capacity": self.cap, "prefilled_octets": self.prefill, "room": self.cap - self.prefill,
               "history": path.iter().map(|o| format!("{:?}", o)).collect::<Vec<_>>(), "observed": extra})
    }
    fn bump(&mut self, k: &str) {
        match self.counts.get_mut(k) {
            Some(c) => *c += 1,
            None => {
                self.counts.insert(k.to_string(), 1);
            }
        }
    }
}

/// One step on the real builder and the model. None: a violation was reported (or the
/// history cannot be followed any further).
fn bstep<B: BoundedBuf>(env: &mut BEnv, b: &NameBuilder<B>, s: &CState, op: &BOp, path: &[&BOp]) -> Option<(NameBuilder<B>, CState)>
where
    B::Octets: AsRef<[u8]>,
{
    env.evals += 1;
    let sig = format!("C03|builder-bounded|{}", bop_kind(op));
    let open_before = s.open.is_some();
    // model: every reading of the operation, all its prefix states, its full result
    let mut fulls: Vec<CState> = Vec::new();
    let mut prefixes: Vec<CState> = Vec::new();
    let mut fits_unbounded = false;
    let readings = bop_parts(op, open_before);
    for parts in &readings {
        let mut cur = s.clone();
        let mut ok = true;
        for p in parts {
            if !prefixes.contains(&cur) {
                prefixes.push(cur.clone());
            }
            match part_apply(&cur, p, env.cap) {
                Ok(n) => cur = n,
                Err(()) => {
                    ok = false;
                    break;
                }
            }
        }
        if ok {
            fulls.push(cur);
        } else {
            let mut cur = s.clone();
            fits_unbounded |= parts.iter().all(|p| match part_apply(&cur, p, usize::MAX) {
                Ok(n) => {
                    cur = n;
                    true
                }
                Err(()) => false,
            });
        }
    }
    let mut n = b.clone();
    let res = match bop_apply(&mut n, op) {
        Ok(r) => r,
        Err(p) => {
            env.ctx.violation(&format!("{sig}|panic|{}", panic_class(&p)), &p, env.case(path, json!(null)));
            return None;
        }
    };
    let (obs_len, obs_open) = (n.len(), n.in_label());
    let fin = guard(|| n.clone().finish().as_slice().to_vec());
    let fin = match fin {
        Ok(o) => o,
        Err(p) => {
            env.ctx.violation(&format!("{sig}|then-finish|panic|{}", panic_class(&p)), &p, env.case(path, json!(null)));
            return None;
        }
    };
    let observed = || json!({"result": if res { "Ok" } else { "Err" }, "len": obs_len, "in_label": obs_open, "finish": hex(&fin)});
    let matches = |c: &CState| c.len() == obs_len && c.open.is_some() == obs_open && c.ended().wire() == fin;
    let valid = validate_name(&fin, false).is_ok() && fin.len() <= env.cap;
    if res {
        if let Some(next) = fulls.iter().find(|c| matches(c)) {
            env.bump("bounded.step.accepted");
            return Some((n, next.clone()));
        }
        let class = if !valid {
            "accepted-and-holds-invalid-name"
        } else if !fulls.is_empty() {
            "accepted-but-content-differs-from-model"
        } else if fits_unbounded {
            "accepted-beyond-buffer"
        } else {
            "accepted-beyond-name-limits"
        };
        env.ctx.violation(
            &format!("{sig}|{class}|open-before={open_before}"),
            &format!("{:?} returned Ok with {} octets of room; builder: len {} in_label {} finish {}; model expects {}", op, env.cap - s.len().min(env.cap), obs_len, obs_open, hex(&fin), fulls.first().map(|c| hex(&c.ended().wire())).unwrap_or("a refusal".into())),
            env.case(path, observed()),
        );
        return None;
    }
    // refused
    if fulls.len() == readings.len() {
        env.ctx.violation(
            &format!("{sig}|refused-although-it-fits|open-before={open_before}"),
            &format!("{:?} refused although the result ({} octets) obeys 63/254 and fits the buffer of {}", op, fulls[0].len(), env.cap),
            env.case(path, observed()),
        );
        return None;
    }
    prefixes.extend(fulls.iter().cloned()); // (only for operations with two readings)
    let Some(next) = prefixes.iter().find(|c| matches(c)) else {
        let class = if !valid { "refused-step-leaves-invalid-name" } else { "refused-step-leaves-content-that-is-no-prefix-of-whole-parts" };
        env.ctx.violation(
            &format!("{sig}|{class}|open-before={open_before}"),
            &format!("{:?} refused (capacity {}, {} octets held before); afterwards the builder has len {} in_label {} and finishes to {} - not the previous content followed by a prefix of the parts of the operation (previous content {})", op, env.cap, s.len(), obs_len, obs_open, hex(&fin), hex(&s.ended().wire())),
            env.case(path, observed()),
        );
        return None;
    };
    env.bump("bounded.step.refused");
    if fits_unbounded {
        env.bump(&format!("bounded.refused-by-buffer.{}.{}", bop_kind(op), if next == s { "nothing-kept" } else if *next == s.ended() { "open-label-ended" } else { "whole-parts-kept" }));
        env.stats.distinct(fnv(&fin) ^ (env.cap as u64).wrapping_mul(0x9E3779B97F4A7C15));
    }
    Some((n, next.clone()))
}

/// finish / into_name / append_origin on copies of the builder in model state `s`.
fn bterminals<B: BoundedBuf>(env: &mut BEnv, b: &NameBuilder<B>, s: &CState, path: &[&BOp])
where
    B::Octets: AsRef<[u8]>,
{
    let e = s.ended();
    let ewire = e.wire();
    for t in env.terms {
        env.evals += 1;
        let (kind, origin): (&str, Vec<Vec<u8>>) = match t {
            BTerm::Finish => ("finish", vec![]),
            BTerm::IntoName => ("into_name", vec![]),
            BTerm::AppendOrigin(shape, false) => ("append_origin", operand_labels(shape, b'o')),
            BTerm::AppendOrigin(shape, true) => ("append_origin(chain)", operand_labels(shape, b'o')),
        };
        let sig = format!("C03|builder-bounded|{kind}");
        let r: Result<Option<Vec<u8>>, String> = guard(|| match t {
            BTerm::Finish => Some(b.clone().finish().as_slice().to_vec()),
            BTerm::IntoName => b.clone().into_name().ok().map(|n| n.as_slice().to_vec()),
            BTerm::AppendOrigin(_, chain) => {
                let w = labels_wire(&origin, true);
                if *chain {
                    let cut = origin[0].len() + 1;
                    let left = RelativeName::from_octets(w[..cut].to_vec()).expect("harness: operand");
                    let right = Name::from_octets(w[cut..].to_vec()).expect("harness: operand");
                    let c = left.chain(right).expect("harness: chain operand");
                    b.clone().append_origin(&c).ok().map(|n| n.as_slice().to_vec())
                } else {
                    let o = Name::from_octets(w).expect("harness: operand");
                    b.clone().append_origin(&o).ok().map(|n| n.as_slice().to_vec())
                }
            }
        });
        let absolute = !matches!(t, BTerm::Finish);
        let mut want = ewire.clone();
        if absolute {
            want.extend_from_slice(&labels_wire(&origin, true));
        }
        let fits = want.len() <= env.cap && want.len() <= if absolute { 255 } else { 254 };
        let mut tpath: Vec<String> = path.iter().map(|o| format!("{:?}", o)).collect();
        let mut case = |env: &BEnv, got: Value| {
            tpath.push(format!("{:?}", t));
            json!({"buffer": env.buffer, "capacity": env.cap, "prefilled_octets": env.prefill, "room": env.cap - env.prefill, "history": tpath, "observed": got})
        };
        match r {
            Err(p) => {
                env.ctx.violation(&format!("{sig}|panic|{}", panic_class(&p)), &p, case(env, json!(null)));
            }
            Ok(None) => {
                if fits {
                    env.ctx.violation(&format!("{sig}|refused-although-it-fits"), &format!("{:?} failed although the name ({} octets) fits the buffer of {}", t, want.len(), env.cap), case(env, json!("Err")));
                }
            }
            Ok(Some(o)) => {
                let class = if validate_name(&o, absolute).is_err() {
                    Some("returned-invalid-name")
                } else if !fits {
                    Some("returned-name-beyond-buffer-or-limits")
                } else if o != want {
                    Some("returned-name-differs-from-model")
                } else {
                    None
                };
                if let Some(class) = class {
                    env.ctx.violation(
                        &format!("{sig}|{class}|open={}", s.open.is_some()),
                        &format!("{:?} returned {} ({}); the accepted operations built {}", t, hex(&o), validate_name(&o, absolute).err().unwrap_or("valid".into()), hex(&want)),
                        case(env, json!(hex(&o))),
                    );
                }
            }
        }
    }
}

fn bconts<'a, B: BoundedBuf>(env: &mut BEnv<'a>, b: &NameBuilder<B>, s: &CState, path: &mut Vec<&'a BOp>, depth: usize)
where
    B::Octets: AsRef<[u8]>,
{
    if depth == 0 {
        return;
    }
    let conts: &'a [BOp] = env.conts;
    for op in conts {
        path.push(op);
        if let Some((n, ns)) = bstep(env, b, s, op, path) {
            bterminals(env, &n, &ns, path);
            bconts(env, &n, &ns, path, depth - 1);
        }
        path.pop();
    }
}

/// Octets of slack beyond "the setup and the operation fit": room for the continuations to fit too.
const B_SLACK: usize = 10;

/// Every history  [closed label] [open head] operation continuation*  on one builder.
fn bexplore<'a, B: BoundedBuf>(env: &mut BEnv<'a>, b0: &NameBuilder<B>, s0: &CState, closed: &'a [Option<BOp>], heads: &'a [Option<BOp>], multi: &'a [BOp], depth: usize)
where
    B::Octets: AsRef<[u8]>,
{
    let mut path: Vec<&'a BOp> = Vec::new();
    bterminals(env, b0, s0, &path);
    for c in closed {
        let (b1, s1) = match c {
            None => (b0.clone(), s0.clone()),
            Some(op) => {
                path.push(op);
                let r = bstep(env, b0, s0, op, &path);
                path.pop();
                match r {
                    Some(x) => x,
                    None => continue,
                }
            }
        };
        if let Some(op) = c {
            path.push(op);
        }
        for h in heads {
            let (b2, s2) = match h {
                None => (b1.clone(), s1.clone()),
                Some(op) => {
                    path.push(op);
                    let r = bstep(env, &b1, &s1, op, &path);
                    path.pop();
                    match r {
                        Some(x) => x,
                        None => continue,
                    }
                }
            };
            if let Some(op) = h {
                path.push(op);
            }
            for m in multi {
                if env.cap > s2.len() + bop_growth(m) + B_SLACK {
                    continue; // everything fits with room to spare: the unbounded parts cover it
                }
                path.push(m);
                if let Some((b3, s3)) = bstep(env, &b2, &s2, m, &path) {
                    bterminals(env, &b3, &s3, &path);
                    bconts(env, &b3, &s3, &mut path, depth);
                }
                path.pop();
            }
            if h.is_some() {
                path.pop();
            }
        }
        if c.is_some() {
            path.pop();
        }
    }
}

fn bexplore_array<'a, const N: usize>(env: &mut BEnv<'a>, room: usize, closed: &'a [Option<BOp>], heads: &'a [Option<BOp>], multi: &'a [BOp], depth: usize) {
    let mut b = NameBuilder::<octseq::Array<N>>::new();
    let mut s = CState { labels: vec![], open: None };
    for l in lens_for_total(N - room) {
        b.append_label(&vec![b'f'; l]).expect("harness: prefill");
        s.labels.push(vec![b'f'; l]);
    }
    assert_eq!(b.len(), N - room);
    bexplore(env, &b, &s, closed, heads, multi, depth);
}

fn part1c(ctx: &Ctx, stats: &Stats) -> Value {
    let quick = ctx.quick();
    let closed: Vec<Option<BOp>> = vec![None, Some(BOp::AppendLabel(1)), Some(BOp::AppendLabel(3))];
    let mut heads: Vec<Option<BOp>> = vec![None, Some(BOp::Push), Some(BOp::AppendSlice(2))];
    let mut shapes: Vec<Vec<usize>> = vec![vec![1], vec![63], vec![1, 1], vec![1, 2], vec![2, 1], vec![2, 63], vec![63, 20], vec![1, 1, 1], vec![3, 2, 1]];
    let mut chained: Vec<Vec<usize>> = vec![vec![1, 1], vec![1, 2], vec![63, 20], vec![1, 1, 1]];
    let mut texts: Vec<&'static str> = vec!["a.b", "ab.c", "a.bc.d", "ab."];
    let mut conts: Vec<BOp> = vec![BOp::Push, BOp::EndLabel, BOp::AppendSlice(2), BOp::AppendLabel(2), BOp::AppendName(vec![1, 1], false)];
    let mut terms: Vec<BTerm> = vec![BTerm::Finish, BTerm::IntoName, BTerm::AppendOrigin(vec![], false), BTerm::AppendOrigin(vec![1], false), BTerm::AppendOrigin(vec![1, 2], false), BTerm::AppendOrigin(vec![1, 2], true)];
    if !quick {
        heads.push(Some(BOp::AppendSlice(8)));
        shapes.extend([vec![1, 63], vec![2, 13], vec![5, 9, 20], vec![30, 30, 30], vec![63, 63, 10], vec![10, 63, 63], vec![1; 12]]);
        chained.extend([vec![2, 63], vec![3, 2, 1], vec![63, 63, 10], vec![10, 63, 63]]);
        texts.extend(["abc", "a.b.c.d", "a.b."]);
        conts.push(BOp::AppendChars("a.b"));
        terms.extend([BTerm::AppendOrigin(vec![2, 63], false), BTerm::AppendOrigin(vec![63, 20], true), BTerm::AppendOrigin(vec![1, 1, 1], false)]);
    }
    let depth = if quick { 2 } else { 3 };
    let mut multi: Vec<BOp> = vec![BOp::Push, BOp::EndLabel, BOp::DecLabel(7), BOp::DecLabel(255), BOp::HexLabel(7)];
    multi.extend([1usize, 2, 63].iter().map(|n| BOp::AppendSlice(*n)));
    multi.extend([1usize, 2, 63].iter().map(|n| BOp::AppendLabel(*n)));
    multi.extend(shapes.iter().map(|s| BOp::AppendName(s.clone(), false)));
    multi.extend(chained.iter().map(|s| BOp::AppendName(s.clone(), true)));
    multi.extend(texts.iter().map(|t| BOp::AppendChars(*t)));
    multi.extend(texts.iter().take(if quick { 2 } else { texts.len() }).map(|t| BOp::AppendSymbols(*t)));
    let max_room = 4 + 9 + multi.iter().map(bop_growth).max().unwrap() + B_SLACK;
    // (buffer kind, room): kind 0 = run-time capacity builder, otherwise Array<kind>
    let mut jobs: Vec<(usize, usize)> = (0..=max_room).map(|r| (0usize, r)).collect();
    for n in [8usize, 16, 40, 80] {
        jobs.extend((0..=n).filter(|r| n - r != 1).map(|r| (n, r)));
    }
    let evals_before = stats.evals();
    jobs.par_iter().for_each(|(kind, room)| {
        let mut env = BEnv {
            ctx,
            stats,
            buffer: match kind {
                0 => "fixed-capacity builder of the harness (from_builder)",
                8 => "Array<8>",
                16 => "Array<16>",
                40 => "Array<40>",
                _ => "Array<80>",
            },
            cap: if *kind == 0 { *room } else { *kind },
            prefill: if *kind == 0 { 0 } else { *kind - *room },
            terms: &terms,
            conts: &conts,
            evals: 0,
            counts: BTreeMap::new(),
        };
        match kind {
            0 => {
                let b = NameBuilder::from_builder(CapVec { v: Vec::new(), cap: *room }).ok().expect("harness: empty builder");
                bexplore(&mut env, &b, &CState { labels: vec![], open: None }, &closed, &heads, &multi, depth);
            }
            8 => bexplore_array::<8>(&mut env, *room, &closed, &heads, &multi, depth),
            16 => bexplore_array::<16>(&mut env, *room, &closed, &heads, &multi, depth),
            40 => bexplore_array::<40>(&mut env, *room, &closed, &heads, &multi, depth),
            _ => bexplore_array::<80>(&mut env, *room, &closed, &heads, &multi, depth),
        }
        stats.evaluations.fetch_add(env.evals, std::sync::atomic::Ordering::Relaxed);
        stats.merge_counts(&env.counts);
    });
    let runs = stats.evals() - evals_before;
    stats.count_n("bounded.operations_run", runs);
    json!({
        "builder_half_way_refusals": "every history [closed label] [label under construction] operation continuation{0..depth} with finish / into_name / append_origin on a copy of every state, for every amount of room",
        "buffers": "Array<8>, Array<16>, Array<40>, Array<80> pre-filled to leave every amount of room; a run-time fixed-capacity builder handed to from_builder at every capacity",
        "room": format!("0..={max_room} octets (an operation is skipped once it fits with more than {B_SLACK} octets to spare)"),
        "operations": multi.iter().map(|o| format!("{:?}", o)).collect::<Vec<_>>(),
        "continuations": conts.iter().map(|o| format!("{:?}", o)).collect::<Vec<_>>(),
        "continuation_depth": depth,
        "terminals": terms.iter().map(|o| format!("{:?}", o)).collect::<Vec<_>>(),
        "builder_runs": jobs.len(),
        "operations_run": runs,
    })
}

fn total_class(t: usize) -> String {
    if t <= 254 {
        "<=254".into()
    } else if t == 255 {
        "255".into()
    } else {
        ">255".into()
    }
}

// -------------------------------------------------- round trips on names

fn name_roundtrips_abs(ctx: &Ctx, octets: &[u8], hist: &dyn std::fmt::Debug) {
    let r = guard(|| {
        let n = Name::from_octets(octets.to_vec()).map_err(|e| format!("from_octets rejects: {e}"))?;
        let text = format!("{}", n);
        let back = Name::<Vec<u8>>::from_str(&text).map_err(|e| format!("from_str({text:?}) fails: {e}"))?;
        if back.as_slice() != octets {
            return Err(format!("text round trip changed octets: {text:?} -> {}", hex(back.as_slice())));
        }
        let textd = format!("{}", n.fmt_with_dot());
        let back = Name::<Vec<u8>>::from_str(&textd).map_err(|e| format!("from_str({textd:?}) fails: {e}"))?;
        if back.as_slice() != octets {
            return Err(format!("text(with dot) round trip changed octets: {textd:?}"));
        }
        // the same absolute name held as an UncertainName: its text must read back as the same absolute name
        let u = UncertainName::<Vec<u8>>::from_octets(octets.to_vec()).map_err(|e| format!("UncertainName from_octets rejects: {e}"))?;
        if !u.is_absolute() || u.as_slice() != octets {
            return Err("UncertainName::from_octets of an absolute name is not that absolute name".into());
        }
        let textu = format!("{}", u);
        let backu = UncertainName::<Vec<u8>>::from_str(&textu).map_err(|e| format!("UncertainName display does not read back, from_str({textu:?}) fails: {e}"))?;
        if !backu.is_absolute() || backu.as_slice() != octets {
            return Err(format!("UncertainName display does not read back as the same absolute name: {textu:?}"));
        }
        // wire round trip
        let mut buf = Vec::new();
        n.compose(&mut buf).unwrap();
        if usize::from(n.compose_len()) != buf.len() {
            return Err("compose_len != composed octets".into());
        }
        let mut p = Parser::from_ref(buf.as_slice());
        let parsed = Name::parse(&mut p).map_err(|e| format!("parse(compose) fails: {e}"))?;
        if parsed.as_slice() != octets || p.remaining() != 0 {
            return Err("wire round trip changed octets".into());
        }
        let mut p = Parser::from_ref(buf.as_slice());
        let pn = domain::base::name::ParsedName::parse(&mut p).map_err(|e| format!("ParsedName::parse fails: {e}"))?;
        if pn.to_vec().as_slice() != octets {
            return Err("ParsedName round trip changed octets".into());
        }
        Ok(())
    });
    match r {
        Ok(Ok(())) => {}
        Ok(Err(why)) => {
            let class = why.split(':').next().unwrap_or("").chars().take(40).collect::<String>();
            ctx.violation(&format!("C03|roundtrip|absolute|{class}"), &why, json!({"octets": hex(octets), "from": format!("{:?}", hist)}));
        }
        Err(p) => {
            ctx.violation(&format!("C03|roundtrip|absolute|panic|{}", panic_class(&p)), &p, json!({"octets": hex(octets), "from": format!("{:?}", hist)}));
        }
    }
}

fn name_roundtrips_rel(ctx: &Ctx, octets: &[u8], hist: &dyn std::fmt::Debug) {
    if octets.is_empty() {
        return; // the empty relative name has no presentation form
    }
    let r = guard(|| {
        let n = RelativeName::from_octets(octets.to_vec()).map_err(|e| format!("from_octets rejects: {e}"))?;
        let text = format!("{}", n);
        let back = RelativeName::<Vec<u8>>::from_str(&text).map_err(|e| format!("from_str({text:?}) fails: {e}"))?;
        if back.as_slice() != octets {
            return Err(format!("text round trip changed octets: {text:?}"));
        }
        let u = UncertainName::<Vec<u8>>::from_str(&text).map_err(|e| format!("Uncertain from_str({text:?}) fails: {e}"))?;
        if !u.is_relative() || u.as_slice() != octets {
            return Err(format!("UncertainName text round trip differs: {text:?}"));
        }
        let mut buf = Vec::new();
        n.compose(&mut buf).unwrap();
        if buf != octets || usize::from(n.compose_len()) != buf.len() {
            return Err("compose differs from octets".into());
        }
        Ok(())
    });
    match r {
        Ok(Ok(())) => {}
        Ok(Err(why)) => {
            let class = why.split(':').next().unwrap_or("").chars().take(40).collect::<String>();
            ctx.violation(&format!("C03|roundtrip|relative|{class}"), &why, json!({"octets": hex(octets), "from": format!("{:?}", hist)}));
        }
        Err(p) => {
            ctx.violation(&format!("C03|roundtrip|relative|panic|{}", panic_class(&p)), &p, json!({"octets": hex(octets), "from": format!("{:?}", hist)}));
        }
    }
}

// ---------------------------------------------------------------- part 2a

/// Independent presentation-format reader for the *specified* sub-alphabet.
/// Returns None if the string uses characters whose treatment RFC 1035
/// leaves to the implementation (unescaped space, quote, '[', non-ASCII).
/// Some(Err) = must be rejected; Some(Ok((labels, absolute))).
fn spec_parse(s: &[char]) -> Option<Result<(Vec<Vec<u8>>, bool), &'static str>> {
    if s.iter().any(|c| matches!(c, ' ' | '"' | '[' | 'é')) {
        return None;
    }
    if s.is_empty() {
        return Some(Err("empty"));
    }
    if s == ['.'] {
        return Some(Ok((vec![], true)));
    }
    let mut labels: Vec<Vec<u8>> = Vec::new();
    let mut cur: Vec<u8> = Vec::new();
    let mut in_label = false;
    let mut i = 0;
    let mut absolute = false;
    while i < s.len() {
        let c = s[i];
        if c == '.' {
            if !in_label {
                return Some(Err("empty label"));
            }
            labels.push(std::mem::take(&mut cur));
            in_label = false;
            absolute = i + 1 == s.len();
            i += 1;
            continue;
        }
        let octet;
        if c == '\\' {
            let Some(&d1) = s.get(i + 1) else { return Some(Err("dangling backslash")) };
            if d1.is_ascii_digit() {
                let (Some(&d2), Some(&d3)) = (s.get(i + 2), s.get(i + 3)) else { return Some(Err("short escape")) };
                if !d2.is_ascii_digit() || !d3.is_ascii_digit() {
                    return Some(Err("bad escape"));
                }
                let v = (d1 as u32 - 48) * 100 + (d2 as u32 - 48) * 10 + (d3 as u32 - 48);
                if v > 255 {
                    return Some(Err("escape > 255"));
                }
                octet = v as u8;
                i += 4;
            } else {
                octet = d1 as u8;
                i += 2;
            }
        } else {
            octet = c as u8;
            i += 1;
        }
        in_label = true;
        cur.push(octet);
        absolute = false;
    }
    if in_label {
        labels.push(cur);
    }
    if labels.iter().any(|l| l.len() > 63) {
        return Some(Err("long label"));
    }
    let wire: usize = labels.iter().map(|l| l.len() + 1).sum();
    Some(Ok((labels, absolute))).map(|r| {
        r.and_then(|(l, a)| if wire > 254 { Err("long name") } else { Ok((l, a)) })
    })
}

fn labels_wire(labels: &[Vec<u8>], root: bool) -> Vec<u8> {
    let mut v = Vec::new();
    for l in labels {
        v.push(l.len() as u8);
        v.extend_from_slice(l);
    }
    if root {
        v.push(0);
    }
    v
}

/// The zone-file reader's own name scanner (zonefile::inplace: convert_label
/// etc. - an implementation separate from FromStr) and the token scanner of
/// base::scan (`IterScanner`), with the text in owner position and inside
/// RDATA (NS target). Relative names are completed with the origin `o.`.
fn check_scanners(ctx: &Ctx, stats: &Stats, chars: &[char], spec: &Option<Result<(Vec<Vec<u8>>, bool), &'static str>>) {
    use domain::base::scan::{IterScanner, Scanner};
    use domain::base::ToName;
    use domain::rdata::ZoneRecordData;
    use domain::zonefile::inplace::{Entry, Zonefile};
    let Some(spec) = spec else { return };
    if chars.is_empty() {
        return; // no token at all: not a name position
    }
    let text: String = chars.iter().collect();
    let case = || json!({"text": text, "entry": "scanner"});
    // In a zone file a backslash at the end of the text escapes the white space that
    // delimits the token: the token is then a different one (not a defect; an earlier
    // version of this check flagged it).
    let zone_routes = !matches!(spec, Err("dangling backslash"));
    // expected octets per route
    let want_zone: Result<Vec<u8>, &str> = match spec {
        Ok((labels, absolute)) => {
            let mut w = labels_wire(labels, false);
            if !absolute {
                w.extend_from_slice(&[1, b'o']);
            }
            w.push(0);
            if w.len() > 255 {
                Err("long name")
            } else {
                Ok(w)
            }
        }
        Err(e) => Err(e),
    };
    for position in ["owner", "rdata"] {
        if !zone_routes {
            break;
        }
        let zone = match position {
            "owner" => format!("{text} 3600 IN A 192.0.2.1\n"),
            _ => format!("x. 3600 IN NS {text}\n"),
        };
        let r = guard(|| -> Result<Vec<u8>, String> {
            let mut z = Zonefile::from(zone.as_bytes());
            z.set_origin(Name::from_str("o.").unwrap());
            match z.next_entry() {
                Ok(Some(Entry::Record(r))) => {
                    let mut o = Vec::new();
                    if position == "owner" {
                        r.owner().compose(&mut o).unwrap();
                    } else {
                        match r.data() {
                            ZoneRecordData::Ns(ns) => ns.nsdname().compose(&mut o).unwrap(),
                            _ => return Err("not an NS record".into()),
                        }
                    }
                    Ok(o)
                }
                Ok(Some(_)) => Err("other entry".into()),
                Ok(None) => Err("no entry".into()),
                Err(e) => Err(e.to_string()),
            }
        });
        stats.eval();
        match r {
            Err(p) => {
                ctx.violation(&format!("C03|zonefile-scanner|{position}|panic|{}", panic_class(&p)), &p, case());
            }
            Ok(Ok(o)) => {
                if let Err(why) = validate_name(&o, true) {
                    ctx.violation(&format!("C03|zonefile-scanner|{position}|invalid-output|{}", why_class(&why)), &format!("zone-file reader returned invalid name {} for {text:?}: {why}", hex(&o)), case());
                } else {
                    match &want_zone {
                        Ok(w) if *w == o => {
                            stats.distinct(fnv(&o));
                        }
                        Ok(w) => {
                            ctx.violation(&format!("C03|zonefile-scanner|{position}|wrong-octets"), &format!("zone-file reader read {text:?} as {}, expected {}", hex(&o), hex(w)), case());
                        }
                        Err(why) => {
                            ctx.violation(&format!("C03|zonefile-scanner|{position}|accepted-should-reject|{why}"), &format!("zone-file reader accepted {text:?} as {}", hex(&o)), case());
                        }
                    }
                }
            }
            Ok(Err(e)) => {
                if want_zone.is_ok() {
                    let class: String = e.chars().filter(|c| !c.is_ascii_digit()).take(40).collect();
                    ctx.violation(&format!("C03|zonefile-scanner|{position}|rejected-should-accept|{class}"), &format!("zone-file reader rejected {text:?}: {e}"), case());
                }
            }
        }
    }
    // base::scan::IterScanner::scan_name (Name::from_symbols): always absolute
    let r = guard(|| {
        let mut sc = IterScanner::<_, Vec<u8>>::new([text.as_str()].into_iter());
        sc.scan_name().map(|n| n.as_slice().to_vec()).map_err(|e| e.to_string())
    });
    stats.eval();
    match r {
        Err(p) => {
            ctx.violation(&format!("C03|iter-scanner|panic|{}", panic_class(&p)), &p, case());
        }
        Ok(Ok(o)) => {
            if let Err(why) = validate_name(&o, true) {
                ctx.violation(&format!("C03|iter-scanner|invalid-output|{}", why_class(&why)), &format!("IterScanner::scan_name returned invalid name {} for {text:?}: {why}", hex(&o)), case());
            } else {
                match spec {
                    Ok((labels, _)) => {
                        if o != labels_wire(labels, true) {
                            ctx.violation("C03|iter-scanner|wrong-octets", &format!("IterScanner::scan_name read {text:?} as {}", hex(&o)), case());
                        }
                    }
                    Err(why) => {
                        ctx.violation(&format!("C03|iter-scanner|accepted-should-reject|{why}"), &format!("IterScanner::scan_name accepted {text:?} as {}", hex(&o)), case());
                    }
                }
            }
        }
        Ok(Ok_err) => {
            let Err(e) = Ok_err else { unreachable!() };
            if spec.is_ok() {
                ctx.violation("C03|iter-scanner|rejected-should-accept", &format!("IterScanner::scan_name rejected {text:?}: {e}"), case());
            }
        }
    }
}

fn check_text(ctx: &Ctx, stats: &Stats, chars: &[char]) {
    let s: String = chars.iter().collect();
    stats.eval();
    let spec = spec_parse(chars);
    check_scanners(ctx, stats, chars, &spec);
    // Name::from_str — always absolute
    let r = guard(|| Name::<Vec<u8>>::from_str(&s).map(|n| n.as_slice().to_vec()).map_err(|e| e.to_string()));
    let r2 = guard(|| Name::<Vec<u8>>::from_chars(s.chars()).map(|n| n.as_slice().to_vec()).map_err(|e| e.to_string()));
    let r3 = guard(|| RelativeName::<Vec<u8>>::from_str(&s).map(|n| n.as_slice().to_vec()).map_err(|e| e.to_string()));
    let r4 = guard(|| {
        UncertainName::<Vec<u8>>::from_str(&s)
            .map(|n| (n.is_absolute(), n.as_slice().to_vec()))
            .map_err(|e| e.to_string())
    });
    let case = || json!({"text": s});
    let (r, r2, r3, r4) = match (r, r2, r3, r4) {
        (Ok(a), Ok(b), Ok(c), Ok(d)) => (a, b, c, d),
        (a, b, c, d) => {
            let p = a.err().or(b.err()).or(c.err()).or(d.err()).unwrap();
            ctx.violation(&format!("C03|from_str|panic|{}", panic_class(&p)), &p, case());
            return;
        }
    };
    if r != r2 {
        ctx.violation("C03|from_str|Name::from_str-vs-from_chars-differ", "from_str and from_chars disagree", case());
    }
    // validity of whatever is returned
    if let Ok(o) = &r {
        stats.nontrivial.fetch_add(1, std::sync::atomic::Ordering::Relaxed);
        stats.distinct(fnv(o));
        if let Err(why) = validate_name(o, true) {
            ctx.violation(&format!("C03|from_str|Name|invalid-output|{}", why_class(&why)), &format!("Name::from_str({s:?}) returned invalid octets: {why}"), case());
        } else {
            name_roundtrips_abs(ctx, o, &s);
        }
    }
    if let Ok(o) = &r3 {
        if let Err(why) = validate_name(o, false) {
            ctx.violation(&format!("C03|from_str|RelativeName|invalid-output|{}", why_class(&why)), &format!("RelativeName::from_str({s:?}) returned invalid octets: {why}"), case());
        } else {
            name_roundtrips_rel(ctx, o, &s);
        }
    }
    if let Ok((abs, o)) = &r4 {
        if let Err(why) = validate_name(o, *abs) {
            ctx.violation(&format!("C03|from_str|UncertainName|invalid-output|{}", why_class(&why)), &format!("UncertainName::from_str({s:?}) returned invalid octets: {why}"), case());
        }
    }
    // agreement with the specified sub-language
    match spec {
        None => {
            stats.count("text.unspecified");
        }
        Some(Err(why)) => {
            stats.count("text.spec-reject");
            if r.is_ok() {
                ctx.violation(&format!("C03|from_str|Name|accepted-should-reject|{why}"), &format!("Name::from_str({s:?}) accepted: {}", hex(r.as_ref().unwrap())), case());
            }
            if r3.is_ok() && why != "empty" {
                ctx.violation(&format!("C03|from_str|RelativeName|accepted-should-reject|{why}"), &format!("RelativeName::from_str({s:?}) accepted"), case());
            }
            if r4.is_ok() && why != "empty" {
                ctx.violation(&format!("C03|from_str|UncertainName|accepted-should-reject|{why}"), &format!("UncertainName::from_str({s:?}) accepted"), case());
            }
        }
        Some(Ok((labels, absolute))) => {
            stats.count("text.spec-accept");
            let want_abs = labels_wire(&labels, true);
            // a relative presentation with 254 wire octets cannot take a root label
            if want_abs.len() <= 255 {
                if r.as_ref().ok() != Some(&want_abs) {
                    ctx.violation(
                        &format!("C03|from_str|Name|{}", if r.is_ok() { "wrong-octets" } else { "rejected-should-accept" }),
                        &format!("Name::from_str({s:?}) = {:?}, expected {}", r.as_ref().map(|o| hex(o)), hex(&want_abs)),
                        case(),
                    );
                }
            }
            let want_rel = labels_wire(&labels, false);
            if absolute {
                if r3.is_ok() {
                    ctx.violation("C03|from_str|RelativeName|accepted-absolute-text", &format!("RelativeName::from_str({s:?}) accepted a name with trailing dot"), case());
                }
                if want_abs.len() <= 255 && r4.as_ref().ok() != Some(&(true, want_abs.clone())) {
                    ctx.violation("C03|from_str|UncertainName|absolute-mismatch", &format!("UncertainName::from_str({s:?}) = {:?}", r4), case());
                }
            } else {
                if r3.as_ref().ok() != Some(&want_rel) {
                    ctx.violation(
                        &format!("C03|from_str|RelativeName|{}", if r3.is_ok() { "wrong-octets" } else { "rejected-should-accept" }),
                        &format!("RelativeName::from_str({s:?}) = {:?}, expected {}", r3.as_ref().map(|o| hex(o)), hex(&want_rel)),
                        case(),
                    );
                }
                if r4.as_ref().ok() != Some(&(false, want_rel.clone())) {
                    ctx.violation("C03|from_str|UncertainName|relative-mismatch", &format!("UncertainName::from_str({s:?}) = {:?}", r4), case());
                }
            }
        }
    }
}

fn why_class(why: &str) -> String {
    // strip numbers so one cause = one class
    why.chars().filter(|c| !c.is_ascii_digit()).take(48).collect()
}

// ---------------------------------------------------------------- part 2b

fn check_wire(ctx: &Ctx, stats: &Stats, octets: &[u8], origin: &str) {
    stats.eval();
    let va = validate_name(octets, true);
    let vr = validate_name(octets, false);
    let case = || json!({"octets": hex(octets), "family": origin});
    let r = guard(|| {
        let a = Name::from_octets(octets.to_vec()).is_ok();
        let b = Name::from_slice(octets).is_ok();
        let c = RelativeName::from_octets(octets.to_vec()).is_ok();
        let d = RelativeName::from_slice(octets).is_ok();
        let u = UncertainName::from_octets(octets.to_vec()).ok().map(|u| u.is_absolute());
        // Name::parse from a parser holding these octets followed by junk
        let mut buf = octets.to_vec();
        buf.extend_from_slice(&[0xAA, 0xBB]);
        let mut p = Parser::from_ref(buf.as_slice());
        let e = Name::parse(&mut p).ok().map(|n| n.as_slice().to_vec());
        (a, b, c, d, u, e)
    });
    let (a, b, c, d, u, e) = match r {
        Ok(x) => x,
        Err(p) => {
            ctx.violation(&format!("C03|wire|panic|{}", panic_class(&p)), &p, case());
            return;
        }
    };
    if va.is_ok() || vr.is_ok() {
        stats.nontrivial.fetch_add(1, std::sync::atomic::Ordering::Relaxed);
        stats.distinct(fnv(octets));
    }
    let cls = |v: &Result<Vec<Vec<u8>>, String>| v.as_ref().err().map(|w| why_class(w)).unwrap_or_default();
    if a != va.is_ok() || b != va.is_ok() {
        ctx.violation(
            &format!("C03|wire|Name::from_octets|{}|{}", if a || b { "accepted-should-reject" } else { "rejected-should-accept" }, cls(&va)),
            &format!("Name::from_octets/from_slice = {a}/{b}, validator: {:?}", va.as_ref().map(|_| ())),
            case(),
        );
    }
    if c != vr.is_ok() || d != vr.is_ok() {
        ctx.violation(
            &format!("C03|wire|RelativeName::from_octets|{}|{}", if c || d { "accepted-should-reject" } else { "rejected-should-accept" }, cls(&vr)),
            &format!("RelativeName::from_octets/from_slice = {c}/{d}, validator: {:?}", vr.as_ref().map(|_| ())),
            case(),
        );
    }
    let want_u = if va.is_ok() { Some(true) } else if vr.is_ok() { Some(false) } else { None };
    if u != want_u {
        ctx.violation("C03|wire|UncertainName::from_octets|mismatch", &format!("UncertainName::from_octets = {u:?}, expected {want_u:?}"), case());
    }
    // Name::parse takes the longest valid absolute prefix: it must be a
    // valid name and a prefix of the input.
    if let Some(n) = &e {
        if validate_name(n, true).is_err() || !octets.starts_with(n) && !(n.len() > octets.len()) {
            ctx.violation("C03|wire|Name::parse|invalid-output", &format!("Name::parse returned {}", hex(n)), case());
        }
    }
    if va.is_ok() && e.as_deref() != Some(octets) {
        ctx.violation("C03|wire|Name::parse|rejected-should-accept", "Name::parse did not return the valid name at the start of the parser", case());
    }
    if va.is_ok() {
        name_roundtrips_abs(ctx, octets, &origin);
    } else if vr.is_ok() {
        name_roundtrips_rel(ctx, octets, &origin);
    }
}

// ---------------------------------------------------------------- part 2c

fn boundaries(lens: &[usize]) -> Vec<usize> {
    let mut v = vec![0];
    let mut p = 0;
    for l in lens {
        p += l + 1;
        v.push(p);
    }
    v
}

fn check_slicing(ctx: &Ctx, stats: &Stats, lens: &[usize], fill: u8) {
    let rel = rel_wire(lens, fill);
    let mut abs = rel.clone();
    abs.push(0);
    let bnd = boundaries(lens); // label starts incl. root start (= rel.len())
    let name = Name::from_octets(abs.clone()).expect("harness: valid name");
    let rname = RelativeName::from_octets(rel.clone()).expect("harness: valid relative name");
    let case = |what: &str, i: usize, j: usize| json!({"label_lengths": lens, "fill": fill, "op": what, "i": i, "j": j});
    let n = abs.len();
    // helper: result classification
    let judge = |what: &str, i: usize, j: usize, legal: bool, res: Result<Vec<u8>, String>, want: Option<Vec<u8>>, absolute: bool| {
        stats.eval();
        match res {
            Err(p) => {
                stats.count("slicing.panic");
                if legal {
                    ctx.violation(&format!("C03|slicing|{what}|panic-on-valid-boundary"), &format!("{what}({i},{j}) panicked at a valid label boundary: {p}"), case(what, i, j));
                }
            }
            Ok(o) => {
                stats.count("slicing.ok");
                if let Err(why) = validate_name(&o, absolute) {
                    ctx.violation(&format!("C03|slicing|{what}|invalid-output|legal-index={legal}"), &format!("{what}({i},{j}) returned invalid name {}: {why}", hex(&o)), case(what, i, j));
                } else if legal && want.as_ref() != Some(&o) {
                    ctx.violation(&format!("C03|slicing|{what}|wrong-output"), &format!("{what}({i},{j}) returned {} expected {:?}", hex(&o), want.map(|w| hex(&w))), case(what, i, j));
                }
            }
        }
    };
    for i in 0..=n + 1 {
        let li = bnd.contains(&i);
        // is_label_start
        match guard(|| (name.is_label_start(i), rname.is_label_start(i))) {
            Ok((a, r)) => {
                // absolute: starts of all labels incl. root; relative: incl. end
                if a != li || r != li {
                    ctx.violation("C03|slicing|is_label_start|wrong", &format!("is_label_start({i}) = {a}/{r}, expected {li}"), case("is_label_start", i, 0));
                }
            }
            Err(p) => {
                ctx.violation(&format!("C03|slicing|is_label_start|panic|{}", panic_class(&p)), &p, case("is_label_start", i, 0));
            }
        }
        // absolute name, single index
        judge("Name::slice_from", i, 0, li, guard(|| name.slice_from(i).as_slice().to_vec()), abs.get(i..).map(|s| s.to_vec()), true);
        judge("Name::range_from", i, 0, li, guard(|| name.range_from(i).as_slice().to_vec()), abs.get(i..).map(|s| s.to_vec()), true);
        judge("Name::split.0", i, 0, li, guard(|| name.split(i).0.as_slice().to_vec()), abs.get(..i).map(|s| s.to_vec()), false);
        judge("Name::split.1", i, 0, li, guard(|| name.split(i).1.as_slice().to_vec()), abs.get(i..).map(|s| s.to_vec()), true);
        judge("Name::truncate", i, 0, li, guard(|| name.clone().truncate(i).as_slice().to_vec()), abs.get(..i).map(|s| s.to_vec()), false);
        // relative name, single index
        judge("RelativeName::split.0", i, 0, li, guard(|| rname.split(i).0.as_slice().to_vec()), rel.get(..i).map(|s| s.to_vec()), false);
        judge("RelativeName::split.1", i, 0, li, guard(|| rname.split(i).1.as_slice().to_vec()), rel.get(i..).map(|s| s.to_vec()), false);
        judge(
            "RelativeName::truncate",
            i,
            0,
            li,
            guard(|| {
                let mut r = rname.clone();
                r.truncate(i);
                r.as_slice().to_vec()
            }),
            rel.get(..i).map(|s| s.to_vec()),
            false,
        );
        for j in 0..=n + 1 {
            let lj = bnd.contains(&j);
            let legal = li && lj && i <= j;
            let want = if i <= j { abs.get(i..j).map(|s| s.to_vec()) } else { None };
            judge("Name::slice", i, j, legal, guard(|| name.slice(i..j).as_slice().to_vec()), want.clone(), false);
            judge("Name::range", i, j, legal, guard(|| name.range(i..j).as_slice().to_vec()), want.clone(), false);
            let wantr = if i <= j { rel.get(i..j).map(|s| s.to_vec()) } else { None };
            judge("RelativeName::slice", i, j, legal, guard(|| rname.slice(i..j).as_slice().to_vec()), wantr.clone(), false);
            judge("RelativeName::range", i, j, legal, guard(|| rname.range(i..j).as_slice().to_vec()), wantr.clone(), false);
            // the same octet range [i, j) written with every other supported form of RangeBounds
            if j >= 1 {
                judge("Name::slice(i..=j-1)", i, j, legal, guard(|| name.slice(i..=j - 1).as_slice().to_vec()), want.clone(), false);
                judge("Name::range(i..=j-1)", i, j, legal, guard(|| name.range(i..=j - 1).as_slice().to_vec()), want.clone(), false);
                judge("RelativeName::slice(i..=j-1)", i, j, legal, guard(|| rname.slice(i..=j - 1).as_slice().to_vec()), wantr.clone(), false);
                judge("RelativeName::range(i..=j-1)", i, j, legal, guard(|| rname.range(i..=j - 1).as_slice().to_vec()), wantr.clone(), false);
                judge("Name::slice((Included,Included))", i, j, legal, guard(|| name.slice((std::ops::Bound::Included(i), std::ops::Bound::Included(j - 1))).as_slice().to_vec()), want.clone(), false);
                judge("RelativeName::range((Included,Excluded))", i, j, legal, guard(|| rname.range((std::ops::Bound::Included(i), std::ops::Bound::Excluded(j))).as_slice().to_vec()), wantr.clone(), false);
            }
            if i == 0 {
                judge("Name::slice(..j)", i, j, legal, guard(|| name.slice(..j).as_slice().to_vec()), want.clone(), false);
                judge("Name::range(..j)", i, j, legal, guard(|| name.range(..j).as_slice().to_vec()), want.clone(), false);
                judge("RelativeName::slice(..j)", i, j, legal, guard(|| rname.slice(..j).as_slice().to_vec()), wantr.clone(), false);
                judge("RelativeName::range(..j)", i, j, legal, guard(|| rname.range(..j).as_slice().to_vec()), wantr.clone(), false);
                if j >= 1 {
                    judge("Name::slice(..=j-1)", i, j, legal, guard(|| name.slice(..=j - 1).as_slice().to_vec()), want.clone(), false);
                    judge("Name::range(..=j-1)", i, j, legal, guard(|| name.range(..=j - 1).as_slice().to_vec()), want.clone(), false);
                    judge("RelativeName::slice(..=j-1)", i, j, legal, guard(|| rname.slice(..=j - 1).as_slice().to_vec()), wantr.clone(), false);
                    judge("RelativeName::range(..=j-1)", i, j, legal, guard(|| rname.range(..=j - 1).as_slice().to_vec()), wantr.clone(), false);
                }
            }
            if j == rel.len() {
                // unbounded end: supported by the relative name only (the absolute name documents a panic)
                judge("RelativeName::slice(i..)", i, j, li && i <= j, guard(|| rname.slice(i..).as_slice().to_vec()), wantr.clone(), false);
                judge("RelativeName::range(i..)", i, j, li && i <= j, guard(|| rname.range(i..).as_slice().to_vec()), wantr.clone(), false);
                if i == 0 {
                    judge("RelativeName::slice(..)", i, j, true, guard(|| rname.slice(..).as_slice().to_vec()), wantr.clone(), false);
                }
            }
        }
    }
    // structural operations (no index)
    let r = guard(|| {
        let mut errs: Vec<String> = Vec::new();
        // parent / split_first / iter_suffixes
        let mut cur = abs.clone();
        for (k, suf) in name.iter_suffixes().enumerate().take(300) {
            let want = &abs[bnd[k]..];
            if suf.as_slice() != want {
                errs.push(format!("iter_suffixes[{k}] wrong"));
            }
            let _ = &mut cur;
        }
        if name.iter_suffixes().take(300).count() != lens.len() + 1 {
            errs.push("iter_suffixes count".into());
        }
        match name.parent() {
            Some(p) => {
                if lens.is_empty() || p.as_slice() != &abs[bnd[1]..] {
                    errs.push("parent wrong".into());
                }
            }
            None => {
                if !lens.is_empty() {
                    errs.push("parent None".into());
                }
            }
        }
        let ir = name.clone().into_relative();
        if ir.as_slice() != rel.as_slice() {
            errs.push("into_relative wrong".into());
        }
        let ia = rname.clone().into_absolute();
        match ia {
            Ok(a) => {
                if a.as_slice() != abs.as_slice() {
                    errs.push("into_absolute wrong".into());
                }
            }
            Err(_) => errs.push("into_absolute failed".into()),
        }
        // strip_suffix with every suffix
        for k in 0..bnd.len() {
            let suf = Name::from_octets(abs[bnd[k]..].to_vec()).unwrap();
            match name.clone().strip_suffix(&suf) {
                Ok(r) => {
                    if r.as_slice() != &abs[..bnd[k]] || validate_name(r.as_slice(), false).is_err() {
                        errs.push(format!("strip_suffix[{k}] wrong"));
                    }
                }
                Err(_) => errs.push(format!("strip_suffix[{k}] refused a real suffix")),
            }
        }
        // byte-level suffixes/prefixes that are NOT label-aligned must not be
        // taken for suffixes/prefixes (with fill octet 1 every mid-label
        // position looks like the start of a label)
        for k in 0..abs.len() {
            let aligned = bnd.contains(&k);
            if let Ok(base) = Name::from_octets(abs[k..].to_vec()) {
                let is_suffix = aligned;
                if name.ends_with(&base) != is_suffix {
                    errs.push(format!("Name::ends_with wrong for byte offset aligned={aligned}"));
                }
                match name.clone().strip_suffix(&base) {
                    Ok(r) => {
                        if !is_suffix || r.as_slice() != &abs[..k] || validate_name(r.as_slice(), false).is_err() {
                            errs.push(format!("Name::strip_suffix accepted/returned wrong result for aligned={aligned}"));
                        }
                    }
                    Err(_) => {
                        if is_suffix {
                            errs.push("Name::strip_suffix refused a real suffix".into());
                        }
                    }
                }
            }
            if k <= rel.len() {
                if let Ok(base) = RelativeName::from_octets(rel[k..].to_vec()) {
                    let is_suffix = aligned;
                    if rname.ends_with(&base) != is_suffix {
                        errs.push(format!("RelativeName::ends_with wrong for byte offset aligned={aligned}"));
                    }
                    let mut r = rname.clone();
                    match r.strip_suffix(&base) {
                        Ok(()) => {
                            if !is_suffix || r.as_slice() != &rel[..k] || validate_name(r.as_slice(), false).is_err() {
                                errs.push(format!("RelativeName::strip_suffix accepted/returned wrong result for aligned={aligned}"));
                            }
                        }
                        Err(_) => {
                            if is_suffix {
                                errs.push("RelativeName::strip_suffix refused a real suffix".into());
                            }
                        }
                    }
                }
                if let Ok(pre) = RelativeName::from_octets(rel[..k].to_vec()) {
                    if rname.starts_with(&pre) != aligned || name.starts_with(&pre) != aligned {
                        errs.push(format!("starts_with wrong for byte offset aligned={aligned}"));
                    }
                }
            }
        }
        // label iteration both ways agrees with lens
        let f: Vec<usize> = name.iter().take(300).map(|l| l.len()).collect();
        let mut want: Vec<usize> = lens.to_vec();
        want.push(0);
        if f != want {
            errs.push("iter wrong".into());
        }
        let mut bk: Vec<usize> = name.iter().rev().take(300).map(|l| l.len()).collect();
        bk.reverse();
        if bk != want {
            errs.push("iter_back wrong".into());
        }
        if name.label_count() != lens.len() + 1 || rname.label_count() != lens.len() {
            errs.push("label_count wrong".into());
        }
        errs
    });
    stats.eval();
    match r {
        Ok(errs) => {
            for e in errs {
                let class: String = e.chars().filter(|c| !c.is_ascii_digit()).collect();
                ctx.violation(&format!("C03|structural|{class}"), &e, json!({"label_lengths": lens, "fill": fill}));
            }
        }
        Err(p) => {
            ctx.violation(&format!("C03|structural|panic|{}", panic_class(&p)), &p, json!({"label_lengths": lens, "fill": fill}));
        }
    }
}


// ---------------------------------------------------------------- part 2d

/// Compressed representations: every way of laying a name out in a message
/// with pointers (label+pointer, bare pointer to a flat / compressed name,
/// pointer to pointer) must yield the same valid name through every
/// conversion of ParsedName.
fn check_parsed(ctx: &Ctx, stats: &Stats, lens: &[usize]) {
    use domain::base::name::ParsedName;
    // message: 12 header octets, then the suffix names laid out so that
    // name k = first label of suffix k + pointer to suffix k+1
    let n = lens.len();
    let mut msg = vec![0u8; 12];
    let mut starts = vec![0usize; n + 1];
    // root-most first: suffix n is the root name
    starts[n] = msg.len();
    msg.push(0);
    for k in (0..n).rev() {
        starts[k] = msg.len();
        msg.push(lens[k] as u8);
        msg.extend(std::iter::repeat(b'a' + (k as u8 % 20)).take(lens[k]));
        let t = starts[k + 1];
        msg.push(0xC0 | (t >> 8) as u8);
        msg.push(t as u8);
    }
    // bare pointers: to the fully compressed name, and a pointer to that pointer
    let bare = msg.len();
    msg.push(0xC0 | (starts[0] >> 8) as u8);
    msg.push(starts[0] as u8);
    let bare2 = msg.len();
    msg.push(0xC0 | (bare >> 8) as u8);
    msg.push(bare as u8);
    msg.extend_from_slice(&[0xEE, 0xEE, 0xEE]); // trailing data
    // expected flat form
    let mut want = Vec::new();
    for (k, l) in lens.iter().enumerate() {
        want.push(*l as u8);
        want.extend(std::iter::repeat(b'a' + (k as u8 % 20)).take(*l));
    }
    want.push(0);
    let too_long = want.len() > 255;
    for (what, at) in [("label+pointer-chain", starts[0]), ("bare-pointer-to-compressed", bare), ("pointer-to-pointer", bare2)] {
        stats.eval();
        let case = || json!({"label_lengths": lens, "layout": what, "message": hex(&msg), "at": at});
        let r = guard(|| {
            let mut p = Parser::from_ref(msg.as_slice());
            p.advance(at).unwrap();
            let pn = match ParsedName::parse(&mut p) {
                Ok(pn) => pn,
                Err(e) => return Err(format!("rejected: {e}")),
            };
            let mut errs = Vec::new();
            if pn.to_vec().as_slice() != want.as_slice() {
                errs.push("to_vec".to_string());
            }
            let mut c = Vec::new();
            pn.compose(&mut c).unwrap();
            if c != want {
                errs.push("compose".into());
            }
            let mut cc = Vec::new();
            pn.compose_canonical(&mut cc).unwrap();
            if cc != want.to_ascii_lowercase() {
                errs.push("compose_canonical".into());
            }
            if usize::from(pn.compose_len()) != want.len() {
                errs.push("compose_len".into());
            }
            let flat = Name::from_octets(want.clone()).map_err(|e| format!("harness: {e}"))?;
            if pn != flat || !pn.name_eq(&flat) || flat != pn {
                errs.push("eq-with-flat".into());
            }
            let cow = pn.to_cow();
            if cow.as_slice() != want.as_slice() {
                errs.push("to_cow".into());
            }
            if format!("{}", pn) != format!("{}", flat) {
                errs.push("display".into());
            }
            let labels: Vec<usize> = pn.iter().map(|l| l.len()).collect();
            let mut wl = lens.to_vec();
            wl.push(0);
            if labels != wl {
                errs.push("iter".into());
            }
            if validate_name(&c, true).is_err() {
                errs.push("invalid-name".into());
            }
            Ok(errs)
        });
        match r {
            Err(p) => {
                ctx.violation(&format!("C03|parsed|{what}|panic|{}", panic_class(&p)), &p, case());
            }
            Ok(Err(why)) => {
                if !too_long {
                    ctx.violation(&format!("C03|parsed|{what}|rejected-should-accept"), &why, case());
                }
            }
            Ok(Ok(errs)) => {
                if too_long {
                    ctx.violation(&format!("C03|parsed|{what}|accepted-should-reject|total>255"), "a compressed name longer than 255 octets was accepted", case());
                }
                for e in errs {
                    ctx.violation(&format!("C03|parsed|{what}|{e}-differs-from-the-uncompressed-name"), &format!("ParsedName::{e} of a {what} name differs from the flat name"), case());
                }
                stats.distinct(fnv(&msg) ^ at as u64);
            }
        }
    }
}

/// chain(): all pairs of names from a total-length menu.
fn check_chain(ctx: &Ctx, stats: &Stats) {
    let totals = [0usize, 1 + 1, 64, 126, 127, 128, 129, 190, 253, 254];
    for &lt in &totals {
        for &rt in &totals {
            let l = rel_wire(&lens_for_total(lt), b'l');
            let left = RelativeName::from_octets(l.clone()).unwrap();
            // relative + relative
            {
                stats.eval();
                let r = rel_wire(&lens_for_total(rt), b'r');
                let right = RelativeName::from_octets(r.clone()).unwrap();
                let res = guard(|| {
                    left.clone().chain(right.clone()).ok().map(|c| {
                        let mut buf = Vec::new();
                        for lab in c.iter_labels() {
                            lab.compose(&mut buf).unwrap();
                        }
                        (buf, usize::from(c.compose_len()), Some(c.to_relative_name::<Vec<u8>>().as_slice().to_vec()))
                    })
                });
                let case = json!({"left": lt, "right": rt, "kind": "relative+relative"});
                match res {
                    Err(p) => {
                        ctx.violation(&format!("C03|chain|rel+rel|panic|{}", panic_class(&p)), &p, case);
                    }
                    Ok(None) => {
                        if lt + rt <= 254 {
                            ctx.violation("C03|chain|rel+rel|rejected-should-accept", &format!("chain of {lt}+{rt} octets refused"), case);
                        }
                    }
                    Ok(Some((buf, clen, flat))) => {
                        let mut want = l.clone();
                        want.extend_from_slice(&r);
                        if lt + rt > 254 {
                            ctx.violation(&format!("C03|chain|rel+rel|total={}|accepted-should-reject", total_class(lt + rt)), &format!("relative chain of {lt}+{rt} = {} octets accepted (limit 254)", lt + rt), case);
                        } else if buf != want || clen != want.len() || flat.as_deref() != Some(&want[..]) {
                            ctx.violation("C03|chain|rel+rel|wrong-content", "chain content differs from concatenation", case);
                        }
                    }
                }
            }
            // relative + absolute
            {
                stats.eval();
                let mut r = rel_wire(&lens_for_total(rt), b'r');
                r.push(0);
                let right = Name::from_octets(r.clone()).unwrap();
                let res = guard(|| {
                    left.clone().chain(right.clone()).ok().map(|c| {
                        let mut buf = Vec::new();
                        for lab in c.iter_labels() {
                            lab.compose(&mut buf).unwrap();
                        }
                        (buf, usize::from(c.compose_len()), c.to_name::<Vec<u8>>().as_slice().to_vec())
                    })
                });
                let case = json!({"left": lt, "right": rt + 1, "kind": "relative+absolute"});
                match res {
                    Err(p) => {
                        ctx.violation(&format!("C03|chain|rel+abs|panic|{}", panic_class(&p)), &p, case);
                    }
                    Ok(None) => {
                        if lt + rt + 1 <= 255 {
                            ctx.violation("C03|chain|rel+abs|rejected-should-accept", &format!("chain of {lt}+{} octets refused", rt + 1), case);
                        }
                    }
                    Ok(Some((buf, clen, flat))) => {
                        let mut want = l.clone();
                        want.extend_from_slice(&r);
                        if lt + rt + 1 > 255 {
                            ctx.violation("C03|chain|rel+abs|accepted-should-reject", &format!("absolute chain of {} octets accepted", lt + rt + 1), case);
                        } else if buf != want || clen != want.len() || flat != want {
                            ctx.violation("C03|chain|rel+abs|wrong-content", "chain content differs from concatenation", case);
                        }
                    }
                }
            }
        }
    }
}

// ---------------------------------------------------------------- part 2e
// The OCTET axis of the text round trip. Parts 1-2d produce name values whose
// label contents come from a small menu (fill octets, an 11-symbol text
// alphabet), so a writer or reader of presentation text that mishandles one
// octet VALUE is never exercised. Here every octet value 0..=255 is put at
// every kind of place of a label (alone, first, middle, last, next to each
// character with a meaning of its own: dot, backslash, space, digit), in the
// only / first / last label of a name, plus every ordered pair of octets from
// a class-boundary menu as a two-octet label and a long name filled with the
// octet. Each such value is held as every name type; EVERY route that writes
// presentation text is run, and every distinct text is read back by EVERY
// route that reads presentation text.
//
// Oracle (nothing of it is taken from the library's writer):
//  (w) the text denotes exactly the value's label octets under the escape
//      rules of RFC 1035 section 5.1 as written in `rfc1035_read` below
//      (`\DDD` = octet of that decimal value, `\X` = X itself, `.` separates
//      labels, anything else stands for itself), has a trailing dot where the
//      writer is the with-dot one (or the value is an absolute UncertainName)
//      and has none for a relative value; unescaped characters outside
//      0x21..=0x7E are reported (no reader has to take them);
//  (r) round-trip identity: every reader returns the octets the text was
//      written from (plus root / origin as that reader documents), and a
//      relative reader refuses a text with a trailing dot.

struct RfcText {
    labels: Vec<Vec<u8>>,
    dot: bool,
    /// every unescaped character is a printing ASCII character (0x21..=0x7E)
    printable: bool,
}

/// RFC 1035 section 5.1 reader of a domain name in presentation format.
fn rfc1035_read(text: &str) -> Result<RfcText, &'static str> {
    let c: Vec<char> = text.chars().collect();
    if c.is_empty() {
        return Err("empty-text");
    }
    if c == ['.'] {
        return Ok(RfcText { labels: vec![], dot: true, printable: true });
    }
    let (mut labels, mut cur, mut open, mut dot, mut printable) = (Vec::new(), Vec::new(), false, false, true);
    let mut i = 0;
    while i < c.len() {
        let ch = c[i];
        if ch == '.' {
            if !open {
                return Err("empty-label");
            }
            labels.push(std::mem::take(&mut cur));
            open = false;
            dot = true;
            i += 1;
            continue;
        }
        let octet = if ch == '\\' {
            match c.get(i + 1) {
                None => return Err("backslash-at-the-end"),
                Some(d1) if d1.is_ascii_digit() => {
                    let (Some(d2), Some(d3)) = (c.get(i + 2).and_then(|d| d.to_digit(10)), c.get(i + 3).and_then(|d| d.to_digit(10))) else {
                        return Err("decimal-escape-without-three-digits");
                    };
                    let v = d1.to_digit(10).unwrap() * 100 + d2 * 10 + d3;
                    if v > 255 {
                        return Err("decimal-escape-above-255");
                    }
                    i += 4;
                    v as u8
                }
                Some(x) if (' '..='~').contains(x) => {
                    i += 2;
                    *x as u8
                }
                Some(_) => return Err("backslash-before-a-non-printable-character"),
            }
        } else {
            if !('!'..='~').contains(&ch) {
                printable = false;
            }
            if ch as u32 > 0xFF {
                return Err("character-above-U+00FF");
            }
            i += 1;
            ch as u32 as u8
        };
        cur.push(octet);
        open = true;
        dot = false;
    }
    if open {
        labels.push(cur);
    }
    Ok(RfcText { labels, dot, printable })
}

/// One record line through the zone-file reader (origin `o.`): owner and NS target as wire octets.
fn zone_line(line: &str) -> Option<(Vec<u8>, Vec<u8>)> {
    use domain::rdata::ZoneRecordData;
    use domain::zonefile::inplace::{Entry, Zonefile};
    let mut z = Zonefile::from(line.as_bytes());
    z.set_origin(Name::from_str("o.").unwrap());
    match z.next_entry() {
        Ok(Some(Entry::Record(r))) => {
            let (mut o, mut t) = (Vec::new(), Vec::new());
            r.owner().compose(&mut o).unwrap();
            match r.data() {
                ZoneRecordData::Ns(ns) => ns.nsdname().compose(&mut t).unwrap(),
                _ => return None,
            }
            Some((o, t))
        }
        _ => None,
    }
}

#[derive(Clone, Copy, PartialEq)]
enum Form {
    /// the writer is documented to end the text in a dot
    MustDot,
    /// the value is relative: a trailing dot would make it read back as another kind of name
    Relative,
    /// absolute value through a writer that may or may not write the final dot
    Either,
}

/// What a reader has to return for a text.
enum Want {
    /// these octets (and, for UncertainName, this answer of is_absolute)
    Octets(Vec<u8>, Option<bool>),
    Reject,
    /// no demand stated anywhere (the serde reader of RelativeName on a text with a trailing
    /// dot: FromStr documents an error, the deserializer documents nothing and drops the dot):
    /// whatever it returns has to be a valid relative name
    AnyValidRelative,
}

type Read = Option<(Vec<u8>, Option<bool>)>;

/// Every text-reading route on one text that denotes `labels` (+ trailing dot).
fn read_back(ctx: &Ctx, stats: &Stats, text: &str, labels: &[Vec<u8>], dot: bool, writers: &[String], case: &dyn Fn() -> Value) {
    use domain::base::name::OwnedLabel;
    use domain::base::scan::{IterScanner, Scanner, Symbols};
    let rel_w = labels_wire(labels, false);
    let abs_w = labels_wire(labels, true);
    let zone_w = {
        let mut w = rel_w.clone();
        if !dot {
            w.extend_from_slice(&[1, b'o']);
        }
        w.push(0);
        w
    };
    let json_text = serde_json::to_string(text).unwrap();
    let json_text = json_text.as_str();
    let abs = || Want::Octets(abs_w.clone(), None);
    let rel = || if dot { Want::Reject } else { Want::Octets(rel_w.clone(), None) };
    let unc = || Want::Octets(if dot { abs_w.clone() } else { rel_w.clone() }, Some(dot));
    let zone = || if zone_w.len() > 255 { Want::Reject } else { Want::Octets(zone_w.clone(), None) };
    let n = |r: Option<Name<Vec<u8>>>| -> Read { r.map(|n| (n.as_slice().to_vec(), None)) };
    let r = |r: Option<RelativeName<Vec<u8>>>| -> Read { r.map(|n| (n.as_slice().to_vec(), None)) };
    let u = |r: Option<UncertainName<Vec<u8>>>| -> Read { r.map(|n| (n.as_slice().to_vec(), Some(n.is_absolute()))) };
    let l = |r: Option<OwnedLabel>| -> Read { r.map(|n| (n.as_label().as_slice().to_vec(), None)) };
    let mut routes: Vec<(&'static str, Want, Box<dyn Fn() -> Read + '_>)> = vec![
        ("Name::from_str", abs(), Box::new(|| n(Name::from_str(text).ok()))),
        ("Name::from_chars", abs(), Box::new(|| n(Name::from_chars(text.chars()).ok()))),
        (
            "Name::from_symbols",
            abs(),
            Box::new(|| {
                let mut s = Symbols::new(text.chars());
                let res = Name::from_symbols(&mut s).ok();
                s.ok().ok().and(n(res))
            }),
        ),
        (
            "NameBuilder::append_chars+into_name",
            abs(),
            Box::new(|| {
                let mut b = NameBuilder::new_vec();
                b.append_chars(text.chars()).ok()?;
                n(b.into_name().ok())
            }),
        ),
        (
            "NameBuilder::append_chars+finish",
            Want::Octets(rel_w.clone(), None),
            Box::new(|| {
                let mut b = NameBuilder::new_vec();
                b.append_chars(text.chars()).ok()?;
                r(Some(b.finish()))
            }),
        ),
        (
            "IterScanner::scan_name",
            abs(),
            Box::new(|| {
                let mut sc = IterScanner::<_, Vec<u8>>::new([text].into_iter());
                n(sc.scan_name().ok())
            }),
        ),
        ("serde-human-readable->Name", abs(), Box::new(|| n(serde_json::from_str(json_text).ok()))),
        ("RelativeName::from_str", rel(), Box::new(|| r(RelativeName::from_str(text).ok()))),
        ("RelativeName::from_chars", rel(), Box::new(|| r(RelativeName::from_chars(text.chars()).ok()))),
        ("serde-human-readable->RelativeName", if dot { Want::AnyValidRelative } else { rel() }, Box::new(|| r(serde_json::from_str(json_text).ok()))),
        ("UncertainName::from_str", unc(), Box::new(|| u(UncertainName::from_str(text).ok()))),
        ("UncertainName::from_chars", unc(), Box::new(|| u(UncertainName::from_chars(text.chars()).ok()))),
        ("serde-human-readable->UncertainName", unc(), Box::new(|| u(serde_json::from_str(json_text).ok()))),
        ("zonefile-reader-owner", zone(), Box::new(|| zone_line(&format!("{text} 3600 IN NS x.\n")).map(|(o, _)| (o, None)))),
        ("zonefile-reader-rdata", zone(), Box::new(|| zone_line(&format!("x. 3600 IN NS {text}\n")).map(|(_, t)| (t, None)))),
    ];
    if labels.len() == 1 && !dot {
        let lab = || Want::Octets(labels[0].clone(), None);
        routes.push(("OwnedLabel::from_str", lab(), Box::new(|| l(OwnedLabel::from_str(text).ok()))));
        routes.push(("OwnedLabel::from_chars", lab(), Box::new(|| l(OwnedLabel::from_chars(text.chars()).ok()))));
        routes.push(("serde-human-readable->OwnedLabel", lab(), Box::new(|| l(serde_json::from_str(json_text).ok()))));
    }
    for (reader, want, f) in routes {
        stats.eval();
        let sig = format!("C03|octet-axis|read|{reader}");
        let from = || format!("text {text:?} written by {}", writers.join(", "));
        match (guard(|| f()), want) {
            (Err(p), _) => {
                ctx.violation(&format!("{sig}|panic|{}", panic_class(&p)), &format!("{} : {p}", from()), case());
            }
            (Ok(None), Want::Reject) | (Ok(None), Want::AnyValidRelative) => {}
            (Ok(Some((o, _))), Want::AnyValidRelative) => {
                stats.count("octet_axis.serde-RelativeName-takes-text-with-trailing-dot");
                if let Err(why) = validate_name(&o, false) {
                    ctx.violation(&format!("{sig}|invalid-output|{}", why_class(&why)), &format!("{reader} reads the {} as the invalid relative name {}: {why}", from(), hex(&o)), case());
                }
            }
            (Ok(None), Want::Octets(w, _)) => {
                ctx.violation(&format!("{sig}|rejects-text-the-library-wrote"), &format!("{reader} rejects the {}; expected octets {}", from(), hex(&w)), case());
            }
            (Ok(Some((o, _))), Want::Reject) => {
                ctx.violation(&format!("{sig}|accepted-should-reject|dot={dot}|result-len={}", total_class(o.len())), &format!("{reader} accepts the {} as {}", from(), hex(&o)), case());
            }
            (Ok(Some((o, k))), Want::Octets(w, wk)) => {
                if o != w {
                    ctx.violation(&format!("{sig}|reads-other-octets"), &format!("{reader} reads the {} as {}, expected {}", from(), hex(&o), hex(&w)), case());
                } else if wk.is_some() && k != wk {
                    ctx.violation(&format!("{sig}|reads-other-kind-of-name|dot={dot}"), &format!("{reader} reads the {} with is_absolute() = {k:?}", from()), case());
                } else {
                    stats.distinct(fnv(text.as_bytes()) ^ fnv(reader.as_bytes()));
                }
            }
        }
    }
}

/// One name value (non-empty list of labels) held as every name type, written by every
/// text-producing route, each distinct text read back by every text-reading route.
fn check_octet_name(ctx: &Ctx, stats: &Stats, labels: &[Vec<u8>]) {
    use domain::base::iana::Class;
    use domain::base::name::{OwnedLabel, ParsedName};
    use domain::base::zonefile_fmt::{DisplayKind, ZonefileFmt};
    use domain::base::{Record, Ttl};
    use domain::rdata::Ns;
    assert!(!labels.is_empty());
    let rel_w = labels_wire(labels, false);
    let abs_w = labels_wire(labels, true);
    let case = || json!({"octet_axis": {"labels": labels.iter().map(|l| hex(l)).collect::<Vec<_>>()}});
    // the value in every representation
    let built = guard(|| {
        let rel = RelativeName::from_octets(rel_w.clone()).ok()?;
        let abs = Name::from_octets(abs_w.clone()).ok()?;
        let first = RelativeName::from_octets(labels_wire(&labels[..1], false)).ok()?;
        let rest_rel = RelativeName::from_octets(labels_wire(&labels[1..], false)).ok()?;
        let rest_abs = Name::from_octets(labels_wire(&labels[1..], true)).ok()?;
        Some((rel, abs, first, rest_rel, rest_abs))
    });
    let (rel, abs, first, rest_rel, rest_abs) = match built {
        Ok(Some(x)) => x,
        Ok(None) => {
            ctx.violation("C03|octet-axis|construct|from_octets-rejects-valid-name", &format!("from_octets rejects the valid name {}", hex(&abs_w)), case());
            return;
        }
        Err(p) => {
            ctx.violation(&format!("C03|octet-axis|construct|panic|{}", panic_class(&p)), &p, case());
            return;
        }
    };
    let root = Name::from_octets(vec![0u8]).unwrap();
    let other = Name::from_octets(vec![1u8, b'x', 0]).unwrap();
    let rel_s = RelativeName::from_slice(&rel_w).unwrap();
    let abs_s = Name::from_slice(&abs_w).unwrap();
    let unc_rel = UncertainName::relative(rel.clone());
    let unc_abs = UncertainName::absolute(abs.clone());
    // message: the flat name at 12, then "first label + pointer into the flat name"
    let mut msg = vec![0u8; 12];
    msg.extend_from_slice(&abs_w);
    let comp_at = msg.len();
    msg.push(labels[0].len() as u8);
    msg.extend_from_slice(&labels[0]);
    let t = 12 + 1 + labels[0].len();
    msg.extend_from_slice(&[0xC0 | (t >> 8) as u8, t as u8]);
    let parsed = guard(|| {
        let mut p = Parser::from_ref(msg.as_slice());
        p.advance(12).unwrap();
        let flat = ParsedName::parse(&mut p).ok()?;
        let mut p = Parser::from_ref(msg.as_slice());
        p.advance(comp_at).unwrap();
        let comp = ParsedName::parse(&mut p).ok()?;
        Some((flat, comp))
    });
    let parsed = match parsed {
        Ok(Some(x)) => Some(x),
        _ => {
            ctx.violation("C03|octet-axis|construct|ParsedName::parse-rejects-valid-name", "ParsedName::parse fails on a valid flat / compressed name", case());
            None
        }
    };
    let chains = guard(|| {
        let c1 = rel.clone().chain(root.clone()).ok()?;
        let c2 = first.clone().chain(rest_abs.clone()).ok()?;
        let c3 = first.clone().chain(rest_rel.clone()).ok()?;
        let c4 = c3.clone().chain(root.clone()).ok()?;
        let c5 = unc_rel.clone().chain(root.clone()).ok()?;
        let c6 = unc_abs.clone().chain(other.clone()).ok()?;
        Some((c1, c2, c3, c4, c5, c6))
    });
    let chains = match chains {
        Ok(Some(x)) => Some(x),
        _ => {
            ctx.violation("C03|octet-axis|construct|chain-refuses-short-names", "chain() of short names fails", case());
            None
        }
    };
    let owned: Vec<OwnedLabel> = rel.iter().map(OwnedLabel::from_label).collect();
    const WHOLE: usize = usize::MAX;
    // (type, writer, form, which label or WHOLE, text)
    let mut texts: Vec<(&'static str, &'static str, Form, usize, String)> = Vec::new();
    {
        let mut w = |ty: &'static str, writer: &'static str, form: Form, which: usize, f: &dyn Fn() -> String| {
            stats.eval();
            match guard(|| f()) {
                Ok(t) => texts.push((ty, writer, form, which, t)),
                Err(p) => {
                    ctx.violation(&format!("C03|octet-axis|write|{ty}|{writer}|panic|{}", panic_class(&p)), &p, case());
                }
            }
        };
        fn ser<T: serde::Serialize + ?Sized>(v: &T) -> String {
            serde_json::from_str::<String>(&serde_json::to_string(v).expect("serde_json: serialize")).expect("serde_json: a name serializes as a string")
        }
        use Form::*;
        w("Name", "Display", Either, WHOLE, &|| format!("{}", abs));
        w("Name", "to_string", Either, WHOLE, &|| abs.to_string());
        w("Name", "fmt_with_dot", MustDot, WHOLE, &|| format!("{}", abs.fmt_with_dot()));
        w("Name", "ToName::fmt_with_dot", MustDot, WHOLE, &|| format!("{}", ToName::fmt_with_dot(&abs)));
        w("Name<[u8]>", "Display", Either, WHOLE, &|| format!("{}", abs_s));
        w("Name<[u8]>", "fmt_with_dot", MustDot, WHOLE, &|| format!("{}", abs_s.fmt_with_dot()));
        w("Name", "serde-human-readable", Either, WHOLE, &|| ser(&abs));
        w("Ns<Name>", "Display", MustDot, WHOLE, &|| format!("{}", Ns::new(abs.clone())));
        w("UncertainName(absolute)", "Display", MustDot, WHOLE, &|| format!("{}", unc_abs));
        w("UncertainName(absolute)", "serde-human-readable", MustDot, WHOLE, &|| ser(&unc_abs));
        w("RelativeName", "Display", Relative, WHOLE, &|| format!("{}", rel));
        w("RelativeName", "to_string", Relative, WHOLE, &|| rel.to_string());
        w("RelativeName<[u8]>", "Display", Relative, WHOLE, &|| format!("{}", rel_s));
        w("RelativeName", "serde-human-readable", Relative, WHOLE, &|| ser(&rel));
        w("UncertainName(relative)", "Display", Relative, WHOLE, &|| format!("{}", unc_rel));
        w("UncertainName(relative)", "serde-human-readable", Relative, WHOLE, &|| ser(&unc_rel));
        if let Some((flat, comp)) = &parsed {
            w("ParsedName(flat)", "Display", Either, WHOLE, &|| format!("{}", flat));
            w("ParsedName(flat)", "ToName::fmt_with_dot", MustDot, WHOLE, &|| format!("{}", flat.fmt_with_dot()));
            w("ParsedName(compressed)", "Display", Either, WHOLE, &|| format!("{}", comp));
            w("ParsedName(compressed)", "ToName::fmt_with_dot", MustDot, WHOLE, &|| format!("{}", comp.fmt_with_dot()));
        }
        if let Some((c1, c2, c3, c4, c5, c6)) = &chains {
            w("Chain<RelativeName,Name>(all+root)", "Display", Either, WHOLE, &|| format!("{}", c1));
            w("Chain<RelativeName,Name>(all+root)", "fmt_with_dot", MustDot, WHOLE, &|| format!("{}", c1.fmt_with_dot()));
            w("Chain<RelativeName,Name>(first+rest)", "Display", Either, WHOLE, &|| format!("{}", c2));
            w("Chain<RelativeName,Name>(first+rest)", "fmt_with_dot", MustDot, WHOLE, &|| format!("{}", c2.fmt_with_dot()));
            w("Chain<RelativeName,RelativeName>", "Display", Relative, WHOLE, &|| format!("{}", c3));
            w("Chain<Chain<RelativeName,RelativeName>,Name>", "Display", Either, WHOLE, &|| format!("{}", c4));
            w("Chain<Chain<RelativeName,RelativeName>,Name>", "fmt_with_dot", MustDot, WHOLE, &|| format!("{}", c4.fmt_with_dot()));
            w("Chain<UncertainName(relative),Name>", "Display", Either, WHOLE, &|| format!("{}", c5));
            w("Chain<UncertainName(relative),Name>", "fmt_with_dot", MustDot, WHOLE, &|| format!("{}", c5.fmt_with_dot()));
            w("Chain<UncertainName(absolute),Name>", "Display", Either, WHOLE, &|| format!("{}", c6));
            w("Chain<UncertainName(absolute),Name>", "fmt_with_dot", MustDot, WHOLE, &|| format!("{}", c6.fmt_with_dot()));
        }
        for (k, lab) in rel.iter().enumerate() {
            w("Label", "Display", Relative, k, &|| format!("{}", lab));
            w("OwnedLabel", "Display", Relative, k, &|| format!("{}", owned[k]));
            w("OwnedLabel", "serde-human-readable", Relative, k, &|| ser(&owned[k]));
        }
    }
    // (w): what the text denotes by the RFC rules; collect the distinct texts
    let mut distinct: BTreeMap<(String, usize, bool), Vec<String>> = BTreeMap::new();
    for (ty, writer, form, which, text) in &texts {
        let want: &[Vec<u8>] = if *which == WHOLE { labels } else { &labels[*which..*which + 1] };
        let sig = format!("C03|octet-axis|write|{ty}|{writer}");
        let what = |why: &str| format!("{ty} {writer} writes {} as {text:?}: {why}", hex(&labels_wire(want, false)));
        match rfc1035_read(text) {
            Err(why) => {
                ctx.violation(&format!("{sig}|text-is-not-presentation-format|{why}"), &what(why), case());
            }
            Ok(t) => {
                if t.labels != want {
                    ctx.violation(&format!("{sig}|text-denotes-other-octets"), &what(&format!("by RFC 1035 5.1 that is {}", hex(&labels_wire(&t.labels, false)))), case());
                    continue;
                }
                if !t.printable {
                    ctx.violation(&format!("{sig}|unescaped-character-outside-printable-ascii"), &what("an octet outside 0x21..=0x7E must be written as a \\DDD or \\X escape"), case());
                }
                if *form == Form::MustDot && !t.dot {
                    ctx.violation(&format!("{sig}|no-trailing-dot"), &what("the text of this writer has to end in a dot"), case());
                    continue;
                }
                if *form == Form::Relative && t.dot {
                    ctx.violation(&format!("{sig}|trailing-dot-on-relative-value"), &what("the text of a relative value ends in a dot"), case());
                    continue;
                }
                distinct.entry((text.clone(), *which, t.dot)).or_default().push(format!("{ty} {writer}"));
            }
        }
    }
    // (r): every reader on every distinct text
    for ((text, which, dot), writers) in &distinct {
        let want: &[Vec<u8>] = if *which == WHOLE { labels } else { &labels[*which..*which + 1] };
        read_back(ctx, stats, text, want, *dot, writers, &case);
    }
    // whole record lines in zone-file style, read by the zone-file reader
    let rec = Record::new(abs.clone(), Class::IN, Ttl::from_secs(3600), Ns::new(abs.clone()));
    let lines: [(&'static str, &dyn Fn() -> String); 4] = [
        ("Record::display_zonefile(Simple)", &|| format!("{}\n", rec.display_zonefile(DisplayKind::Simple))),
        ("Record::display_zonefile(Tabbed)", &|| format!("{}\n", rec.display_zonefile(DisplayKind::Tabbed))),
        ("Record::display_zonefile(Multiline)", &|| format!("{}\n", rec.display_zonefile(DisplayKind::Multiline))),
        ("Record::Display", &|| format!("{}\n", rec)),
    ];
    for (writer, f) in lines {
        stats.eval();
        let sig = format!("C03|octet-axis|record-line|{writer}");
        match guard(|| {
            let line = f();
            let back = zone_line(&line);
            (line, back)
        }) {
            Err(p) => {
                ctx.violation(&format!("{sig}|panic|{}", panic_class(&p)), &p, case());
            }
            Ok((line, None)) => {
                ctx.violation(&format!("{sig}|zonefile-reader-rejects-the-line"), &format!("the zone-file reader does not read the NS record line {line:?} written for owner = target = {}", hex(&abs_w)), case());
            }
            Ok((line, Some((o, t)))) => {
                if o != abs_w || t != abs_w {
                    ctx.violation(
                        &format!("{sig}|zonefile-reader-reads-other-octets|{}", if o != abs_w { "owner" } else { "rdata" }),
                        &format!("the line {line:?} written for owner = target = {} reads back as owner {} target {}", hex(&abs_w), hex(&o), hex(&t)),
                        case(),
                    );
                }
            }
        }
    }
}

/// The name values of the octet axis.
fn octet_axis_names(quick: bool) -> Vec<Vec<Vec<u8>>> {
    let mut names: std::collections::BTreeSet<Vec<Vec<u8>>> = Default::default();
    let other = b"b".to_vec();
    let mut place = |p: Vec<u8>, all: bool| {
        names.insert(vec![p.clone()]);
        names.insert(vec![p.clone(), other.clone()]);
        if all {
            names.insert(vec![other.clone(), p.clone()]);
        }
    };
    // characters with a meaning of their own next to the octet: label separator, escape
    // character, token separator, digit (a decimal escape followed by a digit)
    let special = [b'.', b'\\', b' ', b'1'];
    for v in 0..=255u8 {
        place(vec![v], true);
        place(vec![v, b'a', b'a'], true);
        place(vec![b'a', v, b'a'], true);
        place(vec![b'a', b'a', v], true);
        for s in special {
            place(vec![v, s], true);
            place(vec![s, v], true);
            place(vec![s, v, s], true);
        }
    }
    // every ordered pair of octets around the class boundaries as a two-octet label
    let menu: Vec<u8> = if quick {
        vec![
            0x00, 0x01, 0x09, 0x0A, 0x0D, 0x1F, 0x20, 0x21, 0x22, 0x23, 0x24, 0x28, 0x29, 0x2A, 0x2D, 0x2E, 0x2F, 0x30, 0x39, 0x3A, 0x3B, 0x40, 0x41, 0x5A, 0x5B, 0x5C, 0x5D, 0x5F, 0x60, 0x61, 0x7A,
            0x7B, 0x7E, 0x7F, 0x80, 0x81, 0xC0, 0xE9, 0xFE, 0xFF,
        ]
    } else {
        (0..=255).collect()
    };
    for a in &menu {
        for b in &menu {
            place(vec![*a, *b], false);
        }
    }
    // a long name filled with the octet: 63+63+63+50 (texts of up to ~1000 characters)
    let mut names: Vec<Vec<Vec<u8>>> = names.into_iter().collect();
    for v in 0..=255u8 {
        names.push(vec![vec![v; 63], vec![v; 63], vec![v; 63], vec![v; 50]]);
    }
    names
}

fn main() {
    let ctx = Ctx::new("C03", "model_checking");
    let stats = Stats::new();
    if let Some(path) = &ctx.replay {
        let v: Value = serde_json::from_str(&std::fs::read_to_string(path).expect("replay file")).expect("json");
        let case = &v["case"];
        println!("replaying {}", v["signature"]);
        if let Some(l) = case["octet_axis"]["labels"].as_array() {
            let labels: Vec<Vec<u8>> = l.iter().map(|x| unhex(x.as_str().unwrap())).collect();
            check_octet_name(&ctx, &stats, &labels);
        } else if let Some(t) = case["text"].as_str() {
            check_text(&ctx, &stats, &t.chars().collect::<Vec<_>>());
        } else if let Some(o) = case["octets"].as_str().filter(|_| case.get("family").is_some()) {
            check_wire(&ctx, &stats, &unhex(o), "replay");
        } else if let Some(l) = case["label_lengths"].as_array() {
            let lens: Vec<usize> = l.iter().map(|x| x.as_u64().unwrap() as usize).collect();
            check_slicing(&ctx, &stats, &lens, case["fill"].as_u64().unwrap_or(97) as u8);
        } else {
            // builder histories and chains are cheap: re-run those parts whole
            part1(&ctx, &stats);
            part1c(&ctx, &stats);
            check_chain(&ctx, &stats);
        }
        ctx.finish(json!({"states": 1, "transitions": 1, "traces_validated_against_impl": 1, "samples": [case], "evaluations": 1, "distinct_nontrivial": 0, "rule": "replay"}), &[]);
    }

    // Part 1
    let (states, transitions, mut samples) = part1(&ctx, &stats);

    // Part 1b: other buffers
    let p1b = part1b(&ctx, &stats, if ctx.quick() { 4 } else { 5 });
    samples.push(json!({"builder_buffers": "Array<40> and BytesMut against Vec, every sequence over 14 operations", "sequences": p1b}));

    // Part 1c: steps refused half way by a full buffer, continued use
    samples.push(part1c(&ctx, &stats));

    // Part 2a: presentation strings
    let alphabet: Vec<char> = vec!['a', '.', '\\', '0', '2', '5', '9', ' ', '"', '[', 'é'];
    let maxlen = if ctx.quick() { 6 } else { 7 };
    for n in 0..=maxlen {
        let total = pow(alphabet.len(), n);
        (0..total).into_par_iter().for_each(|k| {
            let mut s = Vec::with_capacity(n);
            nth_string(&alphabet, n, k, &mut s);
            check_text(&ctx, &stats, &s);
        });
    }
    samples.push(json!({"text_alphabet": alphabet.iter().collect::<String>(), "max_len": maxlen, "example": "a\\.\\050.a"}));
    // boundary-length text families: 4 labels, each length in menu, with/without trailing dot
    let lm: Vec<usize> = if ctx.quick() { vec![1, 60, 61, 62, 63, 64] } else { vec![1, 2, 59, 60, 61, 62, 63, 64] };
    let combos: Vec<Vec<usize>> = {
        let mut v = Vec::new();
        product(&[lm.len(); 4], |ix| v.push(ix.iter().map(|i| lm[*i]).collect::<Vec<usize>>()));
        v
    };
    combos.par_iter().for_each(|lens| {
        for dot in [false, true] {
            let mut s = String::new();
            for (i, l) in lens.iter().enumerate() {
                if i > 0 {
                    s.push('.');
                }
                s.extend(std::iter::repeat('a').take(*l));
            }
            if dot {
                s.push('.');
            }
            check_text(&ctx, &stats, &s.chars().collect::<Vec<_>>());
        }
        // the same family with one label spelled through an escape: at its first or last
        // octet a decimal escape or a simple escape (the escape-aware paths of the scanners)
        for which in 0..lens.len() {
            for (at_end, esc) in [(false, "\\097"), (true, "\\097"), (false, "\\a"), (true, "\\a")] {
                for dot in [false, true] {
                    let mut s = String::new();
                    for (i, l) in lens.iter().enumerate() {
                        if i > 0 {
                            s.push('.');
                        }
                        if i == which {
                            if !at_end {
                                s.push_str(esc);
                            }
                            s.extend(std::iter::repeat('a').take(*l - 1));
                            if at_end {
                                s.push_str(esc);
                            }
                        } else {
                            s.extend(std::iter::repeat('a').take(*l));
                        }
                    }
                    if dot {
                        s.push('.');
                    }
                    check_text(&ctx, &stats, &s.chars().collect::<Vec<_>>());
                }
            }
        }
        // wire form of the same family, absolute and relative
        let rel = rel_wire(lens, b'a');
        let mut abs = rel.clone();
        abs.push(0);
        check_wire(&ctx, &stats, &rel, "boundary-family");
        check_wire(&ctx, &stats, &abs, "boundary-family");
    });
    samples.push(json!({"boundary_family": "L1.L2.L3.L4[.] with each Li in menu, spelled plain and with one label carrying a decimal or simple escape at its first or last octet", "text_entry_points": "Name/RelativeName/UncertainName::from_str, Name::from_chars, the zone-file reader (owner and NS RDATA position, origin o.), IterScanner::scan_name", "menu": lm, "members": combos.len() * 2}));

    // Part 2b: wire strings from a label-length-octet menu
    let len_menu: Vec<u8> = vec![0, 1, 2, 62, 63, 64, 0x80, 0xC0, 0xFF];
    let depth = if ctx.quick() { 4 } else { 5 };
    for d in 0..=depth {
        let total = pow(len_menu.len(), d);
        (0..total).into_par_iter().for_each(|k| {
            let mut ls = Vec::new();
            nth_string(&len_menu, d, k, &mut ls);
            let mut o = Vec::new();
            for l in &ls {
                o.push(*l);
                let n = if *l <= 64 { *l as usize } else { 1 };
                o.extend(std::iter::repeat(b'a').take(n));
            }
            check_wire(&ctx, &stats, &o, "length-menu");
            if !o.is_empty() {
                check_wire(&ctx, &stats, &o[..o.len() - 1], "length-menu-truncated");
            }
            let mut o2 = o.clone();
            o2.push(1);
            check_wire(&ctx, &stats, &o2, "length-menu-extended");
        });
    }
    // raw octet strings
    let raw: Vec<u8> = vec![0, 1, 2, 63, 64, 0xC0, b'a'];
    let rawlen = if ctx.quick() { 6 } else { 8 };
    for n in 0..=rawlen {
        let total = pow(raw.len(), n);
        (0..total).into_par_iter().for_each(|k| {
            let mut o = Vec::new();
            nth_string(&raw, n, k, &mut o);
            check_wire(&ctx, &stats, &o, "raw");
        });
    }
    samples.push(json!({"wire_length_menu": len_menu, "depth": depth, "raw_alphabet": raw, "raw_len": rawlen}));

    // Part 2c: slicing at every index
    let shape_menu: Vec<usize> = vec![1, 2, 3, 63];
    let mut shapes: Vec<Vec<usize>> = vec![vec![]];
    for d in 1..=(if ctx.quick() { 3 } else { 4 }) {
        product(&vec![shape_menu.len(); d], |ix| shapes.push(ix.iter().map(|i| shape_menu[*i]).collect()));
    }
    shapes.retain(|l| l.iter().map(|x| x + 1).sum::<usize>() + 1 <= 255);
    shapes.push(vec![63, 63, 63, 61]); // 255-octet absolute name
    shapes.push(vec![63, 63, 63, 60]);
    shapes.par_iter().for_each(|lens| {
        // fill 1: label contents look like length octets (mid-label indexes look plausible)
        check_slicing(&ctx, &stats, lens, 1);
        check_slicing(&ctx, &stats, lens, b'a');
        check_parsed(&ctx, &stats, lens);
    });
    // compressed layouts at the length limits
    for lens in [vec![63, 63, 63, 61], vec![63, 63, 63, 62], vec![63, 63, 63, 60, 1], vec![1; 127], vec![1; 128]] {
        check_parsed(&ctx, &stats, &lens);
    }
    samples.push(json!({"slicing_shapes": shapes.len(), "example_shape": [1, 63, 2], "ops": "slice/range/slice_from/range_from/split/truncate at every index pair 0..=len+1; is_label_start; parent; strip_suffix; iter_suffixes; into_relative/into_absolute"}));
    check_chain(&ctx, &stats);

    // Part 2e: the octet axis of the text round trip
    let before = stats.evals();
    let axis = octet_axis_names(ctx.quick());
    axis.par_iter().for_each(|labels| check_octet_name(&ctx, &stats, labels));
    stats.count_n("octet_axis.names", axis.len() as u64);
    stats.count_n("octet_axis.writer_and_reader_runs", stats.evals() - before);
    samples.push(json!({
        "octet_axis": "every octet value 0..=255 alone / first / middle / last in a label and next to '.', '\\', ' ', a digit (before, after, between), in the only / first / last label; every ordered pair from the class-boundary menu (thorough: all 65536 pairs) as a two-octet label; a 240-octet name filled with each octet",
        "names": axis.len(),
        "held_as": "Name, Name<[u8]>, RelativeName, RelativeName<[u8]>, UncertainName (relative, absolute), ParsedName (flat, compressed), six kinds of Chain, Label, OwnedLabel, Ns<Name>, Record",
        "writers": "Display, to_string, fmt_with_dot, ToName::fmt_with_dot, serde human-readable (serde_json), Record Display / display_zonefile (Simple, Tabbed, Multiline)",
        "readers": "Name::{from_str, from_chars, from_symbols}, NameBuilder::append_chars + into_name / finish, IterScanner::scan_name, RelativeName::{from_str, from_chars}, UncertainName::{from_str, from_chars}, OwnedLabel::{from_str, from_chars}, serde human-readable of all four, zone-file reader (owner and RDATA position, origin o.)",
        "oracle": "the text denotes the value's octets under the RFC 1035 5.1 escape rules written in the harness; every reader returns the octets the text was written from",
        "example": {"labels": ["7f31"], "text": "\\1271"},
    }));

    let evals = stats.evals();
    let cov = json!({
        "states": states,
        "transitions": transitions,
        "traces_validated_against_impl": transitions,
        "evaluations": evals + transitions,
        "distinct_nontrivial": stats.distinct_count(),
        "rule": "part 1: BFS to FIXPOINT over abstract builder states (len, open-label length); every operation of the menu executed on the real NameBuilder in every reachable state, twice with different fill octets. part 1c: the builder atop fixed-capacity buffers (four octseq::Array sizes pre-filled to every amount of room, a run-time capacity builder at every capacity): every history [closed label] [label under construction] operation continuation* where operation ranges over the single- and multi-part operations (append_name of 1-3 labels flat and as a chain, append_chars / append_symbols, append_label, append_slice, push, shorthands), finish / into_name / append_origin on a copy of every state; oracle = content model of whole parts written in the harness: accepted exactly when all parts fit 63/254 and the room, a refused step leaves the previous content plus a prefix of whole parts, every name obtained afterwards is valid and equals the model. part 2: every string over the text alphabet to max_len, boundary families, every wire string from the length menu to depth, raw octet strings, every index pair for slicing. part 2e (octet axis): every octet value at every kind of place of a label, every boundary-menu pair, as every name type, through every text writer, each distinct text through every text reader; expected octets from the RFC 1035 5.1 escape rules in the harness and the round-trip identity. distinct_nontrivial = distinct octet strings that some constructor accepted as a name (hash set)",
        "exhaustive": true,
        "samples": samples,
        "counters": stats.counters_json(),
        "text_max_len": maxlen,
    });
    ctx.finish(cov, &[
        "builder control flow depends only on (len, open-label length), verified per transition with two fill octets",
        "text strings using unescaped space, quote, '[' or non-ASCII are only required to yield valid names (no accept/reject demand)",
    ]);
}

#[allow(dead_code)]
fn _unused(_: &Label) {}
