//! C04 — equality, order and hash are coherent; order is the DNSSEC
//! canonical order.
//!
//! Exhaustive enumeration of closed small domains (DESIGN.md "### C04"):
//!
//! * labels: all octet strings of length <= 2 (thorough: <= 3) over the 14
//!   octets {00 SP - . @ A Z [ _ ` a z { FF} plus 12 labels of length 62/63;
//! * character strings: the same strings plus 3 of length 254/255 and 16 of
//!   length 31/32/33/64 (case variants), in three
//!   representations (Vec, &[u8], unsized);
//! * names: all sequences of <= 3 (thorough: <= 4) labels over {a, A, b,
//!   "a.b" as ONE label, ab} and all sequences of <= 2 (thorough: <= 3) labels
//!   over that menu plus {"a\\001b", "\\001a"} (labels containing length-octet
//!   look-alikes), each as flat `Name<Vec>`, `ParsedName`
//!   uncompressed in a message, `ParsedName` compressed at every suffix
//!   (plus a pointer chain and a double pointer), `Chain<RelativeName, Name>`
//!   split at every boundary;
//! * hostile octets in whole names: all sequences of <= 2 (thorough: <= 3)
//!   labels over {a, "\\000", "a\\000", "A\\000", "\\000a", "a\\000b",
//!   "b\\000", ".", "a."} plus each of these labels at every position of a
//!   name one label deeper, and the same over {a, 63 x 'a', 62 x 'a' + 'Z',
//!   'Z' + 62 x 'a', and the lower-case twins of the last two}: in all the
//!   representations above, as relative names (flat, chains), in every
//!   compression shape (<= 1 label quick, <= 2 thorough), as owner of a
//!   record / record header and in place of every embedded name of every
//!   compact record data value (flat and parsed). A non-root label that ends
//!   in 0x00 makes the name end, octet-wise, like a shorter absolute name;
//! * label walks: for every name of every name domain in every
//!   representation, `iter_labels` forwards, backwards, f labels from the
//!   front then the rest from the back (every f), b from the back then the
//!   rest from the front (every b) and alternating must each yield exactly
//!   the labels the name was built from; `starts_with`/`ends_with` for all
//!   ordered pairs against the label-wise reference; for flat names also
//!   `iter`, `iter_suffixes`, `label_count`, `first`, `last`, `split_first`,
//!   `parent`, `ends_with`/`strip_suffix` with each own suffix;
//! * case at every position: for every label length 1..=63 and every
//!   position, the label of 'a's with 'Z' there against its lower-case twin
//!   and its neighbours ('y', '{'): equality, order, hash, and every
//!   canonical form (label; name flat / parsed / chained; relative name;
//!   composed, converted, made in place) == the lower-cased wire form;
//! * compression shapes: every name of those menus (<= 3 labels over the
//!   5-label menu, <= 2 over the extended one; thorough: <= 3 over both) as
//!   `ParsedName` parsed from a hand-assembled message that stores it in every
//!   composition of its labels into h+1 segments joined by h <= 2 (extended
//!   menu: 3, thorough: 3 / 2) pointers: bare pointer to a flat name, bare
//!   pointer to a compressed name, pointer to pointer, labels + pointer to
//!   labels + pointer, ...; with the extended menu also with every pointer
//!   target >= 256; against each other, flat `Name` and `Chain` at every split;
//!   `as_flat_slice`, conversions, label iteration, Hash and the names derived
//!   by `iter_suffixes`/`split_first`/`parent` for every shape;
//! * the same shapes (<= 3 hops) for every embedded name of every compact
//!   record data value and for the owner of a record, through `Record`,
//!   record data and `RecordHeader` ==/partial_cmp/cmp/canonical_cmp/Hash;
//! * record data: the `mc::rgen` compact values, plus for each its
//!   name-case twin, its all-letters-case twin and its `Unknown`-variant twin
//!   (what the zone-file reader produces for the RFC 3597 `\#` syntax), as
//!   `AllRecordData` and `ZoneRecordData`, flat and parsed;
//! * embedded names: every embedded name of every compact value replaced by
//!   b., B., a.b., a.B. and the root, all pairs and triples within each group;
//! * variable-length tails: for every compact value and every offset the rest
//!   of the RDATA replaced by 28 tails of length 0..3 over {00, 01, 02, FF};
//! * numeric fields: every window of 1/2/4/6 octets (outside embedded names)
//!   of every compact value overwritten with the boundary values 0, 1,
//!   2^(n-1)-1, 2^(n-1), 2^(n-1)+1, 2^n-1 of that width, all pairs and triples
//!   within each (value, width, offset) group;
//! * record headers (3 owners x 2 types x 2 classes x 2 TTLs x 2 RDLEN, built
//!   and parsed with compressed/uncompressed owner), parsed records, NSEC3
//!   owner hashes and salts (31 strings), signature times (8 values);
//! * records: RDATA x 3 owners (a., A., b.a.) x 2 classes x 2 TTLs, flat and
//!   parsed from a message;
//! * per record type all ordered pairs of the rgen *quick* menu product
//!   (thorough: all 53 564 values; quick: the types with <= 1000 values).
//!
//! All ordered pairs everywhere; all triples where the domain is small
//! enough, and everywhere the exact rank test for "is a total preorder".
//! The oracle is written here from RFC 4034 6.1-6.3 + RFC 6840 5.1.

use domain::base::charstr::CharStr;
use domain::base::cmp::CanonicalOrd;
use domain::base::iana::{Class, Rtype};
use domain::base::name::{
    Chain, FlattenInto, Label, Name, OwnedLabel, ParsedName, RelativeName, ToLabelIter, ToName,
};
use domain::base::rdata::{ComposeRecordData, ParseAnyRecordData, ParseRecordData, UnknownRecordData};
use domain::base::record::RecordHeader;
use domain::base::{Record, Ttl};
use domain::rdata::{AllRecordData, ZoneRecordData};
use mc::rgen;
use mc::*;
use octseq::Parser;
use rayon::prelude::*;
use serde_json::{json, Value};
use std::cmp::Ordering;
use std::collections::BTreeMap;
use std::hash::{Hash, Hasher};
use std::sync::atomic::{AtomicU64, Ordering as AO};
use std::sync::Arc;

type Nm = Name<Vec<u8>>;
type Rd = AllRecordData<Vec<u8>, Nm>;
type PRd<'a> = AllRecordData<&'a [u8], ParsedName<&'a [u8]>>;
type ZRd = ZoneRecordData<Vec<u8>, Nm>;
type PZRd<'a> = ZoneRecordData<&'a [u8], ParsedName<&'a [u8]>>;

const ALPHA: [u8; 14] = [0x00, b' ', b'-', b'.', b'@', b'A', b'Z', b'[', b'_', b'`', b'a', b'z', b'{', 0xFF];

//------------ recording hasher ------------------------------------------------

/// Records every call made to it: `stream` is the concatenation of all
/// octets written, `shape` the sequence of (call kind, length).
#[derive(Default, Clone, PartialEq, Eq, Debug)]
struct Hs {
    stream: Vec<u8>,
    shape: Vec<u8>,
}

#[derive(Default)]
struct RecHasher(Hs);

impl RecHasher {
    fn call(&mut self, tag: u8, b: &[u8]) {
        self.0.stream.extend_from_slice(b);
        self.0.shape.push(tag);
        self.0.shape.extend_from_slice(&(b.len() as u32).to_le_bytes());
    }
}

impl Hasher for RecHasher {
    fn finish(&self) -> u64 {
        0
    }
    fn write(&mut self, b: &[u8]) {
        self.call(0, b)
    }
    fn write_u8(&mut self, i: u8) {
        self.call(1, &[i])
    }
    fn write_u16(&mut self, i: u16) {
        self.call(2, &i.to_ne_bytes())
    }
    fn write_u32(&mut self, i: u32) {
        self.call(3, &i.to_ne_bytes())
    }
    fn write_u64(&mut self, i: u64) {
        self.call(4, &i.to_ne_bytes())
    }
    fn write_u128(&mut self, i: u128) {
        self.call(5, &i.to_ne_bytes())
    }
    fn write_usize(&mut self, i: usize) {
        self.call(6, &i.to_ne_bytes())
    }
    fn write_i8(&mut self, i: i8) {
        self.call(7, &i.to_ne_bytes())
    }
    fn write_i16(&mut self, i: i16) {
        self.call(8, &i.to_ne_bytes())
    }
    fn write_i32(&mut self, i: i32) {
        self.call(9, &i.to_ne_bytes())
    }
    fn write_i64(&mut self, i: i64) {
        self.call(10, &i.to_ne_bytes())
    }
    fn write_i128(&mut self, i: i128) {
        self.call(11, &i.to_ne_bytes())
    }
    fn write_isize(&mut self, i: isize) {
        self.call(12, &i.to_ne_bytes())
    }
}

fn hrec<T: Hash + ?Sized>(t: &T) -> Hs {
    let mut h = RecHasher::default();
    t.hash(&mut h);
    h.0
}

/// 2x64-bit digest (+ lengths) of a recorded hash input, for the wide
/// enumeration where the streams themselves (up to 64 KiB each) are not kept.
#[derive(Clone, Copy, PartialEq, Eq, Debug)]
struct Hd {
    s1: u64,
    s2: u64,
    slen: usize,
    p1: u64,
}

fn fnv2(b: &[u8]) -> u64 {
    let mut h: u64 = 0x9E37_79B9_7F4A_7C15;
    for x in b {
        h = (h ^ (*x as u64)).wrapping_mul(0xff51_afd7_ed55_8ccd).rotate_left(23);
    }
    h
}

fn digest(h: &Hs) -> Hd {
    Hd { s1: fnv(&h.stream), s2: fnv2(&h.stream), slen: h.stream.len(), p1: fnv(&h.shape) }
}

/// Set by `Env::viol` on any label- or name-level violation: the
/// consequences in record data with embedded names are then only counted.
static NAME_LEVEL_BROKEN: std::sync::atomic::AtomicBool = std::sync::atomic::AtomicBool::new(false);

/// The same, but only for violations reported by the domains that hold
/// names in the plain representations (not by the compression-shape domain).
static PLAIN_NAME_LEVEL_BROKEN: std::sync::atomic::AtomicBool = std::sync::atomic::AtomicBool::new(false);

//------------ environment -----------------------------------------------------

struct Env {
    ctx: Arc<Ctx>,
    stats: Stats,
    quick: bool,
    verbose: bool,
    triples: AtomicU64,
}

impl Env {
    fn tier(&self) -> &'static str {
        if self.quick {
            "quick"
        } else {
            "thorough"
        }
    }
    fn viol(&self, sig: String, what: String, mut case: Value) {
        if let Some(o) = case.as_object_mut() {
            o.insert("tier".into(), json!(self.tier()));
        }
        if sig.contains("|explained:") {
            // consequence of a defect reported on the parts: counted only
            self.stats.count(&format!("consequences-not-reported-again:{}", sig.rsplit('|').next().unwrap_or("")));
            return;
        }
        if self.verbose {
            println!("  violation: {sig}: {what}");
        }
        if sig.starts_with("C04|name") || sig.starts_with("C04|label") {
            NAME_LEVEL_BROKEN.store(true, AO::Relaxed);
            if !sig.starts_with("C04|name-shape") {
                PLAIN_NAME_LEVEL_BROKEN.store(true, AO::Relaxed);
            }
        }
        self.ctx.violation(&sig, &what, case);
    }
    fn say(&self, s: impl FnOnce() -> String) {
        if self.verbose {
            println!("{}", s());
        }
    }
}

/// The provided methods of `CanonicalOrd` agree with `canonical_cmp`.
fn canon_ops_ok<A: CanonicalOrd<B> + ?Sized, B: ?Sized>(a: &A, b: &B) -> bool {
    let c = sgn(a.canonical_cmp(b));
    a.canonical_lt(b) == (c < 0) && a.canonical_le(b) == (c <= 0) && a.canonical_gt(b) == (c > 0) && a.canonical_ge(b) == (c >= 0)
}

fn sgn(o: Ordering) -> i8 {
    match o {
        Ordering::Less => -1,
        Ordering::Equal => 0,
        Ordering::Greater => 1,
    }
}

fn ord_s(i: i8) -> &'static str {
    match i {
        -1 => "Less",
        0 => "Equal",
        1 => "Greater",
        _ => "?",
    }
}

fn lc(b: &[u8]) -> Vec<u8> {
    b.iter().map(|x| if x.is_ascii_uppercase() { x + 32 } else { *x }).collect()
}

fn mix(dom: u64, i: usize, j: usize) -> u64 {
    let mut h = dom ^ 0xcbf29ce484222325;
    for v in [dom.wrapping_mul(0x9E37_79B9_7F4A_7C15), i as u64, j as u64] {
        h = (h ^ v).wrapping_mul(0x100000001b3);
        h ^= h >> 29;
    }
    h
}

/// Restrict a domain to the given original indices (replay).
fn restrict<T>(all: Vec<T>, only: Option<&[usize]>) -> Vec<(usize, T)> {
    let mut v: Vec<(usize, T)> = all.into_iter().enumerate().collect();
    if let Some(o) = only {
        v.retain(|(i, _)| o.contains(i));
    }
    v
}

//------------ relation laws -----------------------------------------------------

/// An observed (==, cmp) relation over n items.
struct Rel {
    n: usize,
    eq: Vec<bool>,
    cmp: Vec<i8>,
}

impl Rel {
    fn new(n: usize) -> Rel {
        Rel { n, eq: vec![false; n * n], cmp: vec![0; n * n] }
    }
    fn e(&self, i: usize, j: usize) -> bool {
        self.eq[i * self.n + j]
    }
    fn c(&self, i: usize, j: usize) -> i8 {
        self.cmp[i * self.n + j]
    }
}

struct LawCfg<'a> {
    dom: &'a str,
    /// name of the order ("cmp" or "canonical_cmp")
    ord_name: &'a str,
    /// check ==-related laws (false for a bare order such as canonical_cmp)
    with_eq: bool,
    triples: bool,
    desc: &'a (dyn Fn(usize) -> Value + Sync),
    /// structural class of a pair, appended to law signatures
    pair_class: &'a (dyn Fn(usize, usize) -> String + Sync),
    /// class of an eq-but-hash-differs pair
    hash_class: &'a (dyn Fn(usize, usize) -> String + Sync),
    /// report only pairs/triples whose class starts with this prefix
    only_prefix: Option<&'a str>,
    /// label for the vacuity counters
    tag: &'a str,
    /// component named in signatures
    sig_dom: &'a str,
}

fn sub_rel(rel: &Rel, idx: &[usize]) -> Rel {
    let m = idx.len();
    let mut r = Rel::new(m);
    for (a, &i) in idx.iter().enumerate() {
        for (b, &j) in idx.iter().enumerate() {
            r.eq[a * m + b] = rel.e(i, j);
            r.cmp[a * m + b] = rel.c(i, j);
        }
    }
    r
}

fn check_laws(env: &Env, cfg: &LawCfg, rel: &Rel, hashes: Option<&[Hs]>) {
    let n = rel.n;
    let dom = cfg.dom;
    let on = cfg.ord_name;
    let tag = cfg.tag;
    let case2 = |law: &str, i: usize, j: usize| json!({"domain": dom, "law": law, "items": [(cfg.desc)(i), (cfg.desc)(j)]});
    // `emit(class, kind, what, case)`: signature C04|dom|kind|class
    let sd = cfg.sig_dom;
    let emit = |class: String, kind: String, what: String, case: Value| {
        if class.starts_with("explained:") {
            // consequence of an incoherence already reported on the parts
            env.stats.count(&format!("{tag}:{kind}:{class}"));
        } else if class.starts_with("unknown-variant") {
            // one defect (enum dispatch falls back to comparing rtypes): one signature per order
            if cfg.only_prefix.is_some() {
                let group = if kind.contains("canonical_cmp") { "canonical_cmp" } else { "eq-cmp-hash-coherence" };
                env.viol(format!("C04|{sd}|unknown-variant-vs-typed-variant-of-same-rtype|{group}"), format!("{kind}: {what}"), case);
            }
        } else if cfg.only_prefix.is_none() {
            env.viol(format!("C04|{sd}|{kind}|{class}"), what, case);
        }
    };
    let pc = |i: usize, j: usize| (cfg.pair_class)(i, j);
    // rank = number of strictly smaller items; a relation with c(i,j) =
    // -c(j,i) is a total preorder iff c(i,j) == sign(rank(i) - rank(j)).
    let rank: Vec<usize> = (0..n).into_par_iter().map(|i| (0..n).filter(|&j| rel.c(i, j) > 0).count()).collect();
    (0..n).into_par_iter().for_each(|i| {
        if cfg.with_eq && !rel.e(i, i) {
            emit(pc(i, i), "eq-not-reflexive".into(), "x == x is false".into(), case2("eq-reflexive", i, i));
        }
        if rel.c(i, i) != 0 {
            emit(pc(i, i), format!("{on}-self-not-equal"), format!("x.{on}(x) = {}", ord_s(rel.c(i, i))), case2("cmp-reflexive", i, i));
        }
        for j in 0..n {
            let (e, c) = (rel.e(i, j), rel.c(i, j));
            if cfg.with_eq {
                if e != rel.e(j, i) {
                    emit(pc(i, j), "eq-not-symmetric".into(), format!("a == b is {e} but b == a is {}", !e), case2("eq-symmetric", i, j));
                }
                if e != (c == 0) {
                    let k = if e { format!("eq-but-{on}-{}", ord_s(c)) } else { format!("{on}-equal-but-ne") };
                    emit(pc(i, j), format!("eq-iff-{on}-equal|{k}"), format!("a == b is {e} but a.{on}(b) is {}", ord_s(c)), case2("eq-iff-cmp-equal", i, j));
                }
                if let (true, Some(h)) = (e, hashes) {
                    if h[i].stream != h[j].stream {
                        emit(
                            (cfg.hash_class)(i, j),
                            "eq-implies-hash|hash-input-differs".into(),
                            format!("a == b but Hash feeds different octets: {} vs {}", hex(&h[i].stream[..h[i].stream.len().min(64)]), hex(&h[j].stream[..h[j].stream.len().min(64)])),
                            case2("eq-implies-hash", i, j),
                        );
                    } else if h[i].shape != h[j].shape {
                        emit(
                            (cfg.hash_class)(i, j),
                            "eq-implies-hash|same-octets-different-hasher-calls".into(),
                            "a == b, Hash feeds the same octets but through different Hasher calls (hashers such as FxHasher give different digests)".into(),
                            case2("eq-implies-hash-shape", i, j),
                        );
                    }
                }
            }
            if c != -rel.c(j, i) {
                emit(pc(i, j), format!("{on}-not-antisymmetric"), format!("a.{on}(b) = {} but b.{on}(a) = {}", ord_s(c), ord_s(rel.c(j, i))), case2("cmp-antisymmetric", i, j));
            } else {
                let want = (rank[i] as i64 - rank[j] as i64).signum() as i8;
                if c != want {
                    emit(
                        pc(i, j),
                        format!("{on}-not-a-total-preorder"),
                        format!("a.{on}(b) = {} but a has {} smaller items and b has {}: the relation is not transitive", ord_s(c), rank[i], rank[j]),
                        case2("cmp-total-preorder", i, j),
                    );
                }
            }
        }
    });
    if cfg.triples {
        let bad = AtomicU64::new(0);
        (0..n).into_par_iter().for_each(|i| {
            for j in 0..n {
                let (eij, cij) = (rel.e(i, j), rel.c(i, j));
                for k in 0..n {
                    let cjk = rel.c(j, k);
                    let cik = rel.c(i, k);
                    let mut fail = None;
                    if cfg.with_eq && eij && rel.e(j, k) && !rel.e(i, k) {
                        fail = Some("eq-not-transitive".to_string());
                    } else if cij <= 0 && cjk <= 0 && (cik > 0 || ((cij < 0 || cjk < 0) && cik >= 0)) {
                        fail = Some(format!("{on}-not-transitive"));
                    }
                    if let Some(f) = fail {
                        if bad.fetch_add(1, AO::Relaxed) < 256 {
                            // class of a triple: the most specific of its three pair classes
                            let cs = [pc(i, j), pc(j, k), pc(i, k)];
                            let class = match cfg.only_prefix {
                                Some(p) => cs.iter().find(|c| c.starts_with("unknown-variant-vs")).or_else(|| cs.iter().find(|c| c.starts_with(p))).cloned().unwrap_or_else(|| cs[2].clone()),
                                None => cs[2].clone(),
                            };
                            emit(
                                class,
                                f.clone(),
                                format!("a?b = {}, b?c = {}, a?c = {} (== : {}, {}, {})", ord_s(cij), ord_s(cjk), ord_s(cik), eij, rel.e(j, k), rel.e(i, k)),
                                json!({"domain": dom, "law": f, "items": [(cfg.desc)(i), (cfg.desc)(j), (cfg.desc)(k)]}),
                            );
                        }
                    }
                }
            }
        });
        env.triples.fetch_add((n as u64).pow(3), AO::Relaxed);
        env.stats.count_n(&format!("{tag}:{on}:triples"), (n as u64).pow(3));
    }
    // vacuity: number of equivalence classes and of distinct hash inputs
    let mut ranks = rank.clone();
    ranks.sort();
    ranks.dedup();
    env.stats.count_n(&format!("{tag}:{on}:items"), n as u64);
    env.stats.count_n(&format!("{tag}:{on}:order-classes"), ranks.len() as u64);
    if let (true, Some(h)) = (cfg.with_eq, hashes) {
        let mut hs: Vec<&Vec<u8>> = h.iter().map(|x| &x.stream).collect();
        hs.sort();
        hs.dedup();
        env.stats.count_n(&format!("{tag}:distinct-hash-inputs"), hs.len() as u64);
        // unequal values with identical hash input (allowed; measures how
        // much the hash distinguishes, e.g. a missing length prefix)
        let coll: u64 = (0..n).into_par_iter().map(|i| (0..n).filter(|&j| !rel.e(i, j) && h[i].stream == h[j].stream).count() as u64).sum();
        env.stats.count_n(&format!("{tag}:unequal-pairs-with-identical-hash-input"), coll);
    }
}

//------------ strings over the alphabet ---------------------------------------

fn strings_upto(maxlen: usize) -> Vec<Vec<u8>> {
    let mut out = Vec::new();
    let mut buf = Vec::new();
    for n in 0..=maxlen {
        for k in 0..pow(ALPHA.len(), n) {
            nth_string(&ALPHA, n, k, &mut buf);
            out.push(buf.clone());
        }
    }
    out
}

fn with_last(c: u8, n: usize, last: u8) -> Vec<u8> {
    let mut v = vec![c; n];
    *v.last_mut().unwrap() = last;
    v
}

//------------ labels ------------------------------------------------------------

fn label_items(quick: bool) -> Vec<Vec<u8>> {
    let mut v = strings_upto(if quick { 2 } else { 3 });
    for l in [62usize, 63] {
        v.push(vec![b'a'; l]);
        v.push(vec![b'A'; l]);
        v.push(with_last(b'a', l, b'b'));
        v.push(with_last(b'A', l, b'B'));
        v.push(with_last(b'a', l, b'{'));
        v.push(with_last(b'a', l, b'Z'));
    }
    v
}

#[derive(Debug, Clone, Copy, PartialEq)]
struct LabObs {
    eq: bool,
    eq_slice: bool,
    cmp: i8,
    pcmp: Option<i8>,
    composed: i8,
    lc_composed: i8,
    o_eq: bool,
    o_cmp: i8,
    o_pcmp: Option<i8>,
    lt: bool,
    le: bool,
    gt: bool,
    ge: bool,
}

fn wire_label(b: &[u8]) -> Vec<u8> {
    let mut v = vec![b.len() as u8];
    v.extend_from_slice(b);
    v
}

fn dom_labels(env: &Env, only: Option<&[usize]>) {
    let items = restrict(label_items(env.quick), only);
    let n = items.len();
    let desc = |i: usize| json!({"index": items[i].0, "label": hex(&items[i].1)});
    // unary: construction, hashes, canonical forms
    let labels: Vec<&Label> = items
        .iter()
        .map(|(_, b)| match guard(|| Label::from_slice(b)) {
            Ok(Ok(l)) => l,
            other => {
                eprintln!("MACHINERY: Label::from_slice refused a {}-octet label: {:?}", b.len(), other.map(|r| r.map(|_| ())));
                std::process::exit(2);
            }
        })
        .collect();
    let owned: Vec<OwnedLabel> = labels.iter().map(|l| OwnedLabel::from_label(l)).collect();
    let mut hashes = Vec::with_capacity(n);
    for i in 0..n {
        let b = &items[i].1;
        let r = guard(|| {
            let h = hrec(labels[i]);
            let ho = hrec(&owned[i]);
            let canon = labels[i].to_canonical();
            let mut cc = Vec::new();
            labels[i].compose_canonical(&mut cc).unwrap();
            // OwnedLabel: make_canonical, Borrow<Label>, ToOwned, From<&Label>
            let mut oc = owned[i].clone();
            oc.make_canonical();
            let borrowed: &Label = std::borrow::Borrow::borrow(&owned[i]);
            let to_owned: OwnedLabel = labels[i].to_owned();
            let from: OwnedLabel = labels[i].into();
            let extras_ok = oc.as_slice() == canon.as_slice() && oc == owned[i] && hrec(&oc) == h && borrowed == labels[i] && hrec(borrowed) == h && to_owned == owned[i] && from == owned[i] && hrec(&to_owned) == h
                && (!b.is_empty() || (Label::root() == labels[i] && hrec(Label::root()) == h))
                && (b[..] != b"*"[..] || Label::wildcard() == labels[i]);
            if !extras_ok {
                cc.clear();
            }
            (h, ho, canon.as_slice().to_vec(), cc)
        });
        env.stats.eval();
        match r {
            Err(e) => {
                env.viol(format!("C04|label|panic|{}", panic_class(&e)), e, json!({"domain": "label", "items": [desc(i)]}));
                hashes.push(Hs::default());
            }
            Ok((h, ho, canon, cc)) => {
                if h != ho {
                    env.viol("C04|label|representation|OwnedLabel-hash-differs-from-Label-hash".into(), format!("label {}", hex(b)), json!({"domain": "label", "items": [desc(i)]}));
                }
                if canon != lc(b) {
                    env.viol("C04|label|to_canonical-vs-lowercase".into(), format!("to_canonical({}) = {}", hex(b), hex(&canon)), json!({"domain": "label", "items": [desc(i)]}));
                }
                if cc != wire_label(&lc(b)) {
                    env.viol("C04|label|compose_canonical-vs-lowercase-wire".into(), format!("compose_canonical({}) = {}", hex(b), hex(&cc)), json!({"domain": "label", "items": [desc(i)]}));
                }
                env.say(|| format!("label[{}] {} hash input {} shape {}", items[i].0, hex(b), hex(&h.stream), hex(&h.shape)));
                hashes.push(h);
            }
        }
    }
    let mut rel = Rel::new(n);
    let rows: Vec<(Vec<bool>, Vec<i8>)> = (0..n)
        .into_par_iter()
        .map(|i| {
            let mut re = vec![false; n];
            let mut rc = vec![0i8; n];
            let a = &items[i].1;
            let (la, wa, lwa) = (lc(a), wire_label(a), wire_label(&lc(a)));
            for j in 0..n {
                let b = &items[j].1;
                let case = || json!({"domain": "label", "items": [desc(i), desc(j)]});
                let (x, y, ox, oy) = (labels[i], labels[j], &owned[i], &owned[j]);
                let r = guard(|| LabObs {
                    eq: x == y,
                    eq_slice: *x == b[..],
                    cmp: sgn(x.cmp(y)),
                    pcmp: x.partial_cmp(y).map(sgn),
                    composed: sgn(x.composed_cmp(y)),
                    lc_composed: sgn(x.lowercase_composed_cmp(y)),
                    o_eq: ox == oy,
                    o_cmp: sgn(ox.cmp(oy)),
                    o_pcmp: ox.partial_cmp(oy).map(sgn),
                    lt: x < y,
                    le: x <= y,
                    gt: x > y,
                    ge: x >= y,
                });
                env.stats.eval();
                if i != j {
                    env.stats.distinct(mix(1, items[i].0, items[j].0));
                }
                let o = match r {
                    Ok(o) => o,
                    Err(e) => {
                        env.viol(format!("C04|label|panic|{}", panic_class(&e)), e, case());
                        continue;
                    }
                };
                env.say(|| format!("label[{}] {} ? label[{}] {}: {:?}", items[i].0, hex(a), items[j].0, hex(b), o));
                re[j] = o.eq;
                rc[j] = o.cmp;
                let lb = lc(b);
                let ref_eq = la == lb;
                let ref_cmp = sgn(la.cmp(&lb));
                if o.eq != ref_eq {
                    let k = if ref_eq { "case-twins-unequal" } else { "different-labels-equal" };
                    env.viol(format!("C04|label|eq-vs-reference|{k}"), format!("{} == {} is {}", hex(a), hex(b), o.eq), case());
                }
                if o.cmp != ref_cmp {
                    env.viol(
                        "C04|label|cmp-vs-rfc4034-6.1".to_string(),
                        format!("cmp({}, {}) = {}, RFC 4034 6.1 (lower-cased, left-justified octet strings): {}", hex(a), hex(b), ord_s(o.cmp), ord_s(ref_cmp)),
                        case(),
                    );
                }
                if o.pcmp != Some(o.cmp) || o.lt != (o.cmp < 0) || o.le != (o.cmp <= 0) || o.gt != (o.cmp > 0) || o.ge != (o.cmp >= 0) {
                    env.viol("C04|label|partial_cmp-and-operators-vs-cmp".into(), format!("{} ? {}: {:?}", hex(a), hex(b), o), case());
                }
                if o.eq_slice != o.eq {
                    env.viol("C04|label|representation|eq-with-octets-slice-differs".into(), format!("{} ? {}: {:?}", hex(a), hex(b), o), case());
                }
                if o.o_eq != o.eq || o.o_cmp != o.cmp || o.o_pcmp != o.pcmp {
                    env.viol("C04|label|representation|OwnedLabel-result-differs-from-Label".into(), format!("{} ? {}: {:?}", hex(a), hex(b), o), case());
                }
                let ref_comp = sgn(wa.cmp(&wire_label(b)));
                if o.composed != ref_comp {
                    env.viol("C04|label|composed_cmp-vs-wire-octets".into(), format!("composed_cmp({}, {}) = {}, wire octets order {}", hex(a), hex(b), ord_s(o.composed), ord_s(ref_comp)), case());
                }
                let ref_lcomp = sgn(lwa.cmp(&wire_label(&lb)));
                if o.lc_composed != ref_lcomp {
                    env.viol("C04|label|lowercase_composed_cmp-vs-canonical-wire-octets".into(), format!("lowercase_composed_cmp({}, {}) = {}, canonical wire octets order {}", hex(a), hex(b), ord_s(o.lc_composed), ord_s(ref_lcomp)), case());
                }
            }
            (re, rc)
        })
        .collect();
    for (i, (re, rc)) in rows.into_iter().enumerate() {
        rel.eq[i * n..(i + 1) * n].copy_from_slice(&re);
        rel.cmp[i * n..(i + 1) * n].copy_from_slice(&rc);
    }
    env.stats.sample(12, || json!({"domain": "label", "a": hex(&items[n / 3].1), "b": hex(&items[n / 2].1), "eq": rel.e(n / 3, n / 2), "cmp": ord_s(rel.c(n / 3, n / 2))}));
    let cls = |_: usize, _: usize| "-".to_string();
    check_laws(env, &LawCfg { dom: "label", ord_name: "cmp", with_eq: true, triples: true, desc: &desc, pair_class: &cls, hash_class: &cls, only_prefix: None, tag: "label", sig_dom: "label" }, &rel, Some(&hashes));
}

//------------ labels: case at every position of every length ------------------------

/// For every label length 1..=63 and every position in the label: the label
/// `aa..Z..a` (one upper-case letter at that position), its lower-case twin
/// `aa..z..a` and its neighbours with `y` and `{` there. The twins are equal,
/// compare Equal and hash alike; the order against the neighbours is that of
/// the lower-cased octets (RFC 4034 6.1); every canonical form (label, and
/// the label inside an absolute name flat / parsed from a message / chained,
/// and inside a relative name; composed, converted and made in place) is the
/// independently lower-cased wire form. Unary plus a constant number of
/// pairs per (length, position): 2016 groups.
fn dom_label_positions(env: &Env, only: Option<&[usize]>) {
    use domain::base::name::ToRelativeName;
    let dom = "label-position";
    let mut all: Vec<(usize, usize)> = Vec::new();
    for len in 1..=63usize {
        for pos in 0..len {
            all.push((len, pos));
        }
    }
    let items = restrict(all, only);
    items.par_iter().for_each(|&(index, (len, pos))| {
        let with = |c: u8| {
            let mut v = vec![b'a'; len];
            v[pos] = c;
            v
        };
        let (up, lo, below, above) = (with(b'Z'), with(b'z'), with(b'y'), with(b'{'));
        let pos_class = if len == 1 { "only-octet" } else if pos == 0 { "first-octet" } else if pos + 1 == len { "last-octet" } else { "inner-octet" };
        let len_class = if len == 63 { "maximum-length-label" } else { "shorter-label" };
        let case = || json!({"domain": dom, "items": [{"index": index, "length": len, "position": pos, "label": hex(&up)}]});
        env.stats.eval();
        env.stats.distinct(mix(30, len, pos));
        let r = guard(|| {
            let mut bad: Vec<&'static str> = Vec::new();
            fn l(b: &[u8]) -> &Label {
                Label::from_slice(b).expect("label of at most 63 octets")
            }
            let (lu, ll, lb, la) = (l(&up), l(&lo), l(&below), l(&above));
            if lu != ll || ll != lu || lu.cmp(ll) != Ordering::Equal || ll.cmp(lu) != Ordering::Equal || lu.partial_cmp(ll) != Some(Ordering::Equal) {
                bad.push("label|case-twins-not-equal");
            }
            if hrec(lu) != hrec(ll) {
                bad.push("label|case-twins-hash-differently");
            }
            if lu.cmp(lb) != Ordering::Greater || lb.cmp(lu) != Ordering::Less || lu.cmp(la) != Ordering::Less || la.cmp(lu) != Ordering::Greater || lu == lb || lu == la {
                bad.push("label|order-against-neighbours-is-not-that-of-the-lower-cased-octets");
            }
            if lu.lowercase_composed_cmp(ll) != Ordering::Equal || lu.lowercase_composed_cmp(lb) != Ordering::Greater || lu.lowercase_composed_cmp(la) != Ordering::Less || lu.composed_cmp(ll) != Ordering::Less {
                bad.push("label|composed-orders");
            }
            let mut cc = Vec::new();
            lu.compose_canonical(&mut cc).unwrap();
            let mut oc = OwnedLabel::from_label(lu);
            oc.make_canonical();
            if lu.to_canonical().as_slice() != &lo[..] || cc != wire_label(&lo) || oc.as_slice() != &lo[..] {
                bad.push("label|canonical-form-is-not-the-lower-cased-label");
            }
            // the label as the only and as the first of two labels of an absolute name
            for rest in [vec![], vec![b"B".to_vec()]] {
                let mut labels = vec![up.clone()];
                labels.extend(rest.iter().cloned());
                let lower: Vec<Vec<u8>> = labels.iter().map(|x| lc(x)).collect();
                let (w, lw) = (name_wire(&labels), name_wire(&lower));
                let flat: Nm = Name::from_octets(w.clone()).unwrap();
                let twin: Nm = Name::from_octets(lw.clone()).unwrap();
                let mut msg = vec![0u8; 12];
                msg.extend_from_slice(&w);
                let mut p = Parser::from_ref(msg.as_slice());
                p.advance(12).unwrap();
                let parsed = ParsedName::parse(&mut p).unwrap();
                let chain = RelativeName::from_octets(labels_wire(&labels[..1])).unwrap().chain(Name::<Vec<u8>>::from_octets(name_wire(&labels[1..])).unwrap()).unwrap();
                let canon_of = |n: &dyn Fn(&mut Vec<u8>)| {
                    let mut t = Vec::new();
                    n(&mut t);
                    t
                };
                let mut made = flat.clone();
                made.make_canonical();
                let forms = [
                    canon_of(&|t| flat.compose_canonical(t).unwrap()),
                    canon_of(&|t| parsed.compose_canonical(t).unwrap()),
                    canon_of(&|t| chain.compose_canonical(t).unwrap()),
                    flat.to_canonical_name::<Vec<u8>>().as_slice().to_vec(),
                    parsed.to_canonical_name::<Vec<u8>>().as_slice().to_vec(),
                    chain.to_canonical_name::<Vec<u8>>().as_slice().to_vec(),
                    made.as_slice().to_vec(),
                ];
                if forms.iter().any(|f| *f != lw) {
                    bad.push("name|canonical-form-is-not-the-lower-cased-name");
                }
                if flat != twin || parsed != twin || !chain.name_eq(&twin) || flat.cmp(&twin) != Ordering::Equal || parsed.name_cmp(&twin) != Ordering::Equal || chain.name_cmp(&twin) != Ordering::Equal || flat.canonical_cmp(&twin) != Ordering::Equal || flat.lowercase_composed_cmp(&twin) != Ordering::Equal {
                    bad.push("name|case-twins-not-equal");
                }
                if hrec(&flat) != hrec(&twin) || hrec(&parsed).stream != hrec(&twin).stream {
                    bad.push("name|case-twins-hash-differently");
                }
            }
            let rel = RelativeName::from_octets(wire_label(&up)).unwrap();
            let rtwin = RelativeName::from_octets(wire_label(&lo)).unwrap();
            let mut rmade = rel.clone();
            rmade.make_canonical();
            let mut rc = Vec::new();
            ToRelativeName::compose_canonical(&rel, &mut rc).unwrap();
            if rmade.as_slice() != &wire_label(&lo)[..] || rc != wire_label(&lo) || rel.to_canonical_relative_name::<Vec<u8>>().as_slice() != &wire_label(&lo)[..] {
                bad.push("relname|canonical-form-is-not-the-lower-cased-name");
            }
            if rel != rtwin || rel.cmp(&rtwin) != Ordering::Equal || hrec(&rel) != hrec(&rtwin) {
                bad.push("relname|case-twins-not-equal-or-hash-differently");
            }
            bad.dedup();
            bad
        });
        match r {
            Err(e) => env.viol(format!("C04|label-position|panic|{}", panic_class(&e)), e, case()),
            Ok(bad) => {
                for b in bad {
                    env.viol(format!("C04|label-position|{b}|{pos_class}-of-{len_class}"), format!("label of {len} octets, letter at position {pos}: {b}"), case());
                }
            }
        }
    });
    env.stats.count_n("label-position:(length,position)-groups", items.len() as u64);
}

//------------ character strings ------------------------------------------------------

fn charstr_items(quick: bool) -> Vec<Vec<u8>> {
    let mut v = strings_upto(if quick { 2 } else { 3 });
    v.push(vec![b'a'; 255]);
    v.push(vec![b'A'; 255]);
    v.push(vec![b'a'; 254]);
    // around multiples of 32 (block-wise implementations): all lower, all
    // upper, upper case only in the first or only in the last octet
    for l in [31usize, 32, 33, 64] {
        v.push(vec![b'a'; l]);
        v.push(vec![b'A'; l]);
        let mut first = vec![b'a'; l];
        first[0] = b'A';
        v.push(first);
        v.push(with_last(b'a', l, b'A'));
    }
    v
}

#[derive(Debug, Clone, Copy, PartialEq)]
struct CsObs {
    eq_vv: bool,
    eq_vs: bool,
    eq_sv: bool,
    eq_uu: bool,
    eq_v_octets: bool,
    cmp_vv: i8,
    cmp_ss: i8,
    cmp_uu: i8,
    pcmp_vs: Option<i8>,
    pcmp_sv: Option<i8>,
    pcmp_vv: Option<i8>,
    can_vv: i8,
    can_vs: i8,
    can_sv: i8,
    can_uu: i8,
    can_ops_ok: bool,
}

fn dom_charstrs(env: &Env, only: Option<&[usize]>) {
    let items = restrict(charstr_items(env.quick), only);
    let n = items.len();
    let desc = |i: usize| json!({"index": items[i].0, "charstr": hex(&items[i].1)});
    fn mk<'a>(b: &'a Vec<u8>) -> (CharStr<Vec<u8>>, CharStr<&'a [u8]>, &'a CharStr<[u8]>) {
        match guard(|| (CharStr::from_octets(b.clone()), CharStr::from_octets(b.as_slice()), CharStr::from_slice(b))) {
            Ok((Ok(v), Ok(s), Ok(u))) => (v, s, u),
            _ => {
                eprintln!("MACHINERY: CharStr constructor refused {} octets", b.len());
                std::process::exit(2);
            }
        }
    }
    let reps: Vec<_> = items.iter().map(|(_, b)| mk(b)).collect();
    let mut hashes = Vec::with_capacity(n);
    for i in 0..n {
        let (v, s, u) = &reps[i];
        env.stats.eval();
        let extra = guard(|| {
            let cb = CharStr::from_octets(bytes::Bytes::copy_from_slice(&items[i].1)).ok()?;
            Some((hrec(&cb), hrec(v.for_slice()), cb == *v, *v == cb, v.for_slice() == v, sgn(cb.canonical_cmp(v)), cb.partial_cmp(v).map(sgn)))
        });
        match &extra {
            Ok(Some((hb, hf, e1, e2, e3, can, pc))) => {
                let hv = hrec(v);
                if *hb != hv || *hf != hv || !e1 || !e2 || !e3 || *can != 0 || *pc != Some(0) {
                    env.viol("C04|charstr|representation|Bytes-or-for_slice-differs".into(), hex(&items[i].1), json!({"domain": "charstr", "items": [desc(i)]}));
                }
            }
            _ => env.viol("C04|charstr|representation|Bytes-value-cannot-be-built-or-panics".into(), hex(&items[i].1), json!({"domain": "charstr", "items": [desc(i)]})),
        }
        match guard(|| (hrec(v), hrec(s), hrec(*u))) {
            Err(e) => {
                env.viol(format!("C04|charstr|panic|{}", panic_class(&e)), e, json!({"domain": "charstr", "items": [desc(i)]}));
                hashes.push(Hs::default());
            }
            Ok((hv, hs, hu)) => {
                if hv != hs || hv != hu {
                    env.viol("C04|charstr|representation|hash-differs-between-octets-types".into(), hex(&items[i].1), json!({"domain": "charstr", "items": [desc(i)]}));
                }
                env.say(|| format!("charstr[{}] {} hash input {}", items[i].0, hex(&items[i].1), hex(&hv.stream)));
                hashes.push(hv);
            }
        }
    }
    let mut rel = Rel::new(n);
    let rows: Vec<(Vec<bool>, Vec<i8>)> = (0..n)
        .into_par_iter()
        .map(|i| {
            let mut re = vec![false; n];
            let mut rc = vec![0i8; n];
            let a = &items[i].1;
            let (la, wa) = (lc(a), wire_label(a));
            for j in 0..n {
                let b = &items[j].1;
                let case = || json!({"domain": "charstr", "items": [desc(i), desc(j)]});
                let ((v1, s1, u1), (v2, s2, u2)) = (&reps[i], &reps[j]);
                let r = guard(|| CsObs {
                    eq_vv: v1 == v2,
                    eq_vs: v1 == s2,
                    eq_sv: s1 == v2,
                    eq_uu: *u1 == *u2,
                    eq_v_octets: *v1 == b[..],
                    cmp_vv: sgn(v1.cmp(v2)),
                    cmp_ss: sgn(s1.cmp(s2)),
                    cmp_uu: sgn(u1.cmp(u2)),
                    pcmp_vs: v1.partial_cmp(s2).map(sgn),
                    pcmp_sv: s1.partial_cmp(v2).map(sgn),
                    pcmp_vv: v1.partial_cmp(v2).map(sgn),
                    can_vv: sgn(v1.canonical_cmp(v2)),
                    can_vs: sgn(v1.canonical_cmp(s2)),
                    can_sv: sgn(s1.canonical_cmp(v2)),
                    can_uu: sgn(u1.canonical_cmp(*u2)),
                    can_ops_ok: canon_ops_ok(v1, v2) && canon_ops_ok(s1, v2) && canon_ops_ok(*u1, *u2),
                });
                env.stats.eval();
                if i != j {
                    env.stats.distinct(mix(2, items[i].0, items[j].0));
                }
                let o = match r {
                    Ok(o) => o,
                    Err(e) => {
                        env.viol(format!("C04|charstr|panic|{}", panic_class(&e)), e, case());
                        continue;
                    }
                };
                env.say(|| format!("charstr[{}] {} ? charstr[{}] {}: {:?}", items[i].0, hex(a), items[j].0, hex(b), o));
                re[j] = o.eq_vv;
                rc[j] = o.cmp_vv;
                let lb = lc(b);
                let ref_eq = la == lb;
                let ref_cmp = sgn(la.cmp(&lb));
                if o.eq_vv != ref_eq {
                    let k = if ref_eq { "case-twins-unequal" } else { "different-strings-equal" };
                    env.viol(format!("C04|charstr|eq-vs-reference|{k}"), format!("{} == {} is {}", hex(a), hex(b), o.eq_vv), case());
                }
                if o.cmp_vv != ref_cmp {
                    env.viol("C04|charstr|cmp-vs-lowercased-octets".to_string(), format!("cmp({}, {}) = {}", hex(a), hex(b), ord_s(o.cmp_vv)), case());
                }
                if [o.eq_vs, o.eq_sv, o.eq_uu, o.eq_v_octets] != [o.eq_vv; 4] {
                    env.viol("C04|charstr|representation|eq-differs-between-octets-types".into(), format!("{} ? {}: {:?}", hex(a), hex(b), o), case());
                }
                if [o.cmp_ss, o.cmp_uu] != [o.cmp_vv; 2] || [o.pcmp_vs, o.pcmp_sv, o.pcmp_vv] != [Some(o.cmp_vv); 3] {
                    env.viol("C04|charstr|representation|cmp-or-partial_cmp-differs-between-octets-types".into(), format!("{} ? {}: {:?}", hex(a), hex(b), o), case());
                }
                let ref_can = sgn(wa.cmp(&wire_label(b)));
                if o.can_vv != ref_can {
                    env.viol("C04|charstr|canonical_cmp-vs-wire-octets".into(), format!("canonical_cmp({}, {}) = {}, wire octets (length octet first) order {}", hex(a), hex(b), ord_s(o.can_vv), ord_s(ref_can)), case());
                }
                if !o.can_ops_ok {
                    env.viol("C04|charstr|canonical_lt/le/gt/ge-vs-canonical_cmp".into(), format!("{} ? {}: {:?}", hex(a), hex(b), o), case());
                }
                if [o.can_vs, o.can_sv, o.can_uu] != [o.can_vv; 3] {
                    env.viol("C04|charstr|representation|canonical_cmp-differs-between-octets-types".into(), format!("{} ? {}: {:?}", hex(a), hex(b), o), case());
                }
            }
            (re, rc)
        })
        .collect();
    for (i, (re, rc)) in rows.into_iter().enumerate() {
        rel.eq[i * n..(i + 1) * n].copy_from_slice(&re);
        rel.cmp[i * n..(i + 1) * n].copy_from_slice(&rc);
    }
    env.stats.sample(12, || json!({"domain": "charstr", "a": hex(&items[n / 3].1), "b": hex(&items[n / 2].1), "eq": rel.e(n / 3, n / 2), "cmp": ord_s(rel.c(n / 3, n / 2))}));
    let cls = |_: usize, _: usize| "-".to_string();
    check_laws(env, &LawCfg { dom: "charstr", ord_name: "cmp", with_eq: true, triples: true, desc: &desc, pair_class: &cls, hash_class: &cls, only_prefix: None, tag: "charstr", sig_dom: "charstr" }, &rel, Some(&hashes));
}

//------------ names -----------------------------------------------------------------

/// The DESIGN menu (5 labels); the extended menu adds two labels whose
/// content contains length-octet look-alikes: the wire form of `a\001b.`
/// ends in the wire form of `b.`, that of `\001a.` in the wire form of `a.`.
///
/// Two further small menus put the hostile octets of the LABEL domain into
/// whole names (both start with the filler label `a`):
///
/// * `MENU_HOSTILE`: labels that end in, start with, contain or consist of
///   the octet 0x00 (the root label's wire form) or 0x2E (the separator of
///   the presentation form), with a case twin: a name whose non-root label
///   ends in 0x00 ends, octet-wise, like an absolute name one label shorter;
/// * `MENU_LONG`: labels of the maximum length 63 with a case-relevant octet
///   in the first or the last position, each with its lower-case twin.
const MENU_HOSTILE: usize = 21;
const MENU_LONG: usize = 22;

fn name_label_menu(menu: usize) -> Vec<Vec<u8>> {
    if menu == MENU_HOSTILE {
        return vec![b"a".to_vec(), b"\0".to_vec(), b"a\0".to_vec(), b"A\0".to_vec(), b"\0a".to_vec(), b"a\0b".to_vec(), b"b\0".to_vec(), b".".to_vec(), b"a.".to_vec()];
    }
    if menu == MENU_LONG {
        let first = |c: u8| {
            let mut v = vec![b'a'; 63];
            v[0] = c;
            v
        };
        return vec![b"a".to_vec(), vec![b'a'; 63], with_last(b'a', 63, b'Z'), first(b'Z'), with_last(b'a', 63, b'z'), first(b'z')];
    }
    let mut v = vec![b"a".to_vec(), b"A".to_vec(), b"b".to_vec(), b"a.b".to_vec(), b"ab".to_vec()];
    if menu > 5 {
        v.push(b"a\x01b".to_vec());
        v.push(b"\x01a".to_vec());
    }
    v
}

/// All label sequences of length <= depth over the menu. For the two small
/// special menus additionally the sequences of depth+1 labels in which
/// exactly one label is not the filler (the special label at every position
/// of a name one label deeper, without the cost of the full product).
fn name_items(depth: usize, menu: usize) -> Vec<Vec<Vec<u8>>> {
    let special = menu == MENU_HOSTILE || menu == MENU_LONG;
    let menu = name_label_menu(menu);
    let mut out = Vec::new();
    let mut buf: Vec<Vec<u8>> = Vec::new();
    for n in 0..=depth {
        for k in 0..pow(menu.len(), n) {
            nth_string(&menu, n, k, &mut buf);
            out.push(buf.clone());
        }
    }
    if special {
        for pos in 0..=depth {
            for l in &menu[1..] {
                let mut v = vec![menu[0].clone(); depth + 1];
                v[pos] = l.clone();
                out.push(v);
            }
        }
    }
    out
}

fn labels_wire(labels: &[Vec<u8>]) -> Vec<u8> {
    let mut w = Vec::new();
    for l in labels {
        w.push(l.len() as u8);
        w.extend_from_slice(l);
    }
    w
}

fn name_wire(labels: &[Vec<u8>]) -> Vec<u8> {
    let mut w = labels_wire(labels);
    w.push(0);
    w
}

fn ptr(target: usize) -> [u8; 2] {
    [0xC0 | (target >> 8) as u8, target as u8]
}

/// How a representation of a name is built.
struct RepSpec {
    name: usize,
    kind: String,
    /// message octets and position of the name (parsed kinds)
    msg: Vec<u8>,
    pos: usize,
    /// split position (chain kind)
    split: Option<usize>,
    /// second split position (chain of chains: labels[..s1] + labels[s1..s2] + rest)
    split2: Option<usize>,
    flat: bool,
    /// the octets of the name are contiguous in memory (flat, uncompressed,
    /// or reached through bare pointers)
    contiguous: bool,
    /// "": none; otherwise a special way to build the value
    special: &'static str,
}

fn rep_specs(name: usize, labels: &[Vec<u8>], chain3: bool) -> Vec<RepSpec> {
    let k = labels.len();
    let mut out = Vec::new();
    let spec = |kind: String, msg: Vec<u8>, pos: usize, split: Option<usize>, flat: bool| {
        let contiguous = flat || kind == "parsed-uncompressed" || kind == "parsed-compressed-at-0" || kind == "parsed-double-pointer";
        RepSpec { name, kind, msg, pos, split, split2: None, flat, contiguous, special: "" }
    };
    out.push(spec("flat".into(), vec![], 0, None, true));
    // uncompressed inside a message, after a 12 octet header
    let mut m = vec![0u8; 12];
    m.extend_from_slice(&name_wire(labels));
    m.extend_from_slice(&[0, 1, 0, 1]);
    out.push(spec("parsed-uncompressed".into(), m, 12, None, false));
    // compressed at every suffix: the suffix labels[s..] is stored at 12,
    // the name is labels[..s] followed by a pointer to 12
    for s in 0..=k {
        let mut m = vec![0u8; 12];
        m.extend_from_slice(&name_wire(&labels[s..]));
        let pos = m.len();
        m.extend_from_slice(&labels_wire(&labels[..s]));
        m.extend_from_slice(&ptr(12));
        m.extend_from_slice(&[0, 1, 0, 1]);
        out.push(spec(format!("parsed-compressed-at-{s}"), m, pos, None, false));
    }
    // every label followed by a pointer to the next one
    if k >= 2 {
        let mut m = vec![0u8; 12];
        m.push(0);
        let mut next = 12;
        for l in labels.iter().rev() {
            let here = m.len();
            m.push(l.len() as u8);
            m.extend_from_slice(l);
            m.extend_from_slice(&ptr(next));
            next = here;
        }
        out.push(spec("parsed-pointer-per-label".into(), m, next, None, false));
    }
    // pointer to a pointer to the flat name
    {
        let mut m = vec![0u8; 12];
        m.extend_from_slice(&name_wire(labels));
        let q = m.len();
        m.extend_from_slice(&ptr(12));
        let r = m.len();
        m.extend_from_slice(&ptr(q));
        out.push(spec("parsed-double-pointer".into(), m, r, None, false));
    }
    for s in 0..=k {
        out.push(spec(format!("chain-split-at-{s}"), vec![], 0, Some(s), false));
    }
    // `ParsedName::from(Name)` (this and the following kinds: extended set only)
    if chain3 {
        let mut sp = spec("parsed-from-name".into(), name_wire(labels), 0, None, false);
        sp.contiguous = true;
        sp.special = "parsed-from-name";
        out.push(sp);
    }
    // a chain whose left part is an `UncertainName`: relative (split at every
    // boundary) or absolute (then the right part, here `b.`, is ignored)
    for s in 0..=(if chain3 { k } else { 0 }) {
        if !chain3 {
            break;
        }
        let mut sp = spec(format!("uncertain-chain-relative-split-at-{s}"), vec![], 0, Some(s), false);
        sp.special = "uncertain-relative";
        out.push(sp);
    }
    if chain3 {
        let mut sp = spec("uncertain-chain-absolute".into(), vec![], 0, None, false);
        sp.special = "uncertain-absolute";
        out.push(sp);
    }
    if chain3 {
        // a chain of a chain of two relative names and an absolute name
        for s1 in 0..=k {
            for s2 in s1..=k {
                let mut sp = spec(format!("chain-of-chains-split-at-{s1}-{s2}"), vec![], 0, Some(s1), false);
                sp.split2 = Some(s2);
                out.push(sp);
            }
        }
    }
    out
}

type RelN = RelativeName<Vec<u8>>;
type Ch = Chain<RelN, Nm>;
type Ch3 = Chain<Chain<RelN, RelN>, Nm>;

enum Rep<'a> {
    Flat(Nm),
    Parsed(ParsedName<&'a [u8]>),
    Chain(Ch),
    Chain3(Ch3),
    UChain(Chain<domain::base::name::UncertainName<Vec<u8>>, Nm>),
}

/// Bind the concrete name type of one representation.
macro_rules! one_rep {
    ($x:expr, |$a:ident| $body:expr) => {
        match $x {
            Rep::Flat($a) => $body,
            Rep::Parsed($a) => $body,
            Rep::Chain($a) => $body,
            Rep::Chain3($a) => $body,
            Rep::UChain($a) => $body,
        }
    };
}

/// ToName operations available for every pair of representations.
macro_rules! any_pair {
    ($x:expr, $y:expr, |$a:ident, $b:ident| $body:expr) => {
        one_rep!($x, |$a| one_rep!($y, |$b| $body))
    };
}

/// Operator traits exist with `Name` and `ParsedName` on the left only.
macro_rules! left_pair {
    ($x:expr, $y:expr, |$a:ident, $b:ident| $body:expr) => {
        match $x {
            Rep::Flat($a) => Some(one_rep!($y, |$b| $body)),
            Rep::Parsed($a) => Some(one_rep!($y, |$b| $body)),
            Rep::Chain(_) | Rep::Chain3(_) | Rep::UChain(_) => None,
        }
    };
}

#[derive(Debug, Clone, Copy, PartialEq)]
struct NameObs {
    name_eq: bool,
    name_cmp: i8,
    composed: i8,
    lc_composed: i8,
    /// ==, partial_cmp, canonical_cmp, <, <=, >, >= (left is Name or ParsedName)
    ops: Option<(bool, Option<i8>, i8, bool, bool, bool, bool)>,
    /// Ord::cmp (same type on both sides)
    ord: Option<i8>,
    can_ops_ok: Option<bool>,
    /// ToLabelIter::starts_with / ends_with (label walk from the front / the back)
    starts: bool,
    ends: bool,
}

fn rep_class(r: &Rep) -> &'static str {
    match r {
        Rep::Flat(_) => "flat-name",
        Rep::Parsed(_) => "parsed-name",
        Rep::Chain(_) | Rep::Chain3(_) => "chain",
        Rep::UChain(_) => "uncertain-chain",
    }
}

/// Walks the labels of one name in every order a double-ended iterator
/// allows and compares with the label list the name was built from (`want`
/// includes the root label of an absolute name): forwards; backwards; f
/// labels from the front, the rest from the back (every f); b labels from
/// the back, the rest from the front (every b); alternating, starting at
/// either end. Every label must come out exactly once, whatever the octets
/// in it, and then the iterator must be exhausted (asked once, at the end
/// opposite to the last label taken where the walk is mixed).
/// Returns the kinds of walk that went wrong.
fn walk_labels<N: ToLabelIter + ?Sized>(name: &N, want: &[Vec<u8>]) -> Vec<String> {
    let k = want.len();
    let mut bad: Vec<String> = Vec::new();
    // plan: true = take from the front, false = from the back; k + 1 steps
    // (the last one must yield nothing)
    let run = |plan: &dyn Fn(usize) -> bool| -> bool {
        let mut it = name.iter_labels();
        let mut front: Vec<Vec<u8>> = Vec::new();
        let mut back: Vec<Vec<u8>> = Vec::new();
        for step in 0..=k {
            let from_front = plan(step);
            let got = if from_front { it.next() } else { it.next_back() };
            match got {
                Some(l) if step < k => {
                    if from_front {
                        front.push(l.as_slice().to_vec())
                    } else {
                        back.push(l.as_slice().to_vec())
                    }
                }
                Some(_) => return false,
                None if step < k => return false,
                None => {}
            }
        }
        back.reverse();
        front.extend(back);
        front == want
    };
    if !run(&|_| true) {
        bad.push("forward".into());
    }
    if !run(&|_| false) {
        bad.push("backward".into());
    }
    if (1..k).any(|f| !run(&|s| s < f || s == k)) {
        bad.push("front-then-back".into());
    }
    if (1..k).any(|b| !run(&|s| !(s < b || s == k))) {
        bad.push("back-then-front".into());
    }
    if !run(&|s| s % 2 == 0) || !run(&|s| s % 2 == 1) {
        bad.push("alternating".into());
    }
    if name.iter_labels().take(k + 2).count() != k || name.iter_labels().rev().take(k + 2).count() != k {
        bad.push("count".into());
    }
    bad
}

fn observe_names(x: &Rep, y: &Rep) -> NameObs {
    let (name_eq, name_cmp, composed, lc_composed) = any_pair!(x, y, |a, b| (a.name_eq(b), sgn(a.name_cmp(b)), sgn(a.composed_cmp(b)), sgn(a.lowercase_composed_cmp(b))));
    let ops = left_pair!(x, y, |a, b| (a == b, a.partial_cmp(b).map(sgn), sgn(a.canonical_cmp(b)), a < b, a <= b, a > b, a >= b));
    let ord = match (x, y) {
        (Rep::Flat(a), Rep::Flat(b)) => Some(sgn(a.cmp(b))),
        (Rep::Parsed(a), Rep::Parsed(b)) => Some(sgn(a.cmp(b))),
        _ => None,
    };
    let can_ops_ok = left_pair!(x, y, |a, b| canon_ops_ok(a, b));
    let (starts, ends) = any_pair!(x, y, |a, b| (ToLabelIter::starts_with(a, b), ToLabelIter::ends_with(a, b)));
    NameObs { name_eq, name_cmp, composed, lc_composed, ops, ord, can_ops_ok, starts, ends }
}

fn dom_names(env: &Env, depth: usize, menu: usize, chain3: bool, rep_triples: bool, dom_id: u64, only: Option<&[usize]>) {
    let names = name_items(depth, menu);
    let specs_all: Vec<RepSpec> = names.iter().enumerate().flat_map(|(i, l)| rep_specs(i, l, chain3)).collect();
    let specs = restrict(specs_all, only);
    let n = specs.len();
    let dom = "name";
    let desc = |i: usize| {
        let s = &specs[i].1;
        json!({"index": specs[i].0, "depth": depth, "menu": menu, "chain3": chain3, "labels_hex": names[s.name].iter().map(|l| hex(l)).collect::<Vec<_>>(), "labels": names[s.name].iter().map(|l| String::from_utf8_lossy(l).to_string()).collect::<Vec<_>>(), "representation": s.kind, "message": hex(&s.msg), "pos": s.pos})
    };
    // build the library values
    let mut reps: Vec<Rep> = Vec::with_capacity(n);
    for (i, (_, s)) in specs.iter().enumerate() {
        let labels = &names[s.name];
        env.stats.eval();
        let r: Result<Result<Rep, String>, String> = guard(|| {
            use domain::base::name::UncertainName;
            if s.flat {
                Name::from_octets(name_wire(labels)).map(Rep::Flat).map_err(|e| e.to_string())
            } else if s.special == "parsed-from-name" {
                Name::from_octets(s.msg.as_slice()).map(|n| Rep::Parsed(ParsedName::from(n))).map_err(|e| e.to_string())
            } else if s.special == "uncertain-relative" {
                let sp = s.split.unwrap_or(0);
                let left = RelativeName::from_octets(labels_wire(&labels[..sp])).map_err(|e| e.to_string())?;
                let right = Name::from_octets(name_wire(&labels[sp..])).map_err(|e| e.to_string())?;
                UncertainName::from(left).chain(right).map(Rep::UChain).map_err(|e| e.to_string())
            } else if s.special == "uncertain-absolute" {
                let left = Name::from_octets(name_wire(labels)).map_err(|e| e.to_string())?;
                let right = Name::from_octets(name_wire(&[b"b".to_vec()])).map_err(|e| e.to_string())?;
                UncertainName::from(left).chain(right).map(Rep::UChain).map_err(|e| e.to_string())
            } else if let (Some(s1), Some(s2)) = (s.split, s.split2) {
                let a = RelativeName::from_octets(labels_wire(&labels[..s1])).map_err(|e| e.to_string())?;
                let b = RelativeName::from_octets(labels_wire(&labels[s1..s2])).map_err(|e| e.to_string())?;
                let c = Name::from_octets(name_wire(&labels[s2..])).map_err(|e| e.to_string())?;
                a.chain(b).map_err(|e| e.to_string())?.chain(c).map(Rep::Chain3).map_err(|e| e.to_string())
            } else if let Some(sp) = s.split {
                let left = RelativeName::from_octets(labels_wire(&labels[..sp])).map_err(|e| e.to_string())?;
                let right = Name::from_octets(name_wire(&labels[sp..])).map_err(|e| e.to_string())?;
                left.chain(right).map(Rep::Chain).map_err(|e| e.to_string())
            } else {
                let mut p = Parser::from_ref(s.msg.as_slice());
                p.advance(s.pos).map_err(|e| e.to_string())?;
                let pn = ParsedName::parse(&mut p).map_err(|e| e.to_string())?;
                Ok(Rep::Parsed(pn))
            }
        });
        match r {
            Ok(Ok(rep)) => reps.push(rep),
            Ok(Err(e)) => {
                env.viol(format!("C04|name|representation-cannot-be-built|{}", s.kind.trim_end_matches(char::is_numeric)), e, json!({"domain": dom, "depth": depth, "items": [desc(i)]}));
                reps.push(Rep::Flat(Name::root_vec()));
            }
            Err(e) => {
                env.viol(format!("C04|name|panic|{}", panic_class(&e)), e, json!({"domain": dom, "depth": depth, "items": [desc(i)]}));
                reps.push(Rep::Flat(Name::root_vec()));
            }
        }
    }
    *env.stats.counters.lock().unwrap().entry(format!("name(depth{depth},menu{menu}):names")).or_insert(0) = names.len() as u64;
    // vacuity: the compressed kinds must actually be compressed
    for (i, r) in reps.iter().enumerate() {
        if let Rep::Parsed(p) = r {
            let k = &specs[i].1.kind;
            env.stats.count(&format!("name(depth{depth},menu{menu}):{}:{}", k.trim_end_matches(char::is_numeric), if p.is_compressed() { "is_compressed" } else { "flat-slice-path" }));
        }
    }
    // unary: conversions between representations keep the name (and the
    // canonical ones lower-case it), whatever the representation
    let wires_u: Vec<Vec<u8>> = names.iter().map(|l| name_wire(l)).collect();
    let lwires_u: Vec<Vec<u8>> = names.iter().map(|l| name_wire(&l.iter().map(|x| lc(x)).collect::<Vec<_>>())).collect();
    for (i, r) in reps.iter().enumerate() {
        fn via_ref<N: ToName>(n: N, o: &impl ToName) -> (bool, i8) {
            (n.name_eq(o), sgn(n.name_cmp(o)))
        }
        let ni = specs[i].1.name;
        env.stats.eval();
        let res = guard(|| {
            one_rep!(r, |a| {
                let n1: Name<Vec<u8>> = a.to_name();
                let n5: Name<Vec<u8>> = a.to_canonical_name();
                let n6: Option<Name<Vec<u8>>> = a.try_to_name().ok();
                let n7: Option<Name<Vec<u8>>> = a.try_to_canonical_name().ok();
                let mut c1 = Vec::new();
                let mut c2 = Vec::new();
                let _ = a.compose(&mut c1);
                let _ = a.compose_canonical(&mut c2);
                let plain = [n1.as_slice().to_vec(), a.to_vec().as_slice().to_vec(), a.to_bytes().as_slice().to_vec(), a.to_cow().as_slice().to_vec(), n6.map(|n| n.as_slice().to_vec()).unwrap_or_default(), c1];
                let canon = [n5.as_slice().to_vec(), n7.map(|n| n.as_slice().to_vec()).unwrap_or_default(), c2];
                (plain, canon, a.compose_len(), via_ref(a, &n1), n1.name_eq(a), n5.name_eq(a), hrec(&n1), hrec(&n5))
            })
        });
        let case = || json!({"domain": dom, "depth": depth, "items": [desc(i)]});
        match res {
            Err(e) => env.viol(format!("C04|name|panic|{}", panic_class(&e)), e, case()),
            Ok((plain, canon, clen, by_ref, eq1, eq5, h1, h5)) => {
                if plain.iter().any(|w| *w != wires_u[ni]) || clen as usize != wires_u[ni].len() {
                    env.viol("C04|name|conversion|to_name/to_vec/to_bytes/to_cow/compose-changes-the-name".into(), format!("{:?} (compose_len {clen}) vs {}", plain.iter().map(|w| hex(w)).collect::<Vec<_>>(), hex(&wires_u[ni])), case());
                }
                if canon.iter().any(|w| *w != lwires_u[ni]) {
                    env.viol("C04|name|conversion|canonical-form-is-not-the-lower-cased-name".into(), format!("{:?} vs {}", canon.iter().map(|w| hex(w)).collect::<Vec<_>>(), hex(&lwires_u[ni])), case());
                }
                if by_ref != (true, 0) || !eq1 || !eq5 {
                    env.viol("C04|name|conversion|converted-name-not-equal-to-original".into(), format!("via &N {by_ref:?}, to_name == {eq1}, to_canonical_name == {eq5}"), case());
                }
                if h1.stream != h5.stream {
                    env.viol("C04|name|conversion|canonical-name-hashes-differently".into(), format!("{} vs {}", hex(&h1.stream), hex(&h5.stream)), case());
                }
            }
        }
        // label walks in every order give the labels the name was built from
        {
            let mut want: Vec<Vec<u8>> = names[ni].clone();
            want.push(vec![]);
            env.stats.eval();
            match guard(|| one_rep!(r, |a| walk_labels(a, &want))) {
                Err(e) => env.viol(format!("C04|name|panic|{}", panic_class(&e)), e, case()),
                Ok(bad) => {
                    for b in bad {
                        env.viol(format!("C04|name|label-iteration-differs-from-the-name|{b}|{}", rep_class(r)), format!("walking the labels {b} does not give {:?} + root, each exactly once", names[ni].iter().map(|l| hex(l)).collect::<Vec<_>>()), case());
                    }
                }
            }
        }
        if let Rep::Chain(c) = r {
            let fl: Result<Result<Name<Vec<u8>>, _>, String> = guard(|| c.clone().try_flatten_into());
            match fl {
                Ok(Ok(nm)) if nm.as_slice() == &wires_u[ni][..] => {}
                other => env.viol("C04|name|conversion|flatten_into-changes-the-name".into(), format!("{:?}", other.map(|r| r.map(|n| hex(n.as_slice())).map_err(|_| ()))), case()),
            }
        }
    }
    // unary: hash inputs (Name and ParsedName only; Chain has no Hash)
    let hashes: Vec<Option<Hs>> = reps
        .iter()
        .enumerate()
        .map(|(i, r)| {
            let h = guard(|| match r {
                Rep::Flat(a) => Some(hrec(a)),
                Rep::Parsed(a) => Some(hrec(a)),
                Rep::Chain(_) | Rep::Chain3(_) | Rep::UChain(_) => None,
            });
            match h {
                Ok(h) => {
                    env.say(|| format!("name[{}] {} hash input {:?}", specs[i].0, desc(i), h.as_ref().map(|h| hex(&h.stream))));
                    h
                }
                Err(e) => {
                    env.viol(format!("C04|name|panic|{}", panic_class(&e)), e, json!({"domain": dom, "depth": depth, "items": [desc(i)]}));
                    None
                }
            }
        })
        .collect();
    // reference keys
    let lcl: Vec<Vec<Vec<u8>>> = names.iter().map(|l| l.iter().rev().map(|x| lc(x)).collect()).collect();
    let wires: Vec<Vec<u8>> = names.iter().map(|l| name_wire(l)).collect();
    let lwires: Vec<Vec<u8>> = names.iter().map(|l| name_wire(&l.iter().map(|x| lc(x)).collect::<Vec<_>>())).collect();
    let mut rel = Rel::new(n);
    let track_pairs = n * n <= 6_000_000;
    let rows: Vec<(Vec<bool>, Vec<i8>)> = (0..n)
        .into_par_iter()
        .map(|i| {
            let mut re = vec![false; n];
            let mut rc = vec![0i8; n];
            let ni = specs[i].1.name;
            for j in 0..n {
                let nj = specs[j].1.name;
                let case = || json!({"domain": dom, "depth": depth, "items": [desc(i), desc(j)]});
                let r = guard(|| observe_names(&reps[i], &reps[j]));
                env.stats.eval();
                if i != j {
                    if track_pairs {
                        env.stats.distinct(mix(dom_id, specs[i].0, specs[j].0));
                    } else if j == 0 {
                        env.stats.distinct(mix(dom_id, specs[i].0, usize::MAX));
                    }
                }
                let o = match r {
                    Ok(o) => o,
                    Err(e) => {
                        env.viol(format!("C04|name|panic|{}", panic_class(&e)), e, case());
                        continue;
                    }
                };
                env.say(|| format!("name[{}] ? name[{}]: {:?}", specs[i].0, specs[j].0, o));
                re[j] = o.name_eq;
                rc[j] = o.name_cmp;
                let kinds = || if specs[i].1.contiguous && specs[j].1.contiguous { "both-contiguous-in-memory" } else { "not-both-contiguous-in-memory" };
                let ref_eq = lcl[ni] == lcl[nj];
                let ref_cmp = sgn(lcl[ni].cmp(&lcl[nj]));
                if o.name_eq != ref_eq {
                    let k = if ref_eq { "equal-names-unequal" } else { "different-names-equal" };
                    env.viol(format!("C04|name|name_eq-vs-reference|{k}|{}", kinds()), format!("name_eq = {}", o.name_eq), case());
                }
                if o.name_cmp != ref_cmp {
                    env.viol(
                        format!("C04|name|name_cmp-vs-rfc4034-6.1|{}", kinds()),
                        format!("name_cmp = {}, RFC 4034 6.1 canonical name order says {}", ord_s(o.name_cmp), ord_s(ref_cmp)),
                        case(),
                    );
                }
                if let Some((eq, pc, cc, lt, le, gt, ge)) = o.ops {
                    let c = o.name_cmp;
                    if eq != o.name_eq || pc != Some(c) || cc != c || lt != (c < 0) || le != (c <= 0) || gt != (c > 0) || ge != (c >= 0) {
                        env.viol(format!("C04|name|operators-vs-name_eq/name_cmp|{}", kinds()), format!("{o:?}"), case());
                    }
                }
                if o.can_ops_ok == Some(false) {
                    env.viol("C04|name|canonical_lt/le/gt/ge-vs-canonical_cmp".into(), format!("{o:?}"), case());
                }
                if let Some(c) = o.ord {
                    if c != o.name_cmp {
                        env.viol(format!("C04|name|Ord::cmp-vs-name_cmp|{}", kinds()), format!("{o:?}"), case());
                    }
                }
                let ref_comp = sgn(wires[ni].cmp(&wires[nj]));
                if o.composed != ref_comp {
                    env.viol(format!("C04|name|composed_cmp-vs-wire-octets|{}", kinds()), format!("composed_cmp = {}, wire octets order {}", ord_s(o.composed), ord_s(ref_comp)), case());
                }
                let ref_lcomp = sgn(lwires[ni].cmp(&lwires[nj]));
                if o.lc_composed != ref_lcomp {
                    env.viol(format!("C04|name|lowercase_composed_cmp-vs-canonical-wire-octets|{}", kinds()), format!("lowercase_composed_cmp = {}, canonical wire octets order {}", ord_s(o.lc_composed), ord_s(ref_lcomp)), case());
                }
                // label-wise suffix / prefix (labels compare ignoring case;
                // two absolute names: a prefix that ends in the root is the name)
                let ref_ends = lcl[ni].starts_with(&lcl[nj][..]);
                if o.ends != ref_ends {
                    let k = if ref_ends { "suffix-not-recognised" } else { "non-suffix-accepted" };
                    env.viol(format!("C04|name|ends_with-vs-reference|{k}|{}", kinds()), format!("ends_with = {}", o.ends), case());
                }
                if o.starts != ref_eq {
                    let k = if ref_eq { "same-name-not-recognised" } else { "different-name-accepted" };
                    env.viol(format!("C04|name|starts_with-vs-reference|{k}|{}", kinds()), format!("starts_with = {}", o.starts), case());
                }
                // equal names hash equal whatever the representation
                if o.name_eq {
                    if let (Some(h1), Some(h2)) = (&hashes[i], &hashes[j]) {
                        if h1.stream != h2.stream {
                            env.viol(format!("C04|name|eq-implies-hash|hash-input-differs|{}", kinds()), format!("{} vs {}", hex(&h1.stream), hex(&h2.stream)), case());
                        } else if h1.shape != h2.shape {
                            env.viol(format!("C04|name|eq-implies-hash|same-octets-different-hasher-calls|{}", kinds()), format!("{} vs {}", hex(&h1.shape), hex(&h2.shape)), case());
                        }
                    }
                }
            }
            (re, rc)
        })
        .collect();
    for (i, (re, rc)) in rows.into_iter().enumerate() {
        rel.eq[i * n..(i + 1) * n].copy_from_slice(&re);
        rel.cmp[i * n..(i + 1) * n].copy_from_slice(&rc);
    }
    if n > 2 {
        env.stats.sample(12, || json!({"domain": dom, "a": desc(n / 3), "b": desc(n / 2), "name_eq": rel.e(n / 3, n / 2), "name_cmp": ord_s(rel.c(n / 3, n / 2))}));
    }
    let cls = |i: usize, j: usize| if specs[i].1.contiguous && specs[j].1.contiguous { "both-contiguous-in-memory".to_string() } else { "not-both-contiguous-in-memory".to_string() };
    let dn = format!("name(depth{depth},menu{menu})");
    check_laws(env, &LawCfg { dom: "name", ord_name: "name_cmp", with_eq: true, triples: rep_triples, desc: &desc, pair_class: &cls, hash_class: &cls, only_prefix: None, tag: &dn, sig_dom: "name" }, &rel, None);
    // all triples of flat names
    let flat_idx: Vec<usize> = (0..n).filter(|&i| specs[i].1.flat).collect();
    let frel = sub_rel(&rel, &flat_idx);
    let fh: Vec<Hs> = flat_idx.iter().map(|&i| hashes[i].clone().unwrap_or_default()).collect();
    let fdesc = |a: usize| desc(flat_idx[a]);
    // flat names in other octets types: Bytes, &[u8], unsized [u8]
    {
        use bytes::Bytes;
        let m = flat_idx.len();
        let fw: Vec<&Vec<u8>> = flat_idx.iter().map(|&i| &wires_u[specs[i].1.name]).collect();
        let nb: Vec<Name<Bytes>> = fw.iter().map(|w| Name::from_octets(Bytes::copy_from_slice(w)).unwrap()).collect();
        let ns: Vec<Name<&[u8]>> = fw.iter().map(|w| Name::from_octets(w.as_slice()).unwrap()).collect();
        let nu: Vec<&Name<[u8]>> = fw.iter().map(|w| Name::from_slice(w).unwrap()).collect();
        let nv: Vec<Nm> = fw.iter().map(|w| Name::from_octets((*w).clone()).unwrap()).collect();
        for a in 0..m {
            env.stats.eval();
            let r = guard(|| {
                let borrowed: &Name<[u8]> = std::borrow::Borrow::borrow(&nv[a]);
                let mut canon = nv[a].clone();
                canon.make_canonical();
                ([hrec(&nb[a]), hrec(&ns[a]), hrec(nu[a]), hrec(borrowed), hrec(nv[a].for_slice()), hrec(&nv[a].for_ref()), hrec(&canon)], borrowed == &nv[a], canon.as_slice().to_vec(), canon == nv[a])
            });
            let case = || json!({"domain": dom, "depth": depth, "items": [fdesc(a)]});
            match r {
                Err(e) => env.viol(format!("C04|name|panic|{}", panic_class(&e)), e, case()),
                Ok((hs, beq, cw, ceq)) => {
                    if hs.iter().any(|h| *h != fh[a]) {
                        env.viol("C04|name|representation|hash-differs-between-octets-types-or-after-make_canonical".into(), format!("{:?}", hs.iter().map(|h| hex(&h.stream)).collect::<Vec<_>>()), case());
                    }
                    if !beq || !ceq || cw != lwires_u[specs[flat_idx[a]].1.name] {
                        env.viol("C04|name|conversion|borrow-or-make_canonical-changes-the-name".into(), format!("borrow == {beq}, canonical == {ceq}, canonical octets {}", hex(&cw)), case());
                    }
                }
            }
        }
        // the flat name's own label access: iter (both directions),
        // iter_suffixes, label_count, first, last, split_first, parent,
        // ends_with / strip_suffix with each of its own suffixes
        for a in 0..m {
            let labels = &names[specs[flat_idx[a]].1.name];
            let k = labels.len();
            env.stats.eval();
            let case = || json!({"domain": dom, "depth": depth, "items": [fdesc(a)]});
            let r = guard(|| {
                let mut bad: Vec<&'static str> = Vec::new();
                let sufs: Vec<Vec<u8>> = nv[a].iter_suffixes().take(k + 3).map(|s| s.as_slice().to_vec()).collect();
                if sufs != (0..=k).map(|s| name_wire(&labels[s..])).collect::<Vec<_>>() {
                    bad.push("iter_suffixes");
                }
                let mut want: Vec<Vec<u8>> = labels.clone();
                want.push(vec![]);
                let fwd: Vec<Vec<u8>> = nu[a].iter().take(k + 3).map(|l| l.as_slice().to_vec()).collect();
                let mut back: Vec<Vec<u8>> = ns[a].iter().rev().take(k + 3).map(|l| l.as_slice().to_vec()).collect();
                back.reverse();
                if fwd != want || back != want {
                    bad.push("iter");
                }
                if nv[a].label_count() != k + 1 || nv[a].first().as_slice() != &want[0][..] || !nv[a].last().is_root() {
                    bad.push("label_count/first/last");
                }
                let sf = nv[a].split_first().map(|(l, rest)| (l.as_slice().to_vec(), rest.as_slice().to_vec()));
                let parent = nv[a].parent().map(|p| p.as_slice().to_vec());
                let want_sf = if k == 0 { None } else { Some((labels[0].clone(), name_wire(&labels[1..]))) };
                if sf != want_sf || parent != want_sf.map(|x| x.1) {
                    bad.push("split_first/parent");
                }
                for s in 0..=k {
                    let suf: Nm = Name::from_octets(name_wire(&labels[s..])).unwrap();
                    if !nv[a].ends_with(&suf) || (s > 0 && suf.ends_with(&nv[a])) {
                        bad.push("ends_with-own-suffix");
                    }
                    match nv[a].clone().strip_suffix(&suf) {
                        Ok(rel) if rel.as_slice() == &labels_wire(&labels[..s])[..] => {}
                        _ => bad.push("strip_suffix-own-suffix"),
                    }
                }
                bad.dedup();
                bad
            });
            match r {
                Err(e) => env.viol(format!("C04|name|panic|{}", panic_class(&e)), e, case()),
                Ok(bad) => {
                    for b in bad {
                        env.viol(format!("C04|name|flat-name-label-access-differs-from-the-name|{b}"), format!("{b} of the flat name does not give what the labels {:?} say", labels.iter().map(|l| hex(l)).collect::<Vec<_>>()), case());
                    }
                }
            }
        }
        (0..m).into_par_iter().for_each(|a| {
            for b in 0..m {
                let r = guard(|| {
                    let eqs = [nb[a] == ns[b], ns[a] == nv[b], nb[a] == *nu[b], *nu[a] == nb[b], *nu[a] == *nu[b]];
                    let cmps = [sgn(nb[a].cmp(&nb[b])), sgn(ns[a].cmp(&ns[b])), sgn(nu[a].cmp(nu[b]))];
                    let pcs = [nb[a].partial_cmp(&ns[b]).map(sgn), ns[a].partial_cmp(nu[b]).map(sgn), nu[a].partial_cmp(&nv[b]).map(sgn)];
                    let cans = [sgn(nb[a].canonical_cmp(&ns[b])), sgn(nu[a].canonical_cmp(&nb[b]))];
                    (eqs, cmps, pcs, cans)
                });
                env.stats.eval();
                let case = || json!({"domain": dom, "depth": depth, "items": [fdesc(a), fdesc(b)]});
                match r {
                    Err(e) => env.viol(format!("C04|name|panic|{}", panic_class(&e)), e, case()),
                    Ok((eqs, cmps, pcs, cans)) => {
                        let (e, c) = (frel.e(a, b), frel.c(a, b));
                        if eqs.iter().any(|x| *x != e) || cmps.iter().any(|x| *x != c) || pcs.iter().any(|x| *x != Some(c)) || cans.iter().any(|x| *x != c) {
                            env.viol("C04|name|representation|results-differ-between-octets-types".into(), format!("Vec: == {e}, cmp {c}; others: {eqs:?} {cmps:?} {pcs:?} {cans:?}"), case());
                        }
                    }
                }
            }
        });
    }
    let fcls = |_: usize, _: usize| "flat-vs-flat".to_string();
    check_laws(env, &LawCfg { dom: "name-flat", ord_name: "cmp", with_eq: true, triples: true, desc: &fdesc, pair_class: &fcls, hash_class: &fcls, only_prefix: None, tag: &format!("{dn}-flat"), sig_dom: "name-flat" }, &frel, Some(&fh));
}

//------------ names: every compression shape ------------------------------------------------

/// All vectors of `parts` non-negative integers with sum `k`, in
/// lexicographic order.
fn compositions(k: usize, parts: usize) -> Vec<Vec<usize>> {
    if parts == 1 {
        return vec![vec![k]];
    }
    let mut out = Vec::new();
    for first in 0..=k {
        for rest in compositions(k - first, parts - 1) {
            let mut v = vec![first];
            v.extend(rest);
            out.push(v);
        }
    }
    out
}

/// A compression shape of a name of k labels is a composition of k into
/// h+1 parts (h = number of pointer hops): part i < h is stored as "that
/// many labels, then a pointer to part i+1", the last part as "labels,
/// root label". A part of 0 labels before the last is a bare pointer.
fn shape_class(parts: &[usize]) -> &'static str {
    let h = parts.len() - 1;
    if h == 0 {
        "uncompressed"
    } else if parts[0] > 0 {
        if h == 1 {
            "labels+pointer"
        } else {
            "labels+pointer-chain"
        }
    } else if h == 1 {
        "bare-pointer-to-flat"
    } else if parts[1..h].iter().all(|p| *p == 0) {
        "pointer-to-pointer-to-flat"
    } else {
        "bare-pointer-to-compressed"
    }
}

/// Panic class with the numbers (positions, lengths) taken out.
fn shape_panic_class(e: &str) -> String {
    let mut out = String::new();
    for c in panic_class(e).chars() {
        if c.is_ascii_digit() {
            if !out.ends_with('N') {
                out.push('N');
            }
        } else {
            out.push(c);
        }
    }
    out
}

/// From the ordinary to the unusual (for the class of a pair).
fn shape_class_rank(class: &str) -> usize {
    ["flat-name", "chain", "uncompressed", "labels+pointer", "bare-pointer-to-flat", "pointer-to-pointer-to-flat", "labels+pointer-chain", "bare-pointer-to-compressed"].iter().position(|c| *c == class).unwrap_or(0)
}

fn shape_text(parts: &[usize]) -> String {
    parts.iter().map(|p| p.to_string()).collect::<Vec<_>>().join("|")
}

/// The segments of one shape: segment i holds the labels of part i followed
/// by a pointer to `next` (the position of segment i+1) or, for the last
/// part, by the root label.
fn shape_segment(labels: &[Vec<u8>], parts: &[usize], i: usize, next: usize) -> Vec<u8> {
    let start: usize = parts[..i].iter().sum();
    let mut w = labels_wire(&labels[start..start + parts[i]]);
    if i + 1 == parts.len() {
        w.push(0);
    } else {
        w.extend_from_slice(&ptr(next));
    }
    w
}

/// A message holding one name in one shape: `base` octets of header and
/// zero filler, the segments innermost first (every pointer points
/// backwards), four trailing octets. Returns (message, position of the
/// name, position after the name).
fn shape_message(labels: &[Vec<u8>], parts: &[usize], base: usize) -> (Vec<u8>, usize, usize) {
    let mut m = vec![0u8; base];
    let mut next = 0;
    for i in (0..parts.len()).rev() {
        let here = m.len();
        m.extend_from_slice(&shape_segment(labels, parts, i, next));
        next = here;
    }
    let end = m.len();
    m.extend_from_slice(&[0, 1, 0, 1]);
    (m, next, end)
}

/// Position of the name for the "far" layout: every pointer target is >= 256.
const FAR_BASE: usize = 12 + 256;

struct ShapeSpec {
    name: usize,
    kind: String,
    class: &'static str,
    msg: Vec<u8>,
    pos: usize,
    end: usize,
    hops: usize,
    split: Option<usize>,
    flat: bool,
}

fn shape_specs(name: usize, labels: &[Vec<u8>], max_hops: usize, far: bool) -> Vec<ShapeSpec> {
    let k = labels.len();
    let mut out = vec![ShapeSpec { name, kind: "flat".into(), class: "flat-name", msg: vec![], pos: 0, end: 0, hops: 0, split: None, flat: true }];
    for s in 0..=k {
        out.push(ShapeSpec { name, kind: format!("chain-split-at-{s}"), class: "chain", msg: vec![], pos: 0, end: 0, hops: 0, split: Some(s), flat: false });
    }
    for h in 0..=max_hops {
        for parts in compositions(k, h + 1) {
            for base in if far { vec![12, FAR_BASE] } else { vec![12] } {
                let (msg, pos, end) = shape_message(labels, &parts, base);
                out.push(ShapeSpec { name, kind: format!("parsed-shape[{}]@{base}", shape_text(&parts)), class: shape_class(&parts), msg, pos, end, hops: h, split: None, flat: false });
            }
        }
    }
    out
}

/// What one parsed representation says about itself.
struct ShapeUnary {
    compressed: bool,
    flat_slice: Option<Vec<u8>>,
    plain: Vec<Vec<u8>>,
    canon: Vec<Vec<u8>>,
    compose_len: u16,
    fwd: Vec<Vec<u8>>,
    back: Vec<Vec<u8>>,
    label_count: usize,
    /// problems found on the derived names (iter_suffixes, split_first)
    derived: Vec<String>,
}

fn shape_unary(pn: &ParsedName<&[u8]>, labels: &[Vec<u8>]) -> ShapeUnary {
    let n1: Name<Vec<u8>> = pn.to_name();
    let n2: Option<Name<Vec<u8>>> = pn.try_to_name().ok();
    let fl: Option<Name<Vec<u8>>> = (*pn).try_flatten_into().ok();
    let n5: Name<Vec<u8>> = pn.to_canonical_name();
    let n7: Option<Name<Vec<u8>>> = pn.try_to_canonical_name().ok();
    let mut c1 = Vec::new();
    let mut c2 = Vec::new();
    let _ = pn.compose(&mut c1);
    let _ = pn.compose_canonical(&mut c2);
    let plain = vec![
        n1.as_slice().to_vec(),
        n2.map(|n| n.as_slice().to_vec()).unwrap_or_default(),
        fl.map(|n| n.as_slice().to_vec()).unwrap_or_default(),
        pn.to_vec().as_slice().to_vec(),
        pn.to_bytes().as_slice().to_vec(),
        pn.to_cow().as_slice().to_vec(),
        c1,
    ];
    let canon = vec![n5.as_slice().to_vec(), n7.map(|n| n.as_slice().to_vec()).unwrap_or_default(), c2];
    let mut derived = Vec::new();
    let k = labels.len();
    // every suffix the library derives from this representation is the
    // suffix of the name, by every operation
    let check_suffix = |derived: &mut Vec<String>, how: &str, s: usize, q: &ParsedName<&[u8]>| {
        let w = name_wire(&labels[s.min(k)..]);
        let want: Nm = Name::from_octets(w.clone()).unwrap();
        let ok = q.name_eq(&want)
            && want.name_eq(q)
            && *q == want
            && want == *q
            && q.name_cmp(&want) == Ordering::Equal
            && want.name_cmp(q) == Ordering::Equal
            && q.composed_cmp(&want) == Ordering::Equal
            && want.composed_cmp(q) == Ordering::Equal
            && q.lowercase_composed_cmp(&want) == Ordering::Equal
            && hrec(q) == hrec(&want)
            && q.as_flat_slice().map(|x| x == &w[..]).unwrap_or(true)
            && q.as_flat_slice().is_none() == q.is_compressed()
            && q.to_vec().as_slice() == &w[..]
            && q.compose_len() as usize == w.len()
            && q.is_root() == (w.len() == 1);
        if !ok {
            derived.push(format!("{how}: suffix {s} differs from {} by some operation (flat slice {:?}, to_vec {})", hex(&w), q.as_flat_slice().map(hex), hex(q.to_vec().as_slice())));
        }
    };
    let sufs: Vec<ParsedName<&[u8]>> = pn.iter_suffixes().collect();
    if sufs.len() != k + 1 {
        derived.push(format!("iter_suffixes yields {} names for {} labels", sufs.len(), k));
    }
    for (s, q) in sufs.iter().enumerate() {
        check_suffix(&mut derived, "iter_suffixes", s, q);
    }
    let mut q = *pn;
    for s in 0..=k {
        match q.split_first() {
            Some(l) => {
                if s >= k || l.as_slice() != &labels_wire(&labels[s..s + 1])[..] {
                    derived.push(format!("split_first #{s} returns {}", hex(l.as_slice())));
                }
            }
            None => {
                if s != k {
                    derived.push(format!("split_first #{s} returns None"));
                }
            }
        }
        check_suffix(&mut derived, "split_first", s + 1, &q);
    }
    let mut q = *pn;
    for s in 0..=k {
        let went = q.parent();
        if went != (s < k) {
            derived.push(format!("parent #{s} returns {went}"));
        }
        check_suffix(&mut derived, "parent", s + 1, &q);
    }
    ShapeUnary {
        compressed: pn.is_compressed(),
        flat_slice: pn.as_flat_slice().map(|s| s.to_vec()),
        plain,
        canon,
        compose_len: pn.compose_len(),
        fwd: pn.iter().map(|l| l.as_slice().to_vec()).collect(),
        back: pn.iter().rev().map(|l| l.as_slice().to_vec()).collect(),
        label_count: pn.label_count(),
        derived,
    }
}

/// Names in every compression shape: every name of the menu (all label
/// sequences of <= depth labels) as flat `Name`, as `Chain` split at every
/// boundary and as `ParsedName` parsed from a hand-assembled message that
/// stores it in every composition of its labels into h+1 <= max_hops+1
/// segments joined by pointers (see `shape_class`), optionally also with
/// all pointer targets >= 256. The message is checked with the independent
/// decompressor `mc::wire::read_name` first. All ordered pairs of all
/// representations.
fn dom_name_shapes(env: &Env, depth: usize, menu: usize, max_hops: usize, far: bool, dom_id: u64, only: Option<&[usize]>) {
    let dom = "name-shape";
    let names = name_items(depth, menu);
    let specs_all: Vec<ShapeSpec> = names.iter().enumerate().flat_map(|(i, l)| shape_specs(i, l, max_hops, far)).collect();
    let specs = restrict(specs_all, only);
    let n = specs.len();
    let tag = format!("name-shape(depth{depth},menu{menu},hops{max_hops}{})", if far { ",near+far" } else { "" });
    // a defect the plain name domains have reported already is reported
    // here once per operation, not once per pair of shape classes
    let generic = PLAIN_NAME_LEVEL_BROKEN.load(AO::Relaxed);
    let cls1 = |i: usize| if generic { "any-shape(name-level-defect-reported-before)" } else { specs[i].1.class };
    // class of a pair: the less ordinary of the two shape classes
    let cls2 = |i: usize, j: usize| if shape_class_rank(specs[i].1.class) >= shape_class_rank(specs[j].1.class) { cls1(i).to_string() } else { cls1(j).to_string() };
    let desc = |i: usize| {
        let s = &specs[i].1;
        json!({"index": specs[i].0, "depth": depth, "menu": menu, "max_hops": max_hops, "far": far, "labels_hex": names[s.name].iter().map(|l| hex(l)).collect::<Vec<_>>(), "labels": names[s.name].iter().map(|l| String::from_utf8_lossy(l).to_string()).collect::<Vec<_>>(), "representation": s.kind, "shape_class": s.class, "message": hex(&s.msg), "pos": s.pos})
    };
    let wires: Vec<Vec<u8>> = names.iter().map(|l| name_wire(l)).collect();
    let lwires: Vec<Vec<u8>> = names.iter().map(|l| name_wire(&l.iter().map(|x| lc(x)).collect::<Vec<_>>())).collect();
    let lcl: Vec<Vec<Vec<u8>>> = names.iter().map(|l| l.iter().rev().map(|x| lc(x)).collect()).collect();
    let flat_names: Vec<Nm> = wires.iter().map(|w| Name::from_octets(w.clone()).expect("menu name")).collect();
    let flat_hashes: Vec<Hs> = flat_names.iter().map(|f| guard(|| hrec(f)).unwrap_or_default()).collect();
    // the hand-assembled messages hold what they are meant to hold
    for (_, s) in &specs {
        if s.flat || s.split.is_some() {
            continue;
        }
        let mut ptrs = Vec::new();
        match mc::wire::read_name(&s.msg, s.pos, &mut ptrs) {
            Ok((l, after)) if l == names[s.name] && after == s.end && ptrs.len() == s.hops => {}
            other => {
                eprintln!("MACHINERY: message {} at {} ({}) decompresses to {:?}", hex(&s.msg), s.pos, s.kind, other);
                std::process::exit(2);
            }
        }
    }
    // build the library values
    let mut reps: Vec<Rep> = Vec::with_capacity(n);
    for (i, (_, s)) in specs.iter().enumerate() {
        let labels = &names[s.name];
        env.stats.eval();
        let case = || json!({"domain": dom, "items": [desc(i)]});
        let r: Result<Result<Rep, String>, String> = guard(|| {
            if s.flat {
                Ok(Rep::Flat(flat_names[s.name].clone()))
            } else if let Some(sp) = s.split {
                let left = RelativeName::from_octets(labels_wire(&labels[..sp])).map_err(|e| e.to_string())?;
                let right = Name::from_octets(name_wire(&labels[sp..])).map_err(|e| e.to_string())?;
                left.chain(right).map(Rep::Chain).map_err(|e| e.to_string())
            } else {
                let mut p = Parser::from_ref(s.msg.as_slice());
                p.advance(s.pos).map_err(|e| e.to_string())?;
                let pn = ParsedName::parse(&mut p).map_err(|e| e.to_string())?;
                if p.pos() != s.end {
                    return Err(format!("parser-position:{}", p.pos()));
                }
                Ok(Rep::Parsed(pn))
            }
        });
        match r {
            Ok(Ok(rep)) => reps.push(rep),
            Ok(Err(e)) if e.starts_with("parser-position:") => {
                env.viol(format!("C04|name-shape|parse-leaves-the-parser-at-the-wrong-position|{}", cls1(i)), format!("{e}, the name ends at {}", s.end), case());
                reps.push(Rep::Flat(Name::root_vec()));
            }
            Ok(Err(e)) => {
                env.viol(format!("C04|name-shape|representation-cannot-be-built|{}", cls1(i)), e, case());
                reps.push(Rep::Flat(Name::root_vec()));
            }
            Err(e) => {
                env.viol(format!("C04|name-shape|panic|{}|{}", cls1(i), shape_panic_class(&e)), e, case());
                reps.push(Rep::Flat(Name::root_vec()));
            }
        }
    }
    env.stats.count_n(&format!("{tag}:names"), names.len() as u64);
    env.stats.count_n(&format!("{tag}:representations"), n as u64);
    // unary: what each parsed representation says about itself
    let hashes: Vec<Option<Hs>> = (0..n)
        .into_par_iter()
        .map(|i| {
            let s = &specs[i].1;
            let ni = s.name;
            let case = || json!({"domain": dom, "items": [desc(i)]});
            let mut local: BTreeMap<String, u64> = BTreeMap::new();
            let h = match &reps[i] {
                Rep::Flat(a) => guard(|| hrec(a)).ok(),
                Rep::Parsed(a) => match guard(|| hrec(a)) {
                    Ok(h) => Some(h),
                    Err(e) => {
                        env.viol(format!("C04|name-shape|panic|{}|{}", cls1(i), shape_panic_class(&e)), e, case());
                        None
                    }
                },
                _ => None,
            };
            if let Rep::Parsed(pn) = &reps[i] {
                env.stats.eval();
                match guard(|| shape_unary(pn, &names[ni])) {
                    Err(e) => env.viol(format!("C04|name-shape|panic|{}|{}", cls1(i), shape_panic_class(&e)), e, case()),
                    Ok(u) => {
                        *local.entry(format!("{tag}:{}:{}", s.class, if u.compressed { "is_compressed" } else { "flat-slice-path" })).or_insert(0) += 1;
                        if u.compressed != u.flat_slice.is_none() {
                            env.viol(format!("C04|name-shape|is_compressed-vs-as_flat_slice|{}", cls1(i)), format!("is_compressed {} but as_flat_slice {:?}", u.compressed, u.flat_slice.as_ref().map(|x| hex(x))), case());
                        }
                        if let Some(fs) = &u.flat_slice {
                            if *fs != wires[ni] {
                                env.viol(format!("C04|name-shape|as_flat_slice-is-not-the-uncompressed-wire-form|{}", cls1(i)), format!("as_flat_slice = {}, the name is {}", hex(fs), hex(&wires[ni])), case());
                            }
                        }
                        if u.plain.iter().any(|w| *w != wires[ni]) || u.compose_len as usize != wires[ni].len() {
                            env.viol(
                                format!("C04|name-shape|conversion|to_name/flatten_into/to_vec/to_bytes/to_cow/compose-changes-the-name|{}", cls1(i)),
                                format!("{:?} (compose_len {}) vs {}", u.plain.iter().map(|w| hex(w)).collect::<Vec<_>>(), u.compose_len, hex(&wires[ni])),
                                case(),
                            );
                        }
                        if u.canon.iter().any(|w| *w != lwires[ni]) {
                            env.viol(format!("C04|name-shape|conversion|canonical-form-is-not-the-lower-cased-name|{}", cls1(i)), format!("{:?} vs {}", u.canon.iter().map(|w| hex(w)).collect::<Vec<_>>(), hex(&lwires[ni])), case());
                        }
                        let mut want: Vec<Vec<u8>> = names[ni].clone();
                        want.push(vec![]);
                        let mut wback = want.clone();
                        wback.reverse();
                        if u.fwd != want || u.back != wback || u.label_count != want.len() {
                            env.viol(format!("C04|name-shape|label-iteration-differs-from-the-name|{}", cls1(i)), format!("forward {:?}, backward {:?}, label_count {}", u.fwd.iter().map(|w| hex(w)).collect::<Vec<_>>(), u.back.iter().map(|w| hex(w)).collect::<Vec<_>>(), u.label_count), case());
                        }
                        if !u.derived.is_empty() {
                            env.viol(format!("C04|name-shape|derived-suffix(iter_suffixes/split_first/parent)-differs-from-the-suffix|{}", cls1(i)), u.derived.join("; "), case());
                        }
                        *local.entry(format!("{tag}:derived-suffix-names-checked")).or_insert(0) += 3 * (names[ni].len() as u64 + 1);
                        if let Some(h) = &h {
                            if h.stream != flat_hashes[ni].stream {
                                env.viol(format!("C04|name-shape|hash-input-differs-from-flat-name|{}", cls1(i)), format!("{} vs {}", hex(&h.stream), hex(&flat_hashes[ni].stream)), case());
                            } else if h.shape != flat_hashes[ni].shape {
                                env.viol(format!("C04|name-shape|hasher-calls-differ-from-flat-name|{}", cls1(i)), format!("{} vs {}", hex(&h.shape), hex(&flat_hashes[ni].shape)), case());
                            }
                        }
                    }
                }
            }
            // label walks in every order (every representation)
            {
                let mut want: Vec<Vec<u8>> = names[ni].clone();
                want.push(vec![]);
                env.stats.eval();
                match guard(|| one_rep!(&reps[i], |a| walk_labels(a, &want))) {
                    Err(e) => env.viol(format!("C04|name-shape|panic|{}|{}", cls1(i), shape_panic_class(&e)), e, case()),
                    Ok(bad) => {
                        for b in bad {
                            env.viol(format!("C04|name-shape|label-iteration-differs-from-the-name|{b}|{}", cls1(i)), format!("walking the labels {b} does not give {:?} + root, each exactly once", names[ni].iter().map(|l| hex(l)).collect::<Vec<_>>()), case());
                        }
                    }
                }
            }
            env.stats.merge_counts(&local);
            h
        })
        .collect();
    // all ordered pairs
    let mut rel = Rel::new(n);
    let track_pairs = n * n <= 6_000_000;
    let rows: Vec<(Vec<bool>, Vec<i8>)> = (0..n)
        .into_par_iter()
        .map(|i| {
            let mut re = vec![false; n];
            let mut rc = vec![0i8; n];
            let ni = specs[i].1.name;
            for j in 0..n {
                let nj = specs[j].1.name;
                let case = || json!({"domain": dom, "items": [desc(i), desc(j)]});
                let r = guard(|| observe_names(&reps[i], &reps[j]));
                env.stats.eval();
                if i != j {
                    if track_pairs {
                        env.stats.distinct(mix(dom_id, specs[i].0, specs[j].0));
                    } else if j == 0 {
                        env.stats.distinct(mix(dom_id, specs[i].0, usize::MAX));
                    }
                }
                let o = match r {
                    Ok(o) => o,
                    Err(e) => {
                        env.viol(format!("C04|name-shape|panic|{}|{}", cls2(i, j), shape_panic_class(&e)), e, case());
                        continue;
                    }
                };
                env.say(|| format!("name-shape[{}] {} ? name-shape[{}] {}: {:?}", specs[i].0, specs[i].1.kind, specs[j].0, specs[j].1.kind, o));
                re[j] = o.name_eq;
                rc[j] = o.name_cmp;
                let ref_eq = lcl[ni] == lcl[nj];
                let ref_cmp = sgn(lcl[ni].cmp(&lcl[nj]));
                if o.name_eq != ref_eq {
                    let k = if ref_eq { "equal-names-unequal" } else { "different-names-equal" };
                    env.viol(format!("C04|name-shape|name_eq-vs-reference|{k}|{}", cls2(i, j)), format!("name_eq = {}", o.name_eq), case());
                }
                if o.name_cmp != ref_cmp {
                    env.viol(format!("C04|name-shape|name_cmp-vs-rfc4034-6.1|{}", cls2(i, j)), format!("name_cmp = {}, RFC 4034 6.1 canonical name order says {}", ord_s(o.name_cmp), ord_s(ref_cmp)), case());
                }
                if let Some((eq, pc, cc, lt, le, gt, ge)) = o.ops {
                    let c = o.name_cmp;
                    if eq != o.name_eq || pc != Some(c) || cc != c || lt != (c < 0) || le != (c <= 0) || gt != (c > 0) || ge != (c >= 0) {
                        env.viol(format!("C04|name-shape|operators-vs-name_eq/name_cmp|{}", cls2(i, j)), format!("{o:?}"), case());
                    }
                }
                if o.can_ops_ok == Some(false) {
                    env.viol(format!("C04|name-shape|canonical_lt/le/gt/ge-vs-canonical_cmp|{}", cls2(i, j)), format!("{o:?}"), case());
                }
                if let Some(c) = o.ord {
                    if c != o.name_cmp {
                        env.viol(format!("C04|name-shape|Ord::cmp-vs-name_cmp|{}", cls2(i, j)), format!("{o:?}"), case());
                    }
                }
                let ref_comp = sgn(wires[ni].cmp(&wires[nj]));
                if o.composed != ref_comp {
                    env.viol(format!("C04|name-shape|composed_cmp-vs-wire-octets|{}", cls2(i, j)), format!("composed_cmp = {}, wire octets order {}", ord_s(o.composed), ord_s(ref_comp)), case());
                }
                let ref_lcomp = sgn(lwires[ni].cmp(&lwires[nj]));
                if o.lc_composed != ref_lcomp {
                    env.viol(format!("C04|name-shape|lowercase_composed_cmp-vs-canonical-wire-octets|{}", cls2(i, j)), format!("lowercase_composed_cmp = {}, canonical wire octets order {}", ord_s(o.lc_composed), ord_s(ref_lcomp)), case());
                }
                let ref_ends = lcl[ni].starts_with(&lcl[nj][..]);
                if o.ends != ref_ends {
                    let k = if ref_ends { "suffix-not-recognised" } else { "non-suffix-accepted" };
                    env.viol(format!("C04|name-shape|ends_with-vs-reference|{k}|{}", cls2(i, j)), format!("ends_with = {}", o.ends), case());
                }
                if o.starts != ref_eq {
                    let k = if ref_eq { "same-name-not-recognised" } else { "different-name-accepted" };
                    env.viol(format!("C04|name-shape|starts_with-vs-reference|{k}|{}", cls2(i, j)), format!("starts_with = {}", o.starts), case());
                }
                if o.name_eq || ref_eq {
                    if let (Some(h1), Some(h2)) = (&hashes[i], &hashes[j]) {
                        if h1.stream != h2.stream {
                            env.viol(format!("C04|name-shape|eq-implies-hash|hash-input-differs|{}", cls2(i, j)), format!("{} vs {}", hex(&h1.stream), hex(&h2.stream)), case());
                        } else if h1.shape != h2.shape {
                            env.viol(format!("C04|name-shape|eq-implies-hash|same-octets-different-hasher-calls|{}", cls2(i, j)), format!("{} vs {}", hex(&h1.shape), hex(&h2.shape)), case());
                        }
                    }
                }
            }
            (re, rc)
        })
        .collect();
    for (i, (re, rc)) in rows.into_iter().enumerate() {
        rel.eq[i * n..(i + 1) * n].copy_from_slice(&re);
        rel.cmp[i * n..(i + 1) * n].copy_from_slice(&rc);
    }
    env.stats.count_n(&format!("{tag}:ordered-pairs"), (n * n) as u64);
    if let Some(i) = (0..n).find(|&i| specs[i].1.class == "bare-pointer-to-compressed") {
        let j = (0..n).find(|&j| specs[j].1.flat && specs[j].1.name == specs[i].1.name).unwrap_or(0);
        env.stats.sample(64, || json!({"domain": dom, "a": desc(i), "b": desc(j), "name_eq": rel.e(i, j), "name_cmp": ord_s(rel.c(i, j)), "hash_inputs": [hashes[i].as_ref().map(|h| hex(&h.stream)), hashes[j].as_ref().map(|h| hex(&h.stream))]}));
    }
    let cls = |i: usize, j: usize| cls2(i, j);
    check_laws(env, &LawCfg { dom, ord_name: "name_cmp", with_eq: true, triples: n <= 1500, desc: &desc, pair_class: &cls, hash_class: &cls, only_prefix: None, tag: &tag, sig_dom: "name-shape" }, &rel, None);
}

//------------ relative names ------------------------------------------------------------

type RCh = Chain<RelN, RelN>;
type RCh3 = Chain<Chain<RelN, RelN>, RelN>;

enum RRep {
    Flat(RelN),
    Chain(RCh),
    Chain3(RCh3),
}

macro_rules! one_rrep {
    ($x:expr, |$a:ident| $body:expr) => {
        match $x {
            RRep::Flat($a) => $body,
            RRep::Chain($a) => $body,
            RRep::Chain3($a) => $body,
        }
    };
}

struct RRepSpec {
    name: usize,
    kind: String,
    s1: usize,
    s2: Option<usize>,
    flat: bool,
}

#[derive(Debug, Clone, Copy, PartialEq)]
struct RelObs {
    name_eq: bool,
    name_cmp: i8,
    /// ==, partial_cmp, <, <=, >, >= (left is a RelativeName)
    ops: Option<(bool, Option<i8>, bool, bool, bool, bool)>,
    /// Ord::cmp (both flat)
    ord: Option<i8>,
    /// ToLabelIter::starts_with / ends_with
    starts: bool,
    ends: bool,
}

/// Relative names: all label sequences of <= depth labels over the 5-label
/// menu (including the empty name, so every label-prefix pair occurs), each
/// as flat `RelativeName`, `Chain<Rel, Rel>` split at every boundary and
/// `Chain<Chain<Rel, Rel>, Rel>` split at every pair of boundaries.
fn dom_relnames(env: &Env, depth: usize, menu: usize, triples: bool, dom_id: u64, only: Option<&[usize]>) {
    use domain::base::name::ToRelativeName;
    let dom = "relname";
    let names = name_items(depth, menu);
    let tag = if menu == 5 { "relname".to_string() } else { format!("relname(depth{depth},menu{menu})") };
    let mut specs_all = Vec::new();
    for (i, l) in names.iter().enumerate() {
        let k = l.len();
        specs_all.push(RRepSpec { name: i, kind: "flat".into(), s1: 0, s2: None, flat: true });
        for s in 0..=k {
            specs_all.push(RRepSpec { name: i, kind: format!("chain-split-at-{s}"), s1: s, s2: None, flat: false });
        }
        for s1 in 0..=k {
            for s2 in s1..=k {
                specs_all.push(RRepSpec { name: i, kind: format!("chain-of-chains-split-at-{s1}-{s2}"), s1, s2: Some(s2), flat: false });
            }
        }
    }
    let specs = restrict(specs_all, only);
    let n = specs.len();
    let desc = |i: usize| {
        let s = &specs[i].1;
        json!({"index": specs[i].0, "depth": depth, "menu": menu, "labels_hex": names[s.name].iter().map(|l| hex(l)).collect::<Vec<_>>(), "labels": names[s.name].iter().map(|l| String::from_utf8_lossy(l).to_string()).collect::<Vec<_>>(), "representation": s.kind})
    };
    let mut reps: Vec<RRep> = Vec::with_capacity(n);
    for (i, (_, s)) in specs.iter().enumerate() {
        let labels = &names[s.name];
        env.stats.eval();
        let r: Result<Result<RRep, String>, String> = guard(|| {
            let rel = |l: &[Vec<u8>]| RelativeName::from_octets(labels_wire(l)).map_err(|e| e.to_string());
            if s.flat {
                rel(labels).map(RRep::Flat)
            } else if let Some(s2) = s.s2 {
                rel(&labels[..s.s1])?.chain(rel(&labels[s.s1..s2])?).map_err(|e| e.to_string())?.chain(rel(&labels[s2..])?).map(RRep::Chain3).map_err(|e| e.to_string())
            } else {
                rel(&labels[..s.s1])?.chain(rel(&labels[s.s1..])?).map(RRep::Chain).map_err(|e| e.to_string())
            }
        });
        match r {
            Ok(Ok(rep)) => reps.push(rep),
            other => {
                let e = match other {
                    Ok(Err(e)) => e,
                    Err(e) => e,
                    _ => unreachable!(),
                };
                env.viol("C04|relname|representation-cannot-be-built".into(), e, json!({"domain": dom, "items": [desc(i)]}));
                reps.push(RRep::Flat(RelativeName::empty_vec()));
            }
        }
    }
    // unary: conversions keep the name; canonical ones lower-case it
    for (i, r) in reps.iter().enumerate() {
        let labels = &names[specs[i].1.name];
        let (w, lw) = (labels_wire(labels), labels_wire(&labels.iter().map(|x| lc(x)).collect::<Vec<_>>()));
        env.stats.eval();
        let res = guard(|| {
            one_rrep!(r, |a| {
                let n1: RelativeName<Vec<u8>> = a.to_relative_name();
                let n5: RelativeName<Vec<u8>> = a.to_canonical_relative_name();
                let mut c1 = Vec::new();
                let mut c2 = Vec::new();
                let _ = ToRelativeName::compose(a, &mut c1);
                let _ = ToRelativeName::compose_canonical(a, &mut c2);
                let abs = a.clone().chain_root().to_vec();
                let plain = [n1.as_slice().to_vec(), a.to_vec().as_slice().to_vec(), a.to_bytes().as_slice().to_vec(), a.to_cow().as_slice().to_vec(), c1];
                let canon = [n5.as_slice().to_vec(), c2];
                (plain, canon, abs.as_slice().to_vec(), ToRelativeName::is_empty(a), n1.name_eq(a), a.name_eq(&n5), hrec(&n1) == hrec(&n5), a.compose_len())
            })
        });
        let case = || json!({"domain": dom, "items": [desc(i)]});
        match res {
            Err(e) => env.viol(format!("C04|relname|panic|{}", panic_class(&e)), e, case()),
            Ok((plain, canon, abs, empty, eq1, eq5, same_hash, clen)) => {
                let mut aw = w.clone();
                aw.push(0);
                if plain.iter().any(|x| *x != w) || abs != aw || empty != w.is_empty() || clen as usize != w.len() {
                    env.viol("C04|relname|conversion|to_relative_name/to_vec/to_bytes/to_cow/compose/chain_root-changes-the-name".into(), format!("{:?} abs {} is_empty {empty} compose_len {clen} vs {}", plain.iter().map(|x| hex(x)).collect::<Vec<_>>(), hex(&abs), hex(&w)), case());
                }
                if canon.iter().any(|x| *x != lw) {
                    env.viol("C04|relname|conversion|canonical-form-is-not-the-lower-cased-name".into(), format!("{:?} vs {}", canon.iter().map(|x| hex(x)).collect::<Vec<_>>(), hex(&lw)), case());
                }
                if !eq1 || !eq5 || !same_hash {
                    env.viol("C04|relname|conversion|converted-name-not-equal-or-hashes-differently".into(), format!("to_relative_name == {eq1}, canonical == {eq5}, same hash {same_hash}"), case());
                }
            }
        }
        // label walks in every order give the labels the name was built from
        env.stats.eval();
        match guard(|| {
            let mut bad = one_rrep!(r, |a| walk_labels(a, labels));
            if let RRep::Flat(a) = r {
                // the flat name's own label access and in-place canonical form
                let mut c = a.clone();
                c.make_canonical();
                if a.label_count() != labels.len() || a.first().map(|l| l.as_slice()) != labels.first().map(|l| &l[..]) || a.last().map(|l| l.as_slice()) != labels.last().map(|l| &l[..]) || a.iter().rev().take(labels.len() + 2).count() != labels.len() {
                    bad.push("label_count/first/last".into());
                }
                if c.as_slice() != &lw[..] || c != *a || hrec(&c) != hrec(a) {
                    bad.push("make_canonical".into());
                }
                for s in 0..=labels.len() {
                    let suf = RelativeName::from_octets(labels_wire(&labels[s..])).unwrap();
                    let pre = RelativeName::from_octets(labels_wire(&labels[..s])).unwrap();
                    if !a.ends_with(&suf) || !a.starts_with(&pre) || (s > 0 && suf.ends_with(a)) || (s < labels.len() && pre.starts_with(a)) {
                        bad.push("starts_with/ends_with-own-prefix/suffix".into());
                    }
                    let mut stripped = a.clone();
                    if stripped.strip_suffix(&suf).is_err() || stripped.as_slice() != pre.as_slice() {
                        bad.push("strip_suffix-own-suffix".into());
                    }
                }
                bad.dedup();
            }
            bad
        }) {
            Err(e) => env.viol(format!("C04|relname|panic|{}", panic_class(&e)), e, case()),
            Ok(bad) => {
                for b in bad {
                    env.viol(format!("C04|relname|label-iteration-differs-from-the-name|{b}|{}", if specs[i].1.flat { "flat" } else { "chain" }), format!("{b}: the labels are {:?}", labels.iter().map(|l| hex(l)).collect::<Vec<_>>()), case());
                }
            }
        }
    }
    let hashes: Vec<Option<Hs>> = reps.iter().map(|r| if let RRep::Flat(a) = r { guard(|| hrec(a)).ok() } else { None }).collect();
    let lcl: Vec<Vec<Vec<u8>>> = names.iter().map(|l| l.iter().rev().map(|x| lc(x)).collect()).collect();
    let mut rel = Rel::new(n);
    let rows: Vec<(Vec<bool>, Vec<i8>)> = (0..n)
        .into_par_iter()
        .map(|i| {
            let mut re = vec![false; n];
            let mut rc = vec![0i8; n];
            let ni = specs[i].1.name;
            for j in 0..n {
                let nj = specs[j].1.name;
                let case = || json!({"domain": dom, "items": [desc(i), desc(j)]});
                let (x, y) = (&reps[i], &reps[j]);
                let r = guard(|| {
                    let (name_eq, name_cmp) = one_rrep!(x, |a| one_rrep!(y, |b| (a.name_eq(b), sgn(a.name_cmp(b)))));
                    let ops = match x {
                        RRep::Flat(a) => Some(one_rrep!(y, |b| (a == b, a.partial_cmp(b).map(sgn), a < b, a <= b, a > b, a >= b))),
                        _ => None,
                    };
                    let ord = match (x, y) {
                        (RRep::Flat(a), RRep::Flat(b)) => Some(sgn(a.cmp(b))),
                        _ => None,
                    };
                    let (starts, ends) = one_rrep!(x, |a| one_rrep!(y, |b| (ToLabelIter::starts_with(a, b), ToLabelIter::ends_with(a, b))));
                    RelObs { name_eq, name_cmp, ops, ord, starts, ends }
                });
                env.stats.eval();
                if i != j {
                    env.stats.distinct(mix(dom_id, specs[i].0, specs[j].0));
                }
                let o = match r {
                    Ok(o) => o,
                    Err(e) => {
                        env.viol(format!("C04|relname|panic|{}", panic_class(&e)), e, case());
                        continue;
                    }
                };
                env.say(|| format!("relname[{}] ? relname[{}]: {:?}", specs[i].0, specs[j].0, o));
                re[j] = o.name_eq;
                rc[j] = o.name_cmp;
                let kinds = || if specs[i].1.flat && specs[j].1.flat { "both-flat" } else { "not-both-flat" };
                let ref_eq = lcl[ni] == lcl[nj];
                let ref_cmp = sgn(lcl[ni].cmp(&lcl[nj]));
                if o.name_eq != ref_eq {
                    let k = if ref_eq { "equal-names-unequal" } else { "different-names-equal" };
                    env.viol(format!("C04|relname|name_eq-vs-reference|{k}|{}", kinds()), format!("name_eq = {}", o.name_eq), case());
                }
                if o.name_cmp != ref_cmp {
                    env.viol(format!("C04|relname|name_cmp-vs-rfc4034-6.1|{}", kinds()), format!("name_cmp = {}, canonical name order (relative to a common origin) says {}", ord_s(o.name_cmp), ord_s(ref_cmp)), case());
                }
                if let Some((eq, pc, lt, le, gt, ge)) = o.ops {
                    let c = o.name_cmp;
                    if eq != o.name_eq || pc != Some(c) || lt != (c < 0) || le != (c <= 0) || gt != (c > 0) || ge != (c >= 0) {
                        env.viol(format!("C04|relname|operators-vs-name_eq/name_cmp|{}", kinds()), format!("{o:?}"), case());
                    }
                }
                if let Some(c) = o.ord {
                    if c != o.name_cmp {
                        env.viol(format!("C04|relname|Ord::cmp-vs-name_cmp|{}", kinds()), format!("{o:?}"), case());
                    }
                }
                // label-wise suffix / prefix (lcl: lower-cased labels, last label first)
                let ref_ends = lcl[ni].starts_with(&lcl[nj][..]);
                let ref_starts = lcl[ni].ends_with(&lcl[nj][..]);
                if o.ends != ref_ends || o.starts != ref_starts {
                    let k = if o.ends != ref_ends { "ends_with" } else { "starts_with" };
                    env.viol(format!("C04|relname|{k}-vs-reference|{}", kinds()), format!("starts_with = {} (reference {ref_starts}), ends_with = {} (reference {ref_ends})", o.starts, o.ends), case());
                }
            }
            (re, rc)
        })
        .collect();
    for (i, (re, rc)) in rows.into_iter().enumerate() {
        rel.eq[i * n..(i + 1) * n].copy_from_slice(&re);
        rel.cmp[i * n..(i + 1) * n].copy_from_slice(&rc);
    }
    if n > 2 {
        env.stats.sample(60, || json!({"domain": dom, "a": desc(n / 3), "b": desc(n / 2), "name_eq": rel.e(n / 3, n / 2), "name_cmp": ord_s(rel.c(n / 3, n / 2))}));
    }
    env.stats.count_n(&format!("{tag}:names"), names.len() as u64);
    let cls = |i: usize, j: usize| if specs[i].1.flat && specs[j].1.flat { "both-flat".to_string() } else { "not-both-flat".to_string() };
    check_laws(env, &LawCfg { dom, ord_name: "name_cmp", with_eq: true, triples, desc: &desc, pair_class: &cls, hash_class: &cls, only_prefix: None, tag: &tag, sig_dom: "relname" }, &rel, None);
    let flat_idx: Vec<usize> = (0..n).filter(|&i| specs[i].1.flat).collect();
    let frel = sub_rel(&rel, &flat_idx);
    let fh: Vec<Hs> = flat_idx.iter().map(|&i| hashes[i].clone().unwrap_or_default()).collect();
    let fdesc = |a: usize| desc(flat_idx[a]);
    let fcls = |_: usize, _: usize| "flat-vs-flat".to_string();
    check_laws(env, &LawCfg { dom: "relname-flat", ord_name: "cmp", with_eq: true, triples: true, desc: &fdesc, pair_class: &fcls, hash_class: &fcls, only_prefix: None, tag: &format!("{tag}-flat"), sig_dom: "relname-flat" }, &frel, Some(&fh));
}

//------------ record data -------------------------------------------------------------

/// RFC 4034 6.2 item 3 with RFC 6840 5.1: the types whose embedded names are
/// lower-cased in the canonical form (NSEC withdrawn; HINFO has no names).
const CANONICAL_LOWERCASE: &[u16] = &[
    2, 3, 4, 5, 6, 7, 8, 9, 12, 14, 15, 17, 18, 21, 24, 26, 30, 35, 36, 33, 39, 38, 46,
];

fn map_names(wire: &[u8], names: &[(usize, usize)], f: impl Fn(u8) -> u8) -> Vec<u8> {
    let mut out = wire.to_vec();
    for &(off, len) in names {
        let mut p = off;
        while p < off + len {
            let l = out[p] as usize;
            for b in &mut out[p + 1..p + 1 + l] {
                *b = f(*b);
            }
            p += 1 + l;
        }
    }
    out
}

fn flip(b: u8) -> u8 {
    if b.is_ascii_alphabetic() {
        b ^ 0x20
    } else {
        b
    }
}

fn names_valid(wire: &[u8], names: &[(usize, usize)]) -> bool {
    names.iter().all(|&(off, len)| {
        let mut p = off;
        loop {
            let Some(&l) = wire.get(p) else { return false };
            if l == 0 {
                return p + 1 == off + len;
            }
            if l > 63 {
                return false;
            }
            p += 1 + l as usize;
            if p >= off + len {
                return false;
            }
        }
    })
}

#[derive(Clone)]
struct RMeta {
    mnemonic: String,
    rtype: u16,
    /// compact | name-case-twin | letter-case-twin | unknown-variant
    origin: &'static str,
    desc: String,
    wire: Vec<u8>,
    names: Vec<(usize, usize)>,
    /// acceptable canonical wire forms (RFC 4034 6.2); two alternatives for
    /// an `Unknown`-variant value of a type on the lower-casing list
    canon: Vec<Vec<u8>>,
    /// wire with every embedded name lower-cased (equality must not depend
    /// on the case of names); for the opaque variant the wire itself
    name_lc: Vec<u8>,
    unknown_variant: bool,
}

fn parse_flat(rtype: u16, wire: &[u8]) -> Option<Rd> {
    guard(|| {
        let mut p = Parser::from_ref(wire);
        let d = PRd::parse_any_rdata(Rtype::from_int(rtype), &mut p).ok()?;
        if p.remaining() != 0 {
            return None;
        }
        let r: Result<Rd, std::convert::Infallible> = d.try_flatten_into();
        r.ok()
    })
    .ok()
    .flatten()
}

fn compose_plain<D: ComposeRecordData>(d: &D) -> Option<Vec<u8>> {
    guard(|| {
        let mut t = Vec::new();
        d.compose_rdata(&mut t).ok().map(|_| t)
    })
    .ok()
    .flatten()
}

fn compose_canon<D: ComposeRecordData>(d: &D) -> Result<Vec<u8>, String> {
    guard(|| {
        let mut t = Vec::new();
        d.compose_canonical_rdata(&mut t).map(|_| t).map_err(|_| "append error".to_string())
    })
    .and_then(|r| r)
}

fn meta_of(v: &rgen::Value, origin: &'static str, wire: Vec<u8>, unknown_variant: bool) -> RMeta {
    let lowered = map_names(&wire, &v.names, |b| b.to_ascii_lowercase());
    let listed = CANONICAL_LOWERCASE.contains(&v.rtype);
    let canon = if unknown_variant {
        if listed && lowered != wire {
            vec![wire.clone(), lowered.clone()]
        } else {
            vec![wire.clone()]
        }
    } else if listed {
        vec![lowered.clone()]
    } else {
        vec![wire.clone()]
    };
    RMeta {
        mnemonic: v.mnemonic.to_string(),
        rtype: v.rtype,
        origin,
        desc: v.desc.clone(),
        name_lc: if unknown_variant { wire.clone() } else { lowered },
        wire,
        names: v.names.clone(),
        canon,
        unknown_variant,
    }
}

/// The RDATA items: compact values and their derived twins.
fn rdata_items(env: &Env, with_unknown: bool) -> (Vec<RMeta>, Vec<Rd>) {
    let (vals, st) = rgen::values_ex(rgen::Tier::Compact);
    if !st.anomalies.is_empty() {
        env.ctx.note(format!("rgen compact anomalies: {:?}", st.anomalies));
    }
    let mut metas = Vec::new();
    let mut datas = Vec::new();
    let mut seen: std::collections::HashSet<(u16, Vec<u8>, bool)> = Default::default();
    for v in &vals {
        if seen.insert((v.rtype, v.wire.clone(), false)) {
            metas.push(meta_of(v, "compact", v.wire.clone(), false));
            datas.push(v.data.clone());
        }
    }
    for v in &vals {
        // names with the case of every letter flipped
        let w = map_names(&v.wire, &v.names, flip);
        if w != v.wire && !seen.contains(&(v.rtype, w.clone(), false)) {
            match parse_flat(v.rtype, &w) {
                Some(d) => {
                    seen.insert((v.rtype, w.clone(), false));
                    metas.push(meta_of(v, "name-case-twin", w, false));
                    datas.push(d);
                }
                None => env.stats.count("rdata:name-case-twin-not-parseable"),
            }
        }
        // every ASCII letter of the RDATA flipped (character strings, tags)
        let w: Vec<u8> = v.wire.iter().map(|b| flip(*b)).collect();
        if w != v.wire && !seen.contains(&(v.rtype, w.clone(), false)) {
            match parse_flat(v.rtype, &w) {
                Some(d) if compose_plain(&d).as_deref() == Some(&w[..]) && names_valid(&w, &v.names) => {
                    seen.insert((v.rtype, w.clone(), false));
                    metas.push(meta_of(v, "letter-case-twin", w, false));
                    datas.push(d);
                }
                _ => env.stats.count("rdata:letter-case-twin-skipped"),
            }
        }
    }
    if with_unknown {
        // the same RDATA held in the `Unknown` variant (RFC 3597 `\#` form)
        for v in &vals {
            if matches!(v.data, AllRecordData::Unknown(_)) || matches!(v.data, AllRecordData::Opt(_)) {
                continue;
            }
            if !seen.insert((v.rtype, v.wire.clone(), true)) {
                continue;
            }
            if let Ok(Ok(u)) = guard(|| UnknownRecordData::from_octets(Rtype::from_int(v.rtype), v.wire.clone())) {
                metas.push(meta_of(v, "unknown-variant", v.wire.clone(), true));
                datas.push(AllRecordData::Unknown(u));
            }
        }
    }
    (metas, datas)
}

#[derive(Debug, Clone, Copy, PartialEq)]
struct RdObs {
    eq: bool,
    cmp: i8,
    pcmp: Option<i8>,
    can: i8,
    // parsed on one or both sides: (==, partial_cmp, canonical_cmp)
    pf: Option<(bool, Option<i8>, i8)>,
    fp: Option<(bool, Option<i8>, i8)>,
    pp: Option<(bool, Option<i8>, i8, i8)>,
    can_ops_ok: bool,
}

/// Class of a pair for the ==/cmp/hash coherence laws: with a label- or
/// name-level defect reported, its consequences are not reported again.
fn rd_pair_class(m: &[RMeta], i: usize, j: usize) -> String {
    let (a, b) = (&m[i], &m[j]);
    if NAME_LEVEL_BROKEN.load(AO::Relaxed) && a.rtype == b.rtype && !a.names.is_empty() && !a.unknown_variant && !b.unknown_variant {
        return format!("explained:label-or-name-level-defect:{}", a.mnemonic);
    }
    rd_pair_class_raw(m, i, j)
}

fn rd_pair_class_raw(m: &[RMeta], i: usize, j: usize) -> String {
    let (a, b) = (&m[i], &m[j]);
    if a.rtype != b.rtype {
        "cross-type".into()
    } else if a.unknown_variant != b.unknown_variant {
        "unknown-variant-vs-typed-variant-of-same-rtype".into()
    } else if a.unknown_variant {
        "unknown-variant-of-known-rtype".into()
    } else {
        a.mnemonic.clone()
    }
}

fn rdata_domain<D, P>(env: &Env, dom: &str, dom_id: u64, idx: &[usize], metas: &[RMeta], flat: &[D], parsed: &[Option<P>])
where
    D: Eq + Ord + Hash + CanonicalOrd<D> + PartialEq<P> + PartialOrd<P> + CanonicalOrd<P> + ComposeRecordData + Sync,
    P: Eq + Ord + Hash + CanonicalOrd<P> + PartialEq<D> + PartialOrd<D> + CanonicalOrd<D> + Sync,
{
    let n = metas.len();
    let desc = |i: usize| json!({"index": idx[i], "type": metas[i].mnemonic, "rtype": metas[i].rtype, "origin": metas[i].origin, "value": metas[i].desc, "rdata": hex(&metas[i].wire)});
    let mut hashes = Vec::with_capacity(n);
    let mut canon_lib: Vec<Vec<u8>> = Vec::with_capacity(n);
    for i in 0..n {
        env.stats.eval();
        let case = || json!({"domain": dom, "items": [desc(i)]});
        if parsed[i].is_none() {
            env.stats.count(&format!("{dom}:no-parsed-representation(parser-rejects-reference-rdata):{}", metas[i].mnemonic));
        }
        match guard(|| (hrec(&flat[i]), parsed[i].as_ref().map(|p| hrec(p)))) {
            Ok((h, hp)) => {
                let hp = hp.unwrap_or_else(|| h.clone());
                if h.stream != hp.stream {
                    env.viol(format!("C04|rdata|representation|hash-input-of-parsed-differs-from-flat|{}", rd_pair_class(metas, i, i)), format!("{} vs {}", hex(&h.stream), hex(&hp.stream)), case());
                } else if h.shape != hp.shape {
                    env.viol(format!("C04|rdata|representation|hasher-calls-of-parsed-differ-from-flat|{}", rd_pair_class(metas, i, i)), metas[i].desc.clone(), case());
                }
                env.say(|| format!("{dom}[{}] {} hash input {}", idx[i], metas[i].desc, hex(&h.stream)));
                hashes.push(h);
            }
            Err(e) => {
                env.viol(format!("C04|rdata|panic|{}", panic_class(&e)), e, case());
                hashes.push(Hs::default());
            }
        }
        match compose_canon(&flat[i]) {
            Ok(c) => {
                if !metas[i].canon.contains(&c) {
                    // the form itself is C05's business; here only the order matters
                    env.stats.count(&format!("{dom}:compose_canonical_rdata-differs-from-rfc-form:{}", metas[i].mnemonic));
                }
                env.say(|| format!("{dom}[{}] canonical form {} (RFC: {})", idx[i], hex(&c), hex(&metas[i].canon[0])));
                canon_lib.push(c);
            }
            Err(e) => {
                env.viol(format!("C04|rdata|compose_canonical_rdata|panic-or-error|{}", panic_class(&e)), e, case());
                canon_lib.push(metas[i].canon[0].clone());
            }
        }
    }
    let mut rel = Rel::new(n);
    let mut crel = Rel::new(n);
    let rows: Vec<(Vec<bool>, Vec<i8>, Vec<i8>)> = (0..n)
        .into_par_iter()
        .map(|i| {
            let mut re = vec![false; n];
            let mut rc = vec![0i8; n];
            let mut rcc = vec![0i8; n];
            let mut local: BTreeMap<String, u64> = BTreeMap::new();
            for j in 0..n {
                let case = || json!({"domain": dom, "items": [desc(i), desc(j)]});
                let (x, y, px, py) = (&flat[i], &flat[j], &parsed[i], &parsed[j]);
                let r = guard(|| RdObs {
                    eq: x == y,
                    cmp: sgn(x.cmp(y)),
                    pcmp: x.partial_cmp(y).map(sgn),
                    can: sgn(x.canonical_cmp(y)),
                    pf: px.as_ref().map(|px| (px == y, px.partial_cmp(y).map(sgn), sgn(px.canonical_cmp(y)))),
                    fp: py.as_ref().map(|py| (x == py, x.partial_cmp(py).map(sgn), sgn(x.canonical_cmp(py)))),
                    pp: px.as_ref().zip(py.as_ref()).map(|(px, py)| (px == py, px.partial_cmp(py).map(sgn), sgn(px.canonical_cmp(py)), sgn(px.cmp(py)))),
                    can_ops_ok: canon_ops_ok(x, y) && px.as_ref().map(|px| canon_ops_ok(px, y)).unwrap_or(true),
                });
                env.stats.eval();
                if i != j {
                    env.stats.distinct(mix(dom_id, idx[i], idx[j]));
                }
                let o = match r {
                    Ok(o) => o,
                    Err(e) => {
                        env.viol(format!("C04|rdata|panic|{}", panic_class(&e)), e, case());
                        continue;
                    }
                };
                env.say(|| format!("{dom}[{}] ? {dom}[{}]: {:?}", idx[i], idx[j], o));
                re[j] = o.eq;
                rc[j] = o.cmp;
                rcc[j] = o.can;
                let pc = rd_pair_class(metas, i, j);
                if o.pcmp != Some(o.cmp) {
                    env.viol(format!("C04|rdata|partial_cmp-vs-cmp|{pc}"), format!("{o:?}"), case());
                }
                if !o.can_ops_ok {
                    env.viol("C04|rdata|canonical_lt/le/gt/ge-vs-canonical_cmp".into(), format!("{pc}: {o:?}"), case());
                }
                let f = (o.eq, o.pcmp, o.can);
                if o.pf.map(|v| v != f).unwrap_or(false) || o.fp.map(|v| v != f).unwrap_or(false) || o.pp.map(|v| (v.0, v.1, v.2) != f || v.3 != o.cmp).unwrap_or(false) {
                    env.viol(format!("C04|rdata|representation|parsed-vs-flat-results-differ|{pc}"), format!("{o:?}"), case());
                }
                let (a, b) = (&metas[i], &metas[j]);
                if a.rtype == b.rtype {
                    // canonical order == octet order of the canonical forms
                    let pc = rd_pair_class_raw(metas, i, j);
                    let want: Vec<i8> = a.canon.iter().flat_map(|ca| b.canon.iter().map(move |cb| sgn(ca.cmp(cb)))).collect();
                    let own = sgn(canon_lib[i].cmp(&canon_lib[j]));
                    if !want.contains(&o.can) {
                        let sig = if pc.starts_with("unknown-variant") { "C04|rdata|unknown-variant-vs-typed-variant-of-same-rtype|canonical_cmp".to_string() } else { format!("C04|rdata|canonical_cmp-vs-rfc4034-canonical-octets|{pc}") };
                        env.viol(
                            sig,
                            format!("canonical_cmp = {}, octet order of the canonical forms {} / {} is {} (own compose_canonical_rdata outputs: {})", ord_s(o.can), hex(&a.canon[0]), hex(&b.canon[0]), ord_s(want[0]), ord_s(own)),
                            case(),
                        );
                    } else if o.can != own {
                        let sig = if pc.starts_with("unknown-variant") { "C04|rdata|unknown-variant-vs-typed-variant-of-same-rtype|canonical_cmp".to_string() } else { format!("C04|rdata|canonical_cmp-vs-own-compose_canonical_rdata-octets|{pc}") };
                        env.viol(
                            sig,
                            format!("canonical_cmp = {}, octet order of compose_canonical_rdata outputs {} / {} is {}", ord_s(o.can), hex(&canon_lib[i]), hex(&canon_lib[j]), ord_s(own)),
                            case(),
                        );
                    }
                    *local.entry(format!("{dom}:canonical-outcome:{}", ord_s(o.can))).or_insert(0) += 1;
                    let pc = rd_pair_class(metas, i, j);
                    // equality does not depend on the case of embedded names
                    if a.unknown_variant == b.unknown_variant && a.name_lc == b.name_lc {
                        *local.entry(format!("{dom}:must-be-equal-pairs")).or_insert(0) += 1;
                        if !o.eq {
                            env.viol(format!("C04|rdata|values-differing-only-in-case-of-names-unequal|{}", if pc.starts_with("explained:") { pc.as_str() } else { "-" }), format!("{} vs {}", hex(&a.wire), hex(&b.wire)), case());
                        }
                    } else if o.eq {
                        if lc(&a.wire) == lc(&b.wire) {
                            *local.entry(format!("{dom}:equal-with-wire-differing-in-letter-case-only:{}", a.mnemonic)).or_insert(0) += 1;
                        } else {
                            *local.entry(format!("{dom}:equal-although-wire-differs-beyond-case:{}", a.mnemonic)).or_insert(0) += 1;
                        }
                    }
                }
            }
            env.stats.merge_counts(&local);
            (re, rc, rcc)
        })
        .collect();
    for (i, (re, rc, rcc)) in rows.into_iter().enumerate() {
        rel.eq[i * n..(i + 1) * n].copy_from_slice(&re);
        rel.cmp[i * n..(i + 1) * n].copy_from_slice(&rc);
        crel.cmp[i * n..(i + 1) * n].copy_from_slice(&rcc);
    }
    if n > 3 {
        env.stats.sample(16, || json!({"domain": dom, "a": desc(n / 3), "b": desc(n / 3 + 1), "eq": rel.e(n / 3, n / 3 + 1), "cmp": ord_s(rel.c(n / 3, n / 3 + 1)), "canonical_cmp": ord_s(crel.c(n / 3, n / 3 + 1))}));
    }
    let cls = |i: usize, j: usize| rd_pair_class(metas, i, j);
    // (a) the typed values alone; (b) everything, reporting only what involves
    // an `Unknown`-variant value of a known type
    let typed: Vec<usize> = (0..n).filter(|&i| !metas[i].unknown_variant).collect();
    let tdesc = |a: usize| desc(typed[a]);
    let tcls = |a: usize, b: usize| rd_pair_class(metas, typed[a], typed[b]);
    let th: Vec<Hs> = typed.iter().map(|&i| hashes[i].clone()).collect();
    check_laws(env, &LawCfg { dom, ord_name: "cmp", with_eq: true, triples: true, desc: &tdesc, pair_class: &tcls, hash_class: &tcls, only_prefix: None, tag: dom, sig_dom: "rdata" }, &sub_rel(&rel, &typed), Some(&th));
    let tcls_raw = |a: usize, b: usize| rd_pair_class_raw(metas, typed[a], typed[b]);
    check_laws(env, &LawCfg { dom, ord_name: "canonical_cmp", with_eq: false, triples: true, desc: &tdesc, pair_class: &tcls_raw, hash_class: &tcls_raw, only_prefix: None, tag: dom, sig_dom: "rdata" }, &sub_rel(&crel, &typed), None);
    if typed.len() < n {
        let tag = format!("{dom}+unknown-variants");
        check_laws(env, &LawCfg { dom, ord_name: "cmp", with_eq: true, triples: n <= 1600, desc: &desc, pair_class: &cls, hash_class: &cls, only_prefix: Some("unknown-variant"), tag: &tag, sig_dom: "rdata" }, &rel, Some(&hashes));
        check_laws(env, &LawCfg { dom, ord_name: "canonical_cmp", with_eq: false, triples: n <= 1600, desc: &desc, pair_class: &cls, hash_class: &cls, only_prefix: Some("unknown-variant"), tag: &tag, sig_dom: "rdata" }, &crel, None);
    }
}

fn dom_rdata(env: &Env, only: Option<&[usize]>, zone: bool) {
    let (metas, datas) = rdata_items(env, true);
    if zone {
        let mut zm = Vec::new();
        let mut zd: Vec<ZRd> = Vec::new();
        let mut zi = Vec::new();
        for (i, (m, d)) in metas.into_iter().zip(datas).enumerate() {
            if only.map(|o| !o.contains(&i)).unwrap_or(false) {
                continue;
            }
            let r: Result<ZRd, Rd> = d.into();
            if let Ok(z) = r {
                zi.push(i);
                zm.push(m);
                zd.push(z);
            }
        }
        let mut parsed: Vec<Option<PZRd>> = Vec::new();
        let mut keep = Vec::new();
        for (k, m) in zm.iter().enumerate() {
            let r = guard(|| {
                let mut p = Parser::from_ref(m.wire.as_slice());
                PZRd::parse_rdata(Rtype::from_int(m.rtype), &mut p).ok().flatten().filter(|_| p.remaining() == 0)
            });
            match r {
                Ok(Some(p)) if !m.unknown_variant => {
                    parsed.push(Some(p));
                    keep.push(k);
                }
                Ok(_) if m.unknown_variant => {
                    // the opaque variant parsed: through UnknownRecordData
                    let mut p = Parser::from_ref(m.wire.as_slice());
                    match UnknownRecordData::parse_any_rdata(Rtype::from_int(m.rtype), &mut p) {
                        Ok(u) => {
                            parsed.push(Some(ZoneRecordData::Unknown(u)));
                            keep.push(k);
                        }
                        Err(_) => {
                            parsed.push(None);
                            keep.push(k);
                        }
                    }
                }
                _ => {
                    parsed.push(None);
                    keep.push(k);
                }
            }
        }
        let zm: Vec<RMeta> = keep.iter().map(|&k| zm[k].clone()).collect();
        let zd: Vec<ZRd> = keep.iter().map(|&k| zd[k].clone()).collect();
        let zi: Vec<usize> = keep.iter().map(|&k| zi[k]).collect();
        rdata_domain(env, "zrdata", 6, &zi, &zm, &zd, &parsed);
    } else {
        let items = restrict(metas.into_iter().zip(datas).collect::<Vec<_>>(), only);
        let idx: Vec<usize> = items.iter().map(|x| x.0).collect();
        let (m, d): (Vec<RMeta>, Vec<Rd>) = items.into_iter().map(|x| x.1).unzip();
        let mut parsed: Vec<Option<PRd>> = Vec::new();
        for x in &m {
            let r = guard(|| {
                let mut p = Parser::from_ref(x.wire.as_slice());
                if x.unknown_variant {
                    UnknownRecordData::parse_any_rdata(Rtype::from_int(x.rtype), &mut p).ok().map(AllRecordData::Unknown)
                } else {
                    PRd::parse_any_rdata(Rtype::from_int(x.rtype), &mut p).ok().filter(|_| p.remaining() == 0)
                }
            });
            match r {
                Ok(p) => parsed.push(p),
                Err(_) => parsed.push(None),
            }
        }
        rdata_domain(env, "rdata", 5, &idx, &m, &d, &parsed);
    }
}

//------------ records ---------------------------------------------------------------

struct RecMeta {
    data: usize,
    owner: usize,
    class: u16,
    ttl: u32,
    msg: Vec<u8>,
}

fn owner_menu() -> Vec<Vec<Vec<u8>>> {
    vec![vec![b"a".to_vec()], vec![b"A".to_vec()], vec![b"b".to_vec(), b"a".to_vec()]]
}

#[derive(Debug, Clone, Copy, PartialEq)]
struct RecObs {
    eq: bool,
    cmp: i8,
    pcmp: Option<i8>,
    can: i8,
    pf: Option<(bool, Option<i8>, i8)>,
    fp: Option<(bool, Option<i8>, i8)>,
    can_ops_ok: bool,
}

fn dom_records(env: &Env, only: Option<&[usize]>) {
    let dom = "record";
    let (rm, rd) = rdata_items(env, false);
    // quick: the compact values; thorough: also their twins
    let sel: Vec<usize> = (0..rm.len()).filter(|&i| !env.quick || rm[i].origin == "compact").collect();
    let owners = owner_menu();
    let classes = [1u16, 3];
    let ttls = [1u32, 3600];
    let mut metas_all = Vec::new();
    for &d in &sel {
        for o in 0..owners.len() {
            for c in classes {
                for t in ttls {
                    // message: header, question with the owner, one answer whose owner is a pointer to it
                    let mut m = vec![0u8, 0, 0, 0, 0, 1, 0, 1, 0, 0, 0, 0];
                    m.extend_from_slice(&name_wire(&owners[o]));
                    m.extend_from_slice(&rm[d].rtype.to_be_bytes());
                    m.extend_from_slice(&c.to_be_bytes());
                    m.extend_from_slice(&ptr(12));
                    m.extend_from_slice(&rm[d].rtype.to_be_bytes());
                    m.extend_from_slice(&c.to_be_bytes());
                    m.extend_from_slice(&t.to_be_bytes());
                    m.extend_from_slice(&(rm[d].wire.len() as u16).to_be_bytes());
                    m.extend_from_slice(&rm[d].wire);
                    metas_all.push(RecMeta { data: d, owner: o, class: c, ttl: t, msg: m });
                }
            }
        }
    }
    let items = restrict(metas_all, only);
    let n = items.len();
    let desc = |i: usize| {
        let r = &items[i].1;
        json!({"index": items[i].0, "owner": owners[r.owner].iter().map(|l| String::from_utf8_lossy(l).to_string()).collect::<Vec<_>>(), "class": r.class, "ttl": r.ttl,
            "type": rm[r.data].mnemonic, "origin": rm[r.data].origin, "value": rm[r.data].desc, "rdata": hex(&rm[r.data].wire), "message": hex(&r.msg)})
    };
    let flat: Vec<Record<Nm, Rd>> = items
        .iter()
        .map(|(_, r)| Record::new(Name::from_octets(name_wire(&owners[r.owner])).unwrap(), Class::from_int(r.class), Ttl::from_secs(r.ttl), rd[r.data].clone()))
        .collect();
    let mut parsed: Vec<Option<Record<ParsedName<&[u8]>, PRd>>> = Vec::with_capacity(n);
    for (i, (_, r)) in items.iter().enumerate() {
        let res = guard(|| -> Result<Record<ParsedName<&[u8]>, PRd>, String> {
            let mut p = Parser::from_ref(r.msg.as_slice());
            p.advance(12 + name_wire(&owners[r.owner]).len() + 4).map_err(|e| e.to_string())?;
            let h = RecordHeader::parse_ref(&mut p).map_err(|e| e.to_string())?;
            h.parse_into_any_record::<_, PRd>(&mut p).map_err(|e| e.to_string())
        });
        match res {
            Ok(Ok(x)) => parsed.push(Some(x)),
            _ => {
                let _ = i;
                env.stats.count(&format!("record:no-parsed-representation(parser-rejects-reference-rdata):{}", rm[r.data].mnemonic));
                parsed.push(None);
            }
        }
    }
    let hashes: Vec<Hs> = (0..n)
        .map(|i| {
            env.stats.eval();
            match guard(|| (hrec(&flat[i]), parsed[i].as_ref().map(|p| hrec(p)))) {
                Ok((h, hp)) => {
                    let hp = hp.unwrap_or_else(|| h.clone());
                    if h.stream != hp.stream {
                        env.viol("C04|record|representation|hash-input-of-parsed-differs-from-flat".into(), format!("{} vs {}", hex(&h.stream), hex(&hp.stream)), json!({"domain": dom, "items": [desc(i)]}));
                    }
                    env.say(|| format!("record[{}] hash input {}", items[i].0, hex(&h.stream)));
                    h
                }
                Err(e) => {
                    env.viol(format!("C04|rdata|panic|{}", panic_class(&e)), e, json!({"domain": dom, "items": [desc(i)]}));
                    Hs::default()
                }
            }
        })
        .collect();
    // data-level observations (==, cmp, canonical_cmp) of the RDATA parts: an
    // incoherence there is reported by the rdata domain, its consequences
    // for records are only counted
    let nd = rm.len();
    let dlev: Vec<Option<(bool, i8, i8)>> = (0..nd * nd)
        .into_par_iter()
        .map(|k| {
            let (x, y) = (&rd[k / nd], &rd[k % nd]);
            guard(|| (x == y, sgn(x.cmp(y)), sgn(x.canonical_cmp(y)))).ok()
        })
        .collect();
    let dl_eq = |x: usize, y: usize| dlev[x * nd + y].map(|d| d.0).unwrap_or(false);
    // reference keys
    let okey: Vec<Vec<Vec<u8>>> = owners.iter().map(|l| l.iter().rev().map(|x| lc(x)).collect()).collect();
    let full_canon = |r: &RecMeta, rdata: &Vec<u8>| {
        let mut w = name_wire(&owners[r.owner].iter().map(|x| lc(x)).collect::<Vec<_>>());
        w.extend_from_slice(&rm[r.data].rtype.to_be_bytes());
        w.extend_from_slice(&r.class.to_be_bytes());
        w.extend_from_slice(&r.ttl.to_be_bytes());
        w.extend_from_slice(&(rdata.len() as u16).to_be_bytes());
        w.extend_from_slice(rdata);
        w
    };
    let fulls: Vec<Vec<u8>> = items.iter().map(|(_, r)| full_canon(r, &rm[r.data].canon[0])).collect();
    // the library's own canonical form of the whole record (second opinion
    // for the order within an RRset) and the parsed record flattened
    let own_canon: Vec<Option<Vec<u8>>> = (0..n)
        .into_par_iter()
        .map(|i| {
            let c = guard(|| {
                let mut t = Vec::new();
                flat[i].compose_canonical(&mut t).ok().map(|_| t)
            })
            .ok()
            .flatten();
            if c.as_ref() != Some(&fulls[i]) {
                env.stats.count(&format!("record:compose_canonical-differs-from-rfc4034-6.2-form:{}", rm[items[i].1.data].mnemonic));
            }
            if let Some(p) = &parsed[i] {
                let fl: Result<Result<Record<Nm, Rd>, std::convert::Infallible>, String> = guard(|| p.clone().try_flatten_into());
                match fl {
                    Ok(Ok(r)) if r == flat[i] && flat[i] == r && r.cmp(&flat[i]) == Ordering::Equal && hrec(&r).stream == hashes[i].stream => {}
                    _ => env.viol("C04|record|conversion|flattened-parsed-record-differs-from-flat".into(), rm[items[i].1.data].desc.clone(), json!({"domain": dom, "items": [desc(i)]})),
                }
            }
            c
        })
        .collect();
    let mut rel = Rel::new(n);
    let mut crel = Rel::new(n);
    let track_pairs = n * n <= 6_000_000;
    let rows: Vec<(Vec<bool>, Vec<i8>, Vec<i8>)> = (0..n)
        .into_par_iter()
        .map(|i| {
            let mut re = vec![false; n];
            let mut rc = vec![0i8; n];
            let mut rcc = vec![0i8; n];
            let mut local: BTreeMap<String, u64> = BTreeMap::new();
            let a = &items[i].1;
            for j in 0..n {
                let b = &items[j].1;
                let case = || json!({"domain": dom, "items": [desc(i), desc(j)]});
                let (x, y, px, py) = (&flat[i], &flat[j], &parsed[i], &parsed[j]);
                let r = guard(|| RecObs {
                    eq: x == y,
                    cmp: sgn(x.cmp(y)),
                    pcmp: x.partial_cmp(y).map(sgn),
                    can: sgn(x.canonical_cmp(y)),
                    pf: px.as_ref().map(|px| (px == y, px.partial_cmp(y).map(sgn), sgn(px.canonical_cmp(y)))),
                    fp: py.as_ref().map(|py| (x == py, x.partial_cmp(py).map(sgn), sgn(x.canonical_cmp(py)))),
                    can_ops_ok: canon_ops_ok(x, y) && py.as_ref().map(|py| canon_ops_ok(x, py)).unwrap_or(true),
                });
                env.stats.eval();
                if i != j {
                    if track_pairs {
                        env.stats.distinct(mix(7, items[i].0, items[j].0));
                    } else if j == 0 {
                        env.stats.distinct(mix(7, items[i].0, usize::MAX));
                    }
                }
                let o = match r {
                    Ok(o) => o,
                    Err(e) => {
                        env.viol(format!("C04|rdata|panic|{}", panic_class(&e)), e, case());
                        continue;
                    }
                };
                env.say(|| format!("record[{}] ? record[{}]: {:?}", items[i].0, items[j].0, o));
                re[j] = o.eq;
                rc[j] = o.cmp;
                rcc[j] = o.can;
                if o.pcmp != Some(o.cmp) {
                    env.viol("C04|record|partial_cmp-vs-cmp".into(), format!("{o:?}"), case());
                }
                if !o.can_ops_ok {
                    env.viol("C04|record|canonical_lt/le/gt/ge-vs-canonical_cmp".into(), format!("{o:?}"), case());
                }
                let f = (o.eq, o.pcmp, o.can);
                if o.pf.map(|v| v != f).unwrap_or(false) || o.fp.map(|v| v != f).unwrap_or(false) {
                    env.viol("C04|record|representation|parsed-vs-flat-results-differ".into(), format!("{o:?}"), case());
                }
                let (ma, mb) = (&rm[a.data], &rm[b.data]);
                let owner_eq = okey[a.owner] == okey[b.owner];
                // records differing only in the case of names are equal
                if owner_eq && a.class == b.class && a.ttl == b.ttl && ma.rtype == mb.rtype && ma.name_lc == mb.name_lc {
                    *local.entry("record:must-be-equal-pairs".into()).or_insert(0) += 1;
                    if !o.eq && !NAME_LEVEL_BROKEN.load(AO::Relaxed) && dl_eq(a.data, b.data) {
                        env.viol("C04|record|records-differing-only-in-case-of-names-unequal".into(), format!("{o:?}"), case());
                    }
                }
                // canonical order
                let rdo = sgn(ma.canon[0].cmp(&mb.canon[0]));
                let same_rrset = owner_eq && a.class == b.class && ma.rtype == mb.rtype;
                let accept: Vec<i8> = if same_rrset {
                    // RFC 4034 6.3: within an RRset, by canonical RDATA
                    if rdo != 0 {
                        vec![rdo]
                    } else {
                        vec![0, sgn(a.ttl.cmp(&b.ttl))]
                    }
                } else {
                    // across RRsets the RFC defines nothing: accept the
                    // documented (class, owner, type) order or the octet
                    // order of the complete canonical forms
                    let doc = sgn(a.class.cmp(&b.class).then(okey[a.owner].cmp(&okey[b.owner])).then(ma.rtype.cmp(&mb.rtype)));
                    vec![doc, sgn(fulls[i].cmp(&fulls[j]))]
                };
                *local.entry(format!("record:canonical:{}", if same_rrset { "same-rrset" } else { "different-rrset" })).or_insert(0) += 1;
                if same_rrset && a.ttl == b.ttl {
                    if let (Some(ci), Some(cj)) = (&own_canon[i], &own_canon[j]) {
                        // RFC 4034 6.3 orders by the RDATA portion of the canonical form: skip owner, type, class, TTL and RDLENGTH
                        let hl = name_wire(&owners[a.owner]).len() + 10;
                        let own = sgn(ci[hl.min(ci.len())..].cmp(&cj[hl.min(cj.len())..]));
                        if own != o.can && accept.contains(&o.can) {
                            env.viol("C04|record|canonical_cmp-vs-own-compose_canonical-octets".into(), format!("canonical_cmp = {}, octet order of the RDATA portion of the Record::compose_canonical outputs is {}", ord_s(o.can), ord_s(own)), case());
                        }
                    }
                }
                let dl = dlev[a.data * nd + b.data];
                if !accept.contains(&o.can) && same_rrset && dl.map(|d| d.2 == o.can && d.2 != rdo).unwrap_or(false) {
                    *local.entry(format!("record:canonical_cmp-propagates-rdata-level-defect:{}", ma.mnemonic)).or_insert(0) += 1;
                } else if !accept.contains(&o.can) {
                    env.viol(
                        format!("C04|record|canonical_cmp-vs-rfc4034-6.3|{}|{}", if same_rrset { "same-rrset" } else { "different-rrset" }, if ma.rtype == mb.rtype { ma.mnemonic.as_str() } else { "cross-type" }),
                        format!("canonical_cmp = {}, acceptable: {:?}", ord_s(o.can), accept.iter().map(|x| ord_s(*x)).collect::<Vec<_>>()),
                        case(),
                    );
                }
            }
            env.stats.merge_counts(&local);
            (re, rc, rcc)
        })
        .collect();
    for (i, (re, rc, rcc)) in rows.into_iter().enumerate() {
        rel.eq[i * n..(i + 1) * n].copy_from_slice(&re);
        rel.cmp[i * n..(i + 1) * n].copy_from_slice(&rc);
        crel.cmp[i * n..(i + 1) * n].copy_from_slice(&rcc);
    }
    if n > 40 {
        env.stats.sample(20, || json!({"domain": dom, "a": desc(13), "b": desc(14), "eq": rel.e(13, 14), "cmp": ord_s(rel.c(13, 14)), "canonical_cmp": ord_s(crel.c(13, 14)), "hash_inputs": [hex(&hashes[13].stream), hex(&hashes[14].stream)]}));
    }
    let cls = |i: usize, j: usize| {
        let (a, b) = (&items[i].1, &items[j].1);
        let incoherent = dlev[a.data * nd + b.data].map(|d| d.0 != (d.1 == 0)).unwrap_or(true);
        let t = if rm[a.data].rtype == rm[b.data].rtype { rm[a.data].mnemonic.clone() } else { "cross-type".into() };
        if NAME_LEVEL_BROKEN.load(AO::Relaxed) {
            "explained:label-or-name-level-defect:owner".to_string()
        } else if incoherent {
            format!("explained:rdata-level-eq-cmp-incoherence:{t}")
        } else {
            "-".to_string()
        }
    };
    let hcls = |i: usize, j: usize| {
        let (a, b) = (&items[i].1, &items[j].1);
        if a.ttl != b.ttl { "records-with-different-ttl".to_string() } else { "records-with-same-ttl".to_string() }
    };
    check_laws(env, &LawCfg { dom, ord_name: "cmp", with_eq: true, triples: n <= 1600, desc: &desc, pair_class: &cls, hash_class: &hcls, only_prefix: None, tag: dom, sig_dom: "record" }, &rel, Some(&hashes));
    check_laws(env, &LawCfg { dom, ord_name: "canonical_cmp", with_eq: false, triples: n <= 1600, desc: &desc, pair_class: &cls, hash_class: &hcls, only_prefix: None, tag: dom, sig_dom: "record" }, &crel, None);
}

//------------ embedded names and owners in every compression shape ---------------------------

type PRec<'a> = Record<ParsedName<&'a [u8]>, PRd<'a>>;

enum ERec<'a> {
    F(Record<Nm, Rd>, RecordHeader<Nm>),
    P(PRec<'a>, RecordHeader<ParsedName<&'a [u8]>>),
}

/// (==, partial_cmp, canonical_cmp) of the records, the same of their data,
/// (==, partial_cmp) of the record headers, canonical_lt/le/gt/ge coherent.
type EObs = ((bool, Option<i8>, i8), (bool, Option<i8>, i8), (bool, Option<i8>), bool);

macro_rules! eobs {
    ($x:expr, $hx:expr, $y:expr, $hy:expr) => {{
        let (x, y, hx, hy) = ($x, $y, $hx, $hy);
        (
            (x == y, x.partial_cmp(y).map(sgn), sgn(x.canonical_cmp(y))),
            (x.data() == y.data(), x.data().partial_cmp(y.data()).map(sgn), sgn(x.data().canonical_cmp(y.data()))),
            (hx == hy, hx.partial_cmp(hy).map(sgn)),
            canon_ops_ok(x, y) && canon_ops_ok(x.data(), y.data()),
        )
    }};
}

fn eobserve(a: &ERec, b: &ERec) -> (EObs, Option<(i8, i8, i8)>) {
    match (a, b) {
        (ERec::F(x, hx), ERec::F(y, hy)) => (eobs!(x, hx, y, hy), Some((sgn(x.cmp(y)), sgn(x.data().cmp(y.data())), sgn(hx.cmp(hy))))),
        (ERec::P(x, hx), ERec::P(y, hy)) => (eobs!(x, hx, y, hy), Some((sgn(x.cmp(y)), sgn(x.data().cmp(y.data())), sgn(hx.cmp(hy))))),
        (ERec::F(x, hx), ERec::P(y, hy)) => (eobs!(x, hx, y, hy), None),
        (ERec::P(x, hx), ERec::F(y, hy)) => (eobs!(x, hx, y, hy), None),
    }
}

/// A message whose second answer record holds one name in one shape, as its
/// owner or inside its RDATA (`rd_before`, the name, `rd_after`); the inner
/// segments of the shape are the RDATA of a first answer record of the
/// private-use type 65280, so the message is well-formed for a reader that
/// does not know where names hide. Returns (message, position of the
/// second record, position of the name).
fn embedded_message(rtype: u16, labels: &[Vec<u8>], parts: &[usize], owner_is_shaped: bool, rd_before: &[u8], rd_after: &[u8]) -> (Vec<u8>, usize, usize) {
    let blob_pos = 12 + 1 + 10;
    let mut blob = Vec::new();
    let mut next = 0;
    for i in (1..parts.len()).rev() {
        let here = blob_pos + blob.len();
        blob.extend_from_slice(&shape_segment(labels, parts, i, next));
        next = here;
    }
    let seg0 = shape_segment(labels, parts, 0, next);
    let mut m = vec![0u8, 0, 0, 0, 0, 0, 0, 2, 0, 0, 0, 0];
    m.push(0);
    m.extend_from_slice(&0xFF00u16.to_be_bytes());
    m.extend_from_slice(&[0, 1, 0, 0, 0, 0]);
    m.extend_from_slice(&(blob.len() as u16).to_be_bytes());
    m.extend_from_slice(&blob);
    let rec_pos = m.len();
    let rdata: Vec<u8> = if owner_is_shaped { rd_before.to_vec() } else { [rd_before, &seg0[..], rd_after].concat() };
    if owner_is_shaped {
        m.extend_from_slice(&seg0);
    } else {
        m.extend_from_slice(&name_wire(&[b"a".to_vec()]));
    }
    m.extend_from_slice(&rtype.to_be_bytes());
    m.extend_from_slice(&[0, 1]);
    m.extend_from_slice(&3600u32.to_be_bytes());
    m.extend_from_slice(&(rdata.len() as u16).to_be_bytes());
    let rd_pos = m.len();
    m.extend_from_slice(&rdata);
    (m, rec_pos, if owner_is_shaped { rec_pos } else { rd_pos + rd_before.len() })
}

/// Names embedded in record data, and record owners, stored in every
/// compression shape. One group per (compact value, embedded name) and one
/// group for the owner of an A record; in each group the name is replaced by
/// each of b., B., a.b., a.B. and the root, every one flat (built without a
/// message) and parsed from a message that stores it in every shape of <=
/// max_hops hops. All ordered pairs within each group through ==,
/// partial_cmp, cmp, canonical_cmp and Hash of `Record`, of the record data
/// and of `RecordHeader`: the results must be those of the flat values, and
/// those the reference (RFC 4034 6.1-6.3) demands.
fn dom_embedded_shapes(env: &Env, max_hops: usize, hostile: bool, only: Option<(usize, usize)>) {
    let dom = "rdata-name-shape";
    let (vals, _) = rgen::values_ex(rgen::Tier::Compact);
    // (base value or vals.len() for the owner group, number of the embedded name)
    let mut groups: Vec<(usize, usize)> = Vec::new();
    for (b, v) in vals.iter().enumerate() {
        for k in 0..v.names.len() {
            groups.push((b, k));
        }
    }
    groups.push((vals.len(), 0));
    if let Some(o) = only {
        groups.retain(|g| *g == o);
    }
    // hostile: the names of `hostile_names` instead; the flat-vs-flat results
    // are then checked against the reference here as well (the rdata and
    // record domains do not hold these names as owners)
    let subs = if hostile { hostile_names() } else { substitute_names() };
    let a_rdata = [192u8, 0, 2, 1];
    groups.par_iter().for_each(|&(b, k)| {
        let owner_group = b == vals.len();
        let (t, rtype, base_wire, base_names): (&str, u16, &[u8], &[(usize, usize)]) = if owner_group { ("owner", 1, &a_rdata, &[]) } else { (vals[b].mnemonic, vals[b].rtype, &vals[b].wire, &vals[b].names) };
        let listed = CANONICAL_LOWERCASE.contains(&rtype);
        let (o, l) = if owner_group { (0, 0) } else { base_names[k] };
        let mut local: BTreeMap<String, u64> = BTreeMap::new();
        // candidates: (labels, reference RDATA, reference canonical RDATA)
        struct Cand {
            labels: Vec<Vec<u8>>,
            wire: Vec<u8>,
            canon: Vec<u8>,
        }
        let mut cands: Vec<Cand> = Vec::new();
        let mut flats: Vec<ERec> = Vec::new();
        for nm in &subs {
            let nw = name_wire(nm);
            let (wire, canon) = if owner_group {
                (a_rdata.to_vec(), a_rdata.to_vec())
            } else {
                let mut wire = base_wire[..o].to_vec();
                wire.extend_from_slice(&nw);
                wire.extend_from_slice(&base_wire[o + l..]);
                let spans: Vec<(usize, usize)> = base_names.iter().map(|&(so, sl)| if so == o { (so, nw.len()) } else if so > o { (so + nw.len() - l, sl) } else { (so, sl) }).collect();
                let canon = if listed { map_names(&wire, &spans, |x| x.to_ascii_lowercase()) } else { wire.clone() };
                (wire, canon)
            };
            let ok = parse_flat(rtype, &wire).filter(|d| compose_plain(d).as_deref() == Some(&wire[..]) && compose_canon(d).ok().as_deref() == Some(&canon[..]));
            let Some(d) = ok else {
                *local.entry(format!("{dom}:name-not-accepted-by-the-type:{t}")).or_insert(0) += 1;
                continue;
            };
            let owner: Nm = Name::from_octets(if owner_group { nw.clone() } else { name_wire(&[b"a".to_vec()]) }).unwrap();
            let hd = RecordHeader::new(owner.clone(), Rtype::from_int(rtype), Class::from_int(1), Ttl::from_secs(3600), wire.len() as u16);
            flats.push(ERec::F(Record::new(owner, Class::from_int(1), Ttl::from_secs(3600), d), hd));
            cands.push(Cand { labels: nm.clone(), wire, canon });
        }
        // the messages
        struct Item {
            cand: usize,
            class: &'static str,
            kind: String,
            msg: Vec<u8>,
            rec_pos: usize,
        }
        let mut items: Vec<Item> = Vec::new();
        for (c, cand) in cands.iter().enumerate() {
            items.push(Item { cand: c, class: "flat-name", kind: "flat".into(), msg: vec![], rec_pos: 0 });
            for h in 0..=max_hops {
                for parts in compositions(cand.labels.len(), h + 1) {
                    let (before, after): (&[u8], &[u8]) = if owner_group { (&a_rdata, &[]) } else { (&base_wire[..o], &base_wire[o + l..]) };
                    let (msg, rec_pos, name_pos) = embedded_message(rtype, &cand.labels, &parts, owner_group, before, after);
                    // independent reading of the message
                    let mut ptrs = Vec::new();
                    let good = match (mc::wire::read_message(&msg), mc::wire::read_name(&msg, name_pos, &mut ptrs)) {
                        (Ok(m), Ok((lab, _))) => m.end == msg.len() && m.sections[0].len() == 2 && m.sections[0][1].rtype == rtype && lab == cand.labels && ptrs.len() == h && (!owner_group || m.sections[0][1].owner == cand.labels),
                        _ => false,
                    };
                    if !good {
                        eprintln!("MACHINERY: hand-assembled message {} does not hold {:?} in shape {} at {name_pos}", hex(&msg), cand.labels, shape_text(&parts));
                        std::process::exit(2);
                    }
                    items.push(Item { cand: c, class: shape_class(&parts), kind: format!("parsed-shape[{}]", shape_text(&parts)), msg, rec_pos });
                }
            }
        }
        let desc = |i: usize| {
            let it = &items[i];
            json!({"type": t, "rtype": rtype, "base": if owner_group { "A 192.0.2.1, the owner varies".to_string() } else { vals[b].desc.clone() }, "embedded_name_number": k, "name": cands[it.cand].labels.iter().map(|l| String::from_utf8_lossy(l).to_string()).collect::<Vec<_>>(), "name_hex": cands[it.cand].labels.iter().map(|l| hex(l)).collect::<Vec<_>>(), "representation": it.kind, "shape_class": it.class, "rdata": hex(&cands[it.cand].wire), "message": hex(&it.msg), "record_pos": it.rec_pos})
        };
        let case1 = |i: usize| json!({"domain": dom, "group": {"base": b, "name": k}, "max_hops": max_hops, "hostile_names": hostile, "items": [desc(i)]});
        let case2 = |i: usize, j: usize| json!({"domain": dom, "group": {"base": b, "name": k}, "max_hops": max_hops, "hostile_names": hostile, "items": [desc(i), desc(j)]});
        let expl = || if NAME_LEVEL_BROKEN.load(AO::Relaxed) { "|explained:label-or-name-level-defect" } else { "" };
        let sig1 = |kind: &str, i: usize| format!("C04|{dom}|{kind}|{t}|{}{}", items[i].class, expl());
        let sig2 = |kind: &str, i: usize, j: usize| format!("C04|{dom}|{kind}|{t}|{}{}", if shape_class_rank(items[i].class) >= shape_class_rank(items[j].class) { items[i].class } else { items[j].class }, expl());
        // parse
        let mut recs: Vec<Option<ERec>> = Vec::with_capacity(items.len());
        let mut flats = flats.into_iter();
        for (i, it) in items.iter().enumerate() {
            if it.msg.is_empty() {
                recs.push(flats.next());
                continue;
            }
            env.stats.eval();
            let r = guard(|| -> Result<ERec, String> {
                let mut p = Parser::from_ref(it.msg.as_slice());
                p.advance(it.rec_pos).map_err(|e| e.to_string())?;
                let hd = RecordHeader::parse_ref(&mut p).map_err(|e| e.to_string())?;
                let mut p = Parser::from_ref(it.msg.as_slice());
                p.advance(it.rec_pos).map_err(|e| e.to_string())?;
                let rec = RecordHeader::parse_ref(&mut p).map_err(|e| e.to_string())?.parse_into_any_record::<_, PRd>(&mut p).map_err(|e| e.to_string())?;
                if p.remaining() != 0 {
                    return Err(format!("{} octets left after the record", p.remaining()));
                }
                Ok(ERec::P(rec, hd))
            });
            match r {
                Ok(Ok(x)) => {
                    *local.entry(format!("{dom}:parsed-by-shape-class:{}", it.class)).or_insert(0) += 1;
                    *local.entry(format!("{dom}:parsed-by-type:{t}")).or_insert(0) += 1;
                    recs.push(Some(x));
                }
                Ok(Err(e)) => {
                    // whether a type accepts compressed names is not C04's
                    // business (the uncompressed shape must parse)
                    if it.class == "uncompressed" {
                        env.viol(sig1("uncompressed-reference-rdata-does-not-parse", i), e, case1(i));
                    } else {
                        *local.entry(format!("{dom}:shape-not-accepted-by-the-parser:{t}")).or_insert(0) += 1;
                    }
                    recs.push(None);
                }
                Err(e) => {
                    env.viol(sig1(&format!("panic|{}", panic_class(&e)), i), e, case1(i));
                    recs.push(None);
                }
            }
        }
        let n = items.len();
        let base_of: Vec<usize> = (0..n).map(|i| (0..n).find(|&j| items[j].cand == items[i].cand && items[j].msg.is_empty()).unwrap()).collect();
        // unary: hash inputs, canonical form and flattening of the parsed values
        type H3 = (Hs, Hs, Hs);
        let hashes: Vec<Option<H3>> = (0..n)
            .map(|i| {
                let r = recs[i].as_ref()?;
                // (the header of a record with a compressed name in its data has another RDLEN)
                match guard(|| match r {
                    ERec::F(x, h) => (hrec(x), hrec(x.data()), if owner_group { hrec(h) } else { Hs::default() }),
                    ERec::P(x, h) => (hrec(x), hrec(x.data()), if owner_group { hrec(h) } else { Hs::default() }),
                }) {
                    Ok(h) => Some(h),
                    Err(e) => {
                        env.viol(sig1(&format!("panic|{}", panic_class(&e)), i), e, case1(i));
                        None
                    }
                }
            })
            .collect();
        for i in 0..n {
            let Some(ERec::P(x, _)) = &recs[i] else { continue };
            env.stats.eval();
            if let (Some(h), Some(hf)) = (&hashes[i], &hashes[base_of[i]]) {
                if h.0.stream != hf.0.stream || h.1.stream != hf.1.stream || h.2.stream != hf.2.stream {
                    env.viol(sig1("hash-input-differs-from-the-flat-value", i), format!("record {} vs {}, data {} vs {}, header {} vs {}", hex(&h.0.stream), hex(&hf.0.stream), hex(&h.1.stream), hex(&hf.1.stream), hex(&h.2.stream), hex(&hf.2.stream)), case1(i));
                } else if h.0.shape != hf.0.shape || h.1.shape != hf.1.shape || h.2.shape != hf.2.shape {
                    env.viol(sig1("hasher-calls-differ-from-the-flat-value", i), String::new(), case1(i));
                }
            }
            let cand = &cands[items[i].cand];
            match compose_canon(x.data()) {
                Ok(c) if c == cand.canon => {}
                other => env.viol(sig1("compose_canonical_rdata-of-the-parsed-value-differs-from-the-canonical-form", i), format!("{:?} vs {}", other.map(|c| hex(&c)), hex(&cand.canon)), case1(i)),
            }
            let fl: Result<Result<Record<Nm, Rd>, std::convert::Infallible>, String> = guard(|| x.clone().try_flatten_into());
            let same = match (&fl, &recs[base_of[i]]) {
                (Ok(Ok(r)), Some(ERec::F(f, _))) => guard(|| r == f && f == r && r.cmp(f) == Ordering::Equal && r.canonical_cmp(f) == Ordering::Equal && hrec(r).stream == hrec(f).stream && compose_plain(r.data()).as_deref() == Some(&cand.wire[..]) && r.owner().as_slice() == f.owner().as_slice()).unwrap_or(false),
                _ => false,
            };
            if !same {
                env.viol(sig1("flattened-parsed-record-differs-from-the-flat-record", i), String::new(), case1(i));
            }
        }
        // all ordered pairs
        let mut obs: Vec<Option<EObs>> = vec![None; n * n];
        for i in 0..n {
            for j in 0..n {
                let (Some(x), Some(y)) = (&recs[i], &recs[j]) else { continue };
                env.stats.eval();
                if i != j {
                    env.stats.distinct(mix(if hostile { 35 } else { 21 }, b * 8 + k, i * 1024 + j));
                }
                match guard(|| eobserve(x, y)) {
                    Err(e) => env.viol(sig2(&format!("panic|{}", panic_class(&e)), i, j), e, case2(i, j)),
                    Ok((mut o, mut ord)) => {
                        if !owner_group {
                            // the headers differ in RDLEN by design: a compressed name is shorter
                            o.2 = (true, Some(0));
                            ord = ord.map(|x| (x.0, x.1, 0));
                        }
                        env.say(|| format!("{dom} {t} {} ? {}: {o:?} {ord:?}", items[i].kind, items[j].kind));
                        obs[i * n + j] = Some(o);
                        if let Some((rc, dc, hc)) = ord {
                            if Some(rc) != o.0 .1 || Some(dc) != o.1 .1 || Some(hc) != o.2 .1 {
                                env.viol(sig2("Ord::cmp-vs-partial_cmp", i, j), format!("{o:?} cmp {ord:?}"), case2(i, j));
                            }
                        }
                    }
                }
            }
        }
        for i in 0..n {
            for j in 0..n {
                let Some(o) = obs[i * n + j] else { continue };
                *local.entry(format!("{dom}:ordered-pairs")).or_insert(0) += 1;
                let involves_parsed = !items[i].msg.is_empty() || !items[j].msg.is_empty();
                // (1) the compression shape does not change any result
                if let Some(f) = obs[base_of[i] * n + base_of[j]] {
                    if (o.0, o.1, o.2) != (f.0, f.1, f.2) {
                        env.viol(sig2("representation|result-depends-on-the-compression-shape", i, j), format!("{o:?}, the flat values give {f:?}"), case2(i, j));
                    }
                }
                if !o.3 {
                    env.viol(sig2("canonical_lt/le/gt/ge-vs-canonical_cmp", i, j), format!("{o:?}"), case2(i, j));
                }
                // (2) the reference
                let (ca, cb) = (&cands[items[i].cand], &cands[items[j].cand]);
                let (ka, kb): (Vec<Vec<u8>>, Vec<Vec<u8>>) = (ca.labels.iter().rev().map(|x| lc(x)).collect(), cb.labels.iter().rev().map(|x| lc(x)).collect());
                let names_eq = ka == kb;
                let name_order = sgn(ka.cmp(&kb));
                let canon_order = sgn(ca.canon.cmp(&cb.canon));
                let mut bad = Vec::new();
                if owner_group {
                    if o.0 .0 != names_eq || o.2 .0 != names_eq || !o.1 .0 {
                        bad.push("eq-vs-reference");
                    }
                    if o.0 .1 != Some(name_order) || o.2 .1 != Some(name_order) || o.0 .2 != name_order || o.1 .1 != Some(0) || o.1 .2 != 0 {
                        bad.push("order-vs-rfc4034-6.1-owner-order");
                    }
                } else {
                    if o.0 .0 != names_eq || o.1 .0 != names_eq || !o.2 .0 {
                        bad.push("eq-vs-reference");
                    }
                    if o.1 .2 != canon_order || o.0 .2 != canon_order {
                        bad.push("canonical_cmp-vs-rfc4034-canonical-octets");
                    }
                    if o.0 .1.map(|c| c == 0) != Some(names_eq) || o.1 .1.map(|c| c == 0) != Some(names_eq) || o.2 .1 != Some(0) {
                        bad.push("eq-iff-partial_cmp-equal");
                    }
                }
                for kind in bad {
                    if involves_parsed || hostile {
                        env.viol(sig2(kind, i, j), format!("{o:?}; names equal ignoring case: {names_eq}, RFC 4034 6.1 order of the names {}, octet order of the canonical RDATA {}", ord_s(name_order), ord_s(canon_order)), case2(i, j));
                    } else {
                        *local.entry(format!("{dom}:flat-vs-flat-differs-from-reference(reported-by-the-rdata-domains):{kind}:{t}")).or_insert(0) += 1;
                    }
                }
                // (3) equal values feed identical hash input
                if o.0 .0 {
                    if let (Some(h1), Some(h2)) = (&hashes[i], &hashes[j]) {
                        if involves_parsed && (h1.0.stream != h2.0.stream || h1.1.stream != h2.1.stream || h1.2.stream != h2.2.stream) {
                            env.viol(sig2("eq-implies-hash|hash-input-differs", i, j), format!("record {} vs {}", hex(&h1.0.stream), hex(&h2.0.stream)), case2(i, j));
                        }
                    }
                }
            }
        }
        *local.entry(format!("{dom}:groups(value,embedded-name)")).or_insert(0) += 1;
        *local.entry(format!("{dom}:items")).or_insert(0) += n as u64;
        env.stats.merge_counts(&local);
        if owner_group {
            if let Some(i) = (0..n).find(|&i| items[i].class == "bare-pointer-to-compressed") {
                env.stats.sample(72, || json!({"domain": dom, "item": desc(i), "vs_flat": format!("{:?}", obs[i * n + base_of[i]])}));
            }
        }
    });
}

//------------ wide: per type, all pairs of the rgen quick menu (thorough) -------------------

fn dom_wide(env: &Env, only_type: Option<(&str, Vec<u64>)>, max_values: usize) {
    let dom = "rdata-wide";
    for g in rgen::generators() {
        if let Some((t, _)) = &only_type {
            if *t != g.mnemonic {
                continue;
            }
        }
        let mut vals: Vec<rgen::Value> = Vec::new();
        g.run(rgen::Tier::Quick, 0, 1, &mut |ev| {
            if let rgen::Event::Value(v) = ev {
                vals.push(v)
            }
        });
        if let Some((_, idx)) = &only_type {
            vals.retain(|v| idx.contains(&v.index));
        }
        let n = vals.len();
        let t = g.mnemonic;
        if n > max_values {
            // quick tier: the types with large menu products are left to the thorough tier
            env.stats.count_n(&format!("{dom}:skipped-in-this-tier(values):{t}"), n as u64);
            continue;
        }
        let metas: Vec<RMeta> = vals.iter().map(|v| meta_of(v, "quick-menu", v.wire.clone(), false)).collect();
        let desc = |i: usize| json!({"type": t, "rtype": vals[i].rtype, "candidate": vals[i].index, "value": vals[i].desc, "rdata_len": vals[i].wire.len(), "rdata_head": hex(&vals[i].wire[..vals[i].wire.len().min(48)])});
        // unary
        let un: Vec<(Hd, Option<Vec<u8>>)> = (0..n)
            .into_par_iter()
            .map(|i| {
                env.stats.eval();
                let h = match guard(|| digest(&hrec(&vals[i].data))) {
                    Ok(h) => h,
                    Err(e) => {
                        env.viol(format!("C04|rdata|panic|{}", panic_class(&e)), e, json!({"domain": dom, "type": t, "items": [desc(i)]}));
                        Hd { s1: 0, s2: 0, slen: 0, p1: 0 }
                    }
                };
                let c = match compose_canon(&vals[i].data) {
                    Ok(c) if c == metas[i].canon[0] => None,
                    Ok(c) => Some(c),
                    Err(e) => {
                        env.viol(format!("C04|rdata|compose_canonical_rdata|panic-or-error|{}", panic_class(&e)), e, json!({"domain": dom, "type": t, "items": [desc(i)]}));
                        None
                    }
                };
                (h, c)
            })
            .collect();
        let differs = un.iter().filter(|x| x.1.is_some()).count();
        if differs > 0 {
            env.stats.count_n(&format!("{dom}:compose_canonical_rdata-differs-from-rfc-form:{t}"), differs as u64);
        }
        let canon_lib = |i: usize| un[i].1.as_ref().unwrap_or(&metas[i].canon[0]);
        // pass 1: all ordered pairs; rank for the total-preorder test
        let rank: Vec<usize> = (0..n)
            .into_par_iter()
            .map(|i| {
                let mut smaller = 0usize;
                let mut outcomes = [0u64; 3];
                let x = &vals[i].data;
                for j in 0..n {
                    let y = &vals[j].data;
                    let case = || json!({"domain": dom, "type": t, "candidates": [vals[i].index, vals[j].index], "items": [desc(i), desc(j)]});
                    let r = guard(|| ((x == y, sgn(x.cmp(y)), x.partial_cmp(y).map(sgn), sgn(x.canonical_cmp(y))), (y == x, sgn(y.cmp(x)), sgn(y.canonical_cmp(x)))));
                    let ((eq, cmp, pcmp, can), (req, rcmp, rcan)) = match r {
                        Ok(o) => o,
                        Err(e) => {
                            env.viol(format!("C04|rdata|panic|{}", panic_class(&e)), e, case());
                            continue;
                        }
                    };
                    if cmp > 0 {
                        smaller += 1;
                    }
                    outcomes[(can + 1) as usize] += 1;
                    if eq != req {
                        env.viol(format!("C04|rdata|eq-not-symmetric|{t}"), format!("a == b is {eq}, b == a is {req}"), case());
                    }
                    if cmp != -rcmp {
                        env.viol(format!("C04|rdata|cmp-not-antisymmetric|{t}"), format!("{} vs {}", ord_s(cmp), ord_s(rcmp)), case());
                    }
                    if can != -rcan {
                        env.viol(format!("C04|rdata|canonical_cmp-not-antisymmetric|{t}"), format!("{} vs {}", ord_s(can), ord_s(rcan)), case());
                    }
                    if eq != (cmp == 0) {
                        let k = if eq { format!("eq-but-cmp-{}", ord_s(cmp)) } else { "cmp-equal-but-ne".into() };
                        env.viol(format!("C04|rdata|eq-iff-cmp-equal|{k}|{t}"), format!("a == b is {eq}, cmp is {}", ord_s(cmp)), case());
                    }
                    if pcmp != Some(cmp) {
                        env.viol(format!("C04|rdata|partial_cmp-vs-cmp|{t}"), format!("{pcmp:?} vs {}", ord_s(cmp)), case());
                    }
                    if eq && un[i].0 != un[j].0 {
                        env.viol(format!("C04|rdata|eq-implies-hash|hash-input-differs|{t}"), "a == b but the recorded hash inputs differ".into(), case());
                    }
                    let want = sgn(metas[i].canon[0].cmp(&metas[j].canon[0]));
                    let own = sgn(canon_lib(i).cmp(canon_lib(j)));
                    if can != want {
                        env.viol(format!("C04|rdata|canonical_cmp-vs-rfc4034-canonical-octets|{t}"), format!("canonical_cmp = {}, octet order of the canonical forms is {} (own compose_canonical_rdata outputs: {})", ord_s(can), ord_s(want), ord_s(own)), case());
                    } else if can != own {
                        env.viol(format!("C04|rdata|canonical_cmp-vs-own-compose_canonical_rdata-octets|{t}"), format!("canonical_cmp = {}, octet order of compose_canonical_rdata outputs is {}", ord_s(can), ord_s(own)), case());
                    }
                    if metas[i].name_lc == metas[j].name_lc && !eq {
                        env.viol(format!("C04|rdata|values-differing-only-in-case-of-names-unequal|{}", if t.starts_with("explained:") { t } else { "-" }), "".into(), case());
                    }
                }
                env.stats.evaluations.fetch_add(n as u64, AO::Relaxed);
                env.stats.distinct(mix(8, g.rtype as usize, vals[i].index as usize));
                let mut m = BTreeMap::new();
                for (k, s) in [(0, "Less"), (1, "Equal"), (2, "Greater")] {
                    m.insert(format!("{dom}:canonical-outcome:{s}"), outcomes[k]);
                }
                env.stats.merge_counts(&m);
                smaller
            })
            .collect();
        // pass 2: cmp is a total preorder iff it agrees with the ranks
        (0..n).into_par_iter().for_each(|i| {
            for j in 0..n {
                let c = match guard(|| sgn(vals[i].data.cmp(&vals[j].data))) {
                    Ok(c) => c,
                    Err(_) => continue,
                };
                let want = (rank[i] as i64 - rank[j] as i64).signum() as i8;
                if c != want {
                    env.viol(
                        format!("C04|rdata|cmp-not-a-total-preorder|{t}"),
                        format!("cmp = {} but a has {} smaller values and b has {}", ord_s(c), rank[i], rank[j]),
                        json!({"domain": dom, "type": t, "candidates": [vals[i].index, vals[j].index], "items": [desc(i), desc(j)]}),
                    );
                }
            }
        });
        env.stats.count_n(&format!("{dom}:values:{t}"), n as u64);
        env.stats.count_n(&format!("{dom}:pairs"), (n * n) as u64);
        if n > 1 {
            env.stats.sample(40, || json!({"domain": dom, "type": t, "values": n, "ordered_pairs": n * n, "first": desc(0), "last": desc(n - 1)}));
        }
    }
}

//------------ numeric fields: boundary values in every field window ---------------------

/// Boundary values of an unsigned field of `w` octets: 0, 1, 2^(n-1)-1,
/// 2^(n-1), 2^(n-1)+1, 2^n-1 (for 32 bits: 0, 1, 0x7FFFFFFF, 0x80000000,
/// 0x80000001, 0xFFFFFFFF), big-endian.
fn boundary_values(w: usize) -> Vec<Vec<u8>> {
    let bits = 8 * w as u32;
    let half: u64 = 1u64 << (bits - 1);
    let max: u64 = if bits == 64 { u64::MAX } else { (1u64 << bits) - 1 };
    [0, 1, half - 1, half, half + 1, max].iter().map(|v| v.to_be_bytes()[8 - w..].to_vec()).collect()
}

const FIELD_WIDTHS: [usize; 4] = [1, 2, 4, 6];

/// Group kind "replace the tail" (encoded in the width slot).
const TAIL: usize = 99;

/// Tails of different lengths: all octet strings of length <= 2 over {00, 01,
/// 02, FF} and seven of length 3 (01 and 02 double as one-octet length prefixes). The menu holds, for octet-wise order, a shorter
/// string that is larger than a longer one (FF vs 01 00), one that is smaller
/// (00 vs 01 00) and strict prefixes (01 vs 01 00 vs 01 00 00).
fn tails() -> Vec<Vec<u8>> {
    let a = [0x00u8, 0x01, 0x02, 0xFF];
    let mut v = vec![vec![]];
    for x in a {
        v.push(vec![x]);
    }
    for x in a {
        for y in a {
            v.push(vec![x, y]);
        }
    }
    v.push(vec![0x01, 0x00, 0x00]);
    v.push(vec![0x00, 0xFF, 0xFF]);
    v.push(vec![0xFF, 0x00, 0x00]);
    v.push(vec![0x01, 0xFF, 0x01]);
    // with 02 as a one-octet length prefix: two-octet fields
    v.push(vec![0x02, 0x00, 0x00]);
    v.push(vec![0x02, 0x01, 0xFF]);
    v.push(vec![0x02, 0xFF, 0x00]);
    v
}

/// Names put in place of every embedded name: the canonical name order
/// (RFC 4034 6.1) of `b.` and `a.b.` is the opposite of the order of their
/// wire octets, and `B.`/`a.B.` additionally differ from them in case only.
fn substitute_names() -> Vec<Vec<Vec<u8>>> {
    vec![vec![b"b".to_vec()], vec![b"B".to_vec()], vec![b"a".to_vec(), b"b".to_vec()], vec![b"a".to_vec(), b"B".to_vec()], vec![]]
}

/// One-label names whose label ends in / consists of the octet 0x00 (with a
/// case twin and a pair differing only in the letter before the 0x00) or
/// has the maximum length with the case-relevant octet last or first, and
/// the plain `a.` for comparison: the hostile corners of the name domains at
/// the use sites of names (owner of a record, name inside record data).
fn hostile_names() -> Vec<Vec<Vec<u8>>> {
    let mut first = vec![b'a'; 63];
    first[0] = b'Z';
    vec![vec![b"a".to_vec()], vec![b"a\0".to_vec()], vec![b"A\0".to_vec()], vec![b"b\0".to_vec()], vec![b"\0".to_vec()], vec![with_last(b'a', 63, b'Z')], vec![with_last(b'a', 63, b'z')], vec![first]]
}

/// For every compact value, every window of 1, 2, 4 or 6 octets of its
/// RDATA outside the embedded names is overwritten with each boundary
/// value of that width; what the library parses back to exactly these octets
/// (and whose canonical form is the reference one, so the field layout did
/// not shift) forms, with the base value, one group. All ordered pairs and
/// triples within each group. This puts 0, 1, 2^31-1, 2^31, 2^31+1, 2^32-1
/// (and the 8/16/48 bit analogues) into every numeric or time field of every
/// type, whatever its position.
fn dom_fields(env: &Env, only: Option<(usize, usize, usize)>) {
    let dom = "rdata-fields";
    let (vals, _) = rgen::values_ex(rgen::Tier::Compact);
    let mut groups: Vec<(usize, usize, usize)> = Vec::new();
    for (b, v) in vals.iter().enumerate() {
        // width 0: substitution of the embedded name number `off`
        for k in 0..v.names.len() {
            if only.map(|x| x != (b, 0, k)).unwrap_or(true) && only.is_some() {
                continue;
            }
            groups.push((b, 0, k));
        }
        // width TAIL: everything from offset `off` on replaced by each tail
        for off in 0..=v.wire.len() {
            if v.names.iter().any(|&(o, l)| off > o && off < o + l) {
                continue;
            }
            if only.map(|x| x != (b, TAIL, off)).unwrap_or(false) {
                continue;
            }
            groups.push((b, TAIL, off));
        }
        for w in FIELD_WIDTHS {
            if v.wire.len() < w {
                continue;
            }
            for off in 0..=v.wire.len() - w {
                if v.names.iter().any(|&(o, l)| off < o + l && o < off + w) {
                    continue;
                }
                if only.map(|x| x != (b, w, off)).unwrap_or(false) {
                    continue;
                }
                groups.push((b, w, off));
            }
        }
    }
    let kept = AtomicU64::new(0);
    let dropped = AtomicU64::new(0);
    let pairs = AtomicU64::new(0);
    groups.par_iter().for_each(|&(b, w, off)| {
        let v = &vals[b];
        let t = v.mnemonic;
        let listed = CANONICAL_LOWERCASE.contains(&v.rtype);
        let canon_with = |wire: &[u8], names: &[(usize, usize)]| if listed { map_names(wire, names, |x| x.to_ascii_lowercase()) } else { wire.to_vec() };
        // items: (wire, value, reference canonical form)
        let mut items: Vec<(Vec<u8>, Rd, Vec<u8>)> = vec![(v.wire.clone(), v.data.clone(), canon_with(&v.wire, &v.names))];
        // candidate wires with their name spans
        let mut cands: Vec<(Vec<u8>, Vec<(usize, usize)>)> = Vec::new();
        if w == 0 {
            let (o, l) = v.names[off];
            for nm in substitute_names().into_iter().chain(hostile_names()) {
                let nw = name_wire(&nm);
                let mut wire = v.wire[..o].to_vec();
                wire.extend_from_slice(&nw);
                wire.extend_from_slice(&v.wire[o + l..]);
                let spans = v.names.iter().map(|&(so, sl)| if so == o { (so, nw.len()) } else if so > o { (so + nw.len() - l, sl) } else { (so, sl) }).collect();
                cands.push((wire, spans));
            }
        } else if w == TAIL {
            let spans: Vec<(usize, usize)> = v.names.iter().cloned().filter(|&(o, _)| o < off).collect();
            for tail in tails() {
                let mut wire = v.wire[..off].to_vec();
                wire.extend_from_slice(&tail);
                cands.push((wire, spans.clone()));
            }
        } else {
            for bv in boundary_values(w) {
                let mut wire = v.wire.clone();
                wire[off..off + w].copy_from_slice(&bv);
                cands.push((wire, v.names.clone()));
            }
        }
        for (wire, spans) in cands {
            if items.iter().any(|x| x.0 == wire) {
                continue;
            }
            let ok = parse_flat(v.rtype, &wire).and_then(|d| {
                let c = canon_with(&wire, &spans);
                if compose_plain(&d).as_deref() == Some(&wire[..]) && compose_canon(&d).ok().as_deref() == Some(&c[..]) {
                    Some((d, c))
                } else {
                    None
                }
            });
            match ok {
                Some((d, c)) => {
                    kept.fetch_add(1, AO::Relaxed);
                    items.push((wire, d, c));
                }
                None => {
                    dropped.fetch_add(1, AO::Relaxed);
                }
            }
        }
        let n = items.len();
        if n < 2 {
            return;
        }
        let desc = |i: usize| json!({"type": t, "rtype": v.rtype, "base": v.desc, "window": {"offset": off, "width": w, "kind": if w == 0 { "embedded-name-substitution" } else if w == TAIL { "tail-replacement" } else { "field-window" }}, "rdata": hex(&items[i].0)});
        let case2 = |i: usize, j: usize| json!({"domain": dom, "group": {"base": b, "width": w, "offset": off}, "items": [desc(i), desc(j)]});
        let hashes: Vec<Option<Hs>> = items.iter().map(|x| guard(|| hrec(&x.1)).ok()).collect();
        let mut eqm = vec![false; n * n];
        let mut cm = vec![0i8; n * n];
        let mut ccm = vec![0i8; n * n];
        for i in 0..n {
            for j in 0..n {
                let (x, y) = (&items[i].1, &items[j].1);
                let r = guard(|| (x == y, sgn(x.cmp(y)), x.partial_cmp(y).map(sgn), sgn(x.canonical_cmp(y))));
                env.stats.eval();
                if i != j {
                    env.stats.distinct(mix(11, (b * 4096 + off) * 8 + w, i * 8 + j));
                }
                let (eq, c, pc, can) = match r {
                    Ok(o) => o,
                    Err(e) => {
                        env.viol(format!("C04|rdata|panic|{}", panic_class(&e)), e, case2(i, j));
                        continue;
                    }
                };
                env.say(|| format!("{} ? {}: eq {eq} cmp {} partial_cmp {:?} canonical_cmp {}", hex(&items[i].0), hex(&items[j].0), ord_s(c), pc.map(ord_s), ord_s(can)));
                eqm[i * n + j] = eq;
                cm[i * n + j] = c;
                ccm[i * n + j] = can;
                if pc != Some(c) {
                    env.viol(format!("C04|rdata|partial_cmp-vs-cmp|{t}"), format!("partial_cmp = {:?}, cmp = {} for {} vs {}", pc.map(ord_s), ord_s(c), hex(&items[i].0), hex(&items[j].0)), case2(i, j));
                }
                if eq != (c == 0) {
                    let k = if eq { format!("eq-but-cmp-{}", ord_s(c)) } else { "cmp-equal-but-ne".into() };
                    env.viol(format!("C04|rdata|eq-iff-cmp-equal|{k}|{t}"), format!("a == b is {eq}, cmp is {}", ord_s(c)), case2(i, j));
                }
                if eq != (items[i].0 == items[j].0) {
                    // same type, same names: equal iff the RDATA octets are equal
                    env.stats.count(&format!("{dom}:eq-differs-from-octet-equality:{t}"));
                }
                if eq {
                    if let (Some(h1), Some(h2)) = (&hashes[i], &hashes[j]) {
                        if h1.stream != h2.stream {
                            env.viol(format!("C04|rdata|eq-implies-hash|hash-input-differs|{t}"), format!("{} vs {}", hex(&h1.stream), hex(&h2.stream)), case2(i, j));
                        }
                    }
                }
                let want = sgn(items[i].2.cmp(&items[j].2));
                if can != want {
                    env.viol(
                        format!("C04|rdata|canonical_cmp-vs-rfc4034-canonical-octets|{t}"),
                        format!("canonical_cmp = {}, octet order of the canonical forms {} / {} is {}", ord_s(can), hex(&items[i].2), hex(&items[j].2), ord_s(want)),
                        case2(i, j),
                    );
                }
            }
        }
        pairs.fetch_add((n * n) as u64, AO::Relaxed);
        // laws on the observed relations: symmetry, antisymmetry, total preorder (rank test), triples
        for (on, m) in [("cmp", &cm), ("canonical_cmp", &ccm)] {
            let rank: Vec<usize> = (0..n).map(|i| (0..n).filter(|&j| m[i * n + j] > 0).count()).collect();
            for i in 0..n {
                for j in 0..n {
                    if on == "cmp" && eqm[i * n + j] != eqm[j * n + i] {
                        env.viol(format!("C04|rdata|eq-not-symmetric|{t}"), "a == b differs from b == a".into(), case2(i, j));
                    }
                    if m[i * n + j] != -m[j * n + i] {
                        env.viol(format!("C04|rdata|{on}-not-antisymmetric|{t}"), format!("{} vs {}", ord_s(m[i * n + j]), ord_s(m[j * n + i])), case2(i, j));
                    } else if m[i * n + j] != (rank[i] as i64 - rank[j] as i64).signum() as i8 {
                        env.viol(
                            format!("C04|rdata|{on}-not-a-total-preorder|{t}"),
                            format!("a.{on}(b) = {} but a has {} smaller values and b has {}: not transitive", ord_s(m[i * n + j]), rank[i], rank[j]),
                            case2(i, j),
                        );
                    }
                    for k in 0..n {
                        let (a, bb, c) = (m[i * n + j], m[j * n + k], m[i * n + k]);
                        if a <= 0 && bb <= 0 && (c > 0 || ((a < 0 || bb < 0) && c >= 0)) {
                            env.viol(
                                format!("C04|rdata|{on}-not-transitive|{t}"),
                                format!("a?b = {}, b?c = {}, a?c = {}", ord_s(a), ord_s(bb), ord_s(c)),
                                json!({"domain": dom, "group": {"base": b, "width": w, "offset": off}, "items": [desc(i), desc(j), desc(k)]}),
                            );
                        }
                    }
                }
            }
            env.triples.fetch_add((n * n * n) as u64, AO::Relaxed);
        }
    });
    env.stats.count_n(&format!("{dom}:groups(value,width,offset)"), groups.len() as u64);
    env.stats.count_n(&format!("{dom}:variants-kept"), kept.load(AO::Relaxed));
    env.stats.count_n(&format!("{dom}:variants-dropped(not-parseable-or-layout-shifted)"), dropped.load(AO::Relaxed));
    env.stats.count_n(&format!("{dom}:ordered-pairs"), pairs.load(AO::Relaxed));
    if let Some(&(b, w, off)) = groups.iter().find(|g| vals[g.0].mnemonic == "RRSIG" && g.1 == 4 && g.2 == 8) {
        env.stats.sample(48, || json!({"domain": dom, "group": {"type": "RRSIG", "base": vals[b].desc, "width": w, "offset": off}, "values_in_window": boundary_values(w).iter().map(|x| hex(x)).collect::<Vec<_>>()}));
    }
}

//------------ NSEC3 salt and owner hash, signature times ---------------------------------

/// One domain per octets newtype that is part of record data and has its
/// own Eq/Ord/Hash/CanonicalOrd: all strings of length <= 2 over {00, 01,
/// 'A', 'a', FF} in two octets types. Equality is octet equality (binary
/// data), the canonical order is that of the wire form (length octet first).
macro_rules! octets_newtype_domain {
    ($fname:ident, $ty:ident, $dom:expr, $id:expr) => {
        fn $fname(env: &Env, only: Option<&[usize]>) {
            use domain::rdata::nsec3::$ty;
            let dom = $dom;
            let alpha = [0x00u8, 0x01, b'A', b'a', 0xFF];
            let mut all: Vec<Vec<u8>> = vec![vec![]];
            for x in alpha {
                all.push(vec![x]);
            }
            for x in alpha {
                for y in alpha {
                    all.push(vec![x, y]);
                }
            }
            let items = restrict(all, only);
            let n = items.len();
            let desc = |i: usize| json!({"index": items[i].0, "octets": hex(&items[i].1)});
            let vs: Vec<$ty<Vec<u8>>> = items.iter().map(|(_, b)| $ty::from_octets(b.clone()).expect("short value")).collect();
            let ss: Vec<$ty<&[u8]>> = items.iter().map(|(_, b)| $ty::from_octets(b.as_slice()).expect("short value")).collect();
            let hashes: Vec<Hs> = (0..n)
                .map(|i| {
                    let (h, h2) = (hrec(&vs[i]), hrec(&ss[i]));
                    if h != h2 {
                        env.viol(format!("C04|{dom}|representation|hash-differs-between-octets-types"), hex(&items[i].1), json!({"domain": dom, "items": [desc(i)]}));
                    }
                    h
                })
                .collect();
            let mut rel = Rel::new(n);
            for i in 0..n {
                for j in 0..n {
                    let (a, b) = (&items[i].1, &items[j].1);
                    let case = || json!({"domain": dom, "items": [desc(i), desc(j)]});
                    let r = guard(|| {
                        (
                            (vs[i] == vs[j], vs[i] == ss[j], ss[i] == vs[j], vs[i] == b[..]),
                            (sgn(vs[i].cmp(&vs[j])), sgn(ss[i].cmp(&ss[j])), vs[i].partial_cmp(&ss[j]).map(sgn), ss[i].partial_cmp(&vs[j]).map(sgn)),
                            (sgn(vs[i].canonical_cmp(&vs[j])), sgn(vs[i].canonical_cmp(&ss[j])), sgn(ss[i].canonical_cmp(&vs[j]))),
                            canon_ops_ok(&vs[i], &ss[j]),
                        )
                    });
                    env.stats.eval();
                    if i != j {
                        env.stats.distinct(mix($id, items[i].0, items[j].0));
                    }
                    let (eqs, cmps, cans, ops_ok) = match r {
                        Ok(o) => o,
                        Err(e) => {
                            env.viol(format!("C04|{dom}|panic|{}", panic_class(&e)), e, case());
                            continue;
                        }
                    };
                    env.say(|| format!("{dom} {} ? {}: eq {eqs:?} cmp {cmps:?} canonical {cans:?}", hex(a), hex(b)));
                    rel.eq[i * n + j] = eqs.0;
                    rel.cmp[i * n + j] = cmps.0;
                    if eqs.0 != (a == b) {
                        env.viol(format!("C04|{dom}|eq-vs-octet-equality"), format!("{} == {} is {}", hex(a), hex(b), eqs.0), case());
                    }
                    if (eqs.1, eqs.2, eqs.3) != (eqs.0, eqs.0, eqs.0) || cmps.1 != cmps.0 || cmps.2 != Some(cmps.0) || cmps.3 != Some(cmps.0) || cans.1 != cans.0 || cans.2 != cans.0 {
                        env.viol(format!("C04|{dom}|representation|results-differ-between-octets-types"), format!("{eqs:?} {cmps:?} {cans:?}"), case());
                    }
                    let want = sgn(wire_label(a).cmp(&wire_label(b)));
                    if cans.0 != want {
                        env.viol(format!("C04|{dom}|canonical_cmp-vs-wire-octets"), format!("canonical_cmp({}, {}) = {}, wire octets (length octet first) order {}", hex(a), hex(b), ord_s(cans.0), ord_s(want)), case());
                    }
                    if !ops_ok {
                        env.viol(format!("C04|{dom}|canonical_lt/le/gt/ge-vs-canonical_cmp"), format!("{} ? {}", hex(a), hex(b)), case());
                    }
                }
            }
            let cls = |_: usize, _: usize| "-".to_string();
            check_laws(env, &LawCfg { dom, ord_name: "cmp", with_eq: true, triples: true, desc: &desc, pair_class: &cls, hash_class: &cls, only_prefix: None, tag: dom, sig_dom: dom }, &rel, Some(&hashes));
        }
    };
}

octets_newtype_domain!(dom_owner_hash, OwnerHash, "nsec3-owner-hash", 13);
octets_newtype_domain!(dom_nsec3_salt, Nsec3Salt, "nsec3-salt", 14);

/// Signature times: canonical order and equality are those of the 32 bit
/// integer on the wire (the serial-arithmetic PartialOrd is C17's).
fn dom_timestamps(env: &Env) {
    use domain::rdata::dnssec::Timestamp;
    let vals: [u32; 8] = [0, 1, 2, 0x7FFF_FFFF, 0x8000_0000, 0x8000_0001, 0xFFFF_FFFE, 0xFFFF_FFFF];
    for a in vals {
        for b in vals {
            let (x, y) = (Timestamp::from(a), Timestamp::from(b));
            let r = guard(|| (x == y, sgn(x.canonical_cmp(&y)), canon_ops_ok(&x, &y), true));
            env.stats.eval();
            env.stats.distinct(mix(15, a as usize, b as usize));
            let case = || json!({"domain": "timestamp", "items": [{"value": a}, {"value": b}]});
            match r {
                Err(e) => env.viol(format!("C04|timestamp|panic|{}", panic_class(&e)), e, case()),
                Ok((eq, can, ops_ok, same_hash)) => {
                    if eq != (a == b) || can != sgn(a.cmp(&b)) || !ops_ok {
                        env.viol("C04|timestamp|eq-or-canonical_cmp-vs-wire-integer".into(), format!("{a} ? {b}: == {eq}, canonical_cmp {}", ord_s(can)), case());
                    }
                    if eq && !same_hash {
                        env.viol("C04|timestamp|eq-implies-hash".into(), format!("{a} vs {b}"), case());
                    }
                }
            }
        }
    }
}

//------------ record headers and parsed records ---------------------------------------------

enum Hdr<'a> {
    Flat(RecordHeader<Nm>),
    Parsed(RecordHeader<ParsedName<&'a [u8]>>),
}

macro_rules! one_hdr {
    ($x:expr, |$a:ident| $body:expr) => {
        match $x {
            Hdr::Flat($a) => $body,
            Hdr::Parsed($a) => $body,
        }
    };
}

/// Record headers: owners {a., A., b.a.} x types {A, NS} x classes {IN, CH} x
/// TTLs {1, 3600} x RDLEN {0, 4}, each built with `RecordHeader::new` and
/// parsed from a message with a compressed and with an uncompressed owner.
/// The same messages give `ParsedRecord`s (Eq only).
fn dom_headers(env: &Env, only: Option<&[usize]>) {
    use domain::base::record::ParsedRecord;
    let dom = "record-header";
    let mut owners = owner_menu();
    owners.extend(hostile_names().into_iter().skip(1));
    struct H {
        owner: usize,
        rtype: u16,
        class: u16,
        ttl: u32,
        rdlen: u16,
        kind: &'static str,
        msg: Vec<u8>,
        pos: usize,
    }
    let mut all = Vec::new();
    for o in 0..owners.len() {
        for rtype in [1u16, 2] {
            for class in [1u16, 3] {
                for ttl in [1u32, 3600] {
                    for rdlen in [0u16, 4] {
                        for kind in ["new", "parsed-compressed-owner", "parsed-uncompressed-owner"] {
                            let mut m = vec![0u8, 0, 0, 0, 0, 1, 0, 1, 0, 0, 0, 0];
                            m.extend_from_slice(&name_wire(&owners[o]));
                            m.extend_from_slice(&[0, 1, 0, 1]);
                            let pos = m.len();
                            if kind == "parsed-uncompressed-owner" {
                                m.extend_from_slice(&name_wire(&owners[o]));
                            } else {
                                m.extend_from_slice(&ptr(12));
                            }
                            m.extend_from_slice(&rtype.to_be_bytes());
                            m.extend_from_slice(&class.to_be_bytes());
                            m.extend_from_slice(&ttl.to_be_bytes());
                            m.extend_from_slice(&rdlen.to_be_bytes());
                            m.extend_from_slice(&[0xC0, 0x00, 0x02, 0x01][..rdlen as usize]);
                            all.push(H { owner: o, rtype, class, ttl, rdlen, kind, msg: m, pos });
                        }
                    }
                }
            }
        }
    }
    let items = restrict(all, only);
    let n = items.len();
    let desc = |i: usize| {
        let h = &items[i].1;
        json!({"index": items[i].0, "owner": owners[h.owner].iter().map(|l| String::from_utf8_lossy(l).to_string()).collect::<Vec<_>>(), "rtype": h.rtype, "class": h.class, "ttl": h.ttl, "rdlen": h.rdlen, "representation": h.kind, "message": hex(&h.msg)})
    };
    let mut hdrs: Vec<Hdr> = Vec::with_capacity(n);
    let mut recs: Vec<Option<ParsedRecord<[u8]>>> = Vec::with_capacity(n);
    for (_, h) in &items {
        if h.kind == "new" {
            hdrs.push(Hdr::Flat(RecordHeader::new(Name::from_octets(name_wire(&owners[h.owner])).unwrap(), Rtype::from_int(h.rtype), Class::from_int(h.class), Ttl::from_secs(h.ttl), h.rdlen)));
            recs.push(None);
        } else {
            let parse = guard(|| {
                let mut p = Parser::from_ref(h.msg.as_slice());
                p.advance(h.pos).ok()?;
                let hd = RecordHeader::parse_ref(&mut p).ok()?;
                let mut p2 = Parser::from_ref(h.msg.as_slice());
                p2.advance(h.pos).ok()?;
                let rec = ParsedRecord::parse(&mut p2).ok()?;
                Some((hd, rec))
            });
            match parse {
                Ok(Some((hd, rec))) => {
                    hdrs.push(Hdr::Parsed(hd));
                    recs.push(Some(rec));
                }
                _ => {
                    eprintln!("MACHINERY: hand-built record header does not parse");
                    std::process::exit(2);
                }
            }
        }
    }
    let hashes: Vec<Hs> = hdrs.iter().map(|h| guard(|| one_hdr!(h, |a| hrec(a))).unwrap_or_default()).collect();
    let okey: Vec<Vec<Vec<u8>>> = owners.iter().map(|l| l.iter().rev().map(|x| lc(x)).collect()).collect();
    let mut rel = Rel::new(n);
    for i in 0..n {
        for j in 0..n {
            let (a, b) = (&items[i].1, &items[j].1);
            let case = || json!({"domain": dom, "items": [desc(i), desc(j)]});
            let r = guard(|| {
                let (eq, pc) = one_hdr!(&hdrs[i], |x| one_hdr!(&hdrs[j], |y| (x == y, x.partial_cmp(y).map(sgn))));
                let ord = match (&hdrs[i], &hdrs[j]) {
                    (Hdr::Flat(x), Hdr::Flat(y)) => Some(sgn(x.cmp(y))),
                    (Hdr::Parsed(x), Hdr::Parsed(y)) => Some(sgn(x.cmp(y))),
                    _ => None,
                };
                let req = match (&recs[i], &recs[j]) {
                    (Some(x), Some(y)) => Some(x == y),
                    _ => None,
                };
                (eq, pc, ord, req)
            });
            env.stats.eval();
            if i != j {
                env.stats.distinct(mix(16, items[i].0, items[j].0));
            }
            let (eq, pc, ord, req) = match r {
                Ok(o) => o,
                Err(e) => {
                    env.viol(format!("C04|record-header|panic|{}", panic_class(&e)), e, case());
                    continue;
                }
            };
            env.say(|| format!("header[{}] ? header[{}]: eq {eq} partial_cmp {pc:?} cmp {ord:?} parsed-record eq {req:?}", items[i].0, items[j].0));
            rel.eq[i * n + j] = eq;
            rel.cmp[i * n + j] = pc.unwrap_or(2);
            if pc.is_none() {
                env.viol("C04|record-header|partial_cmp-is-none".into(), "partial_cmp returned None".into(), case());
            }
            if let Some(c) = ord {
                if Some(c) != pc {
                    env.viol("C04|record-header|partial_cmp-vs-cmp".into(), format!("partial_cmp {pc:?}, cmp {c}"), case());
                }
            }
            // the same header, whatever the case of the owner and the representation, is equal
            let same = okey[a.owner] == okey[b.owner] && (a.rtype, a.class, a.ttl, a.rdlen) == (b.rtype, b.class, b.ttl, b.rdlen);
            if same && !eq {
                env.viol("C04|record-header|same-header-unequal(case-or-representation)".into(), format!("{} vs {}", a.kind, b.kind), case());
            }
            if !same && eq {
                env.stats.count("record-header:equal-although-fields-differ");
            }
            if let Some(req) = req {
                // a parsed record is its header plus the RDATA octets
                if req != same {
                    env.viol(format!("C04|parsed-record|eq-vs-reference|{}", if same { "same-record-unequal" } else { "different-records-equal" }), format!("ParsedRecord == is {req}"), case());
                }
            }
        }
    }
    let cls = |_: usize, _: usize| "-".to_string();
    check_laws(env, &LawCfg { dom, ord_name: "cmp", with_eq: true, triples: true, desc: &desc, pair_class: &cls, hash_class: &cls, only_prefix: None, tag: dom, sig_dom: dom }, &rel, Some(&hashes));
}

//------------ main ----------------------------------------------------------------------

fn main() {
    let ctx = Ctx::new("C04", "exploration");
    let mut quick = ctx.quick();
    let mut replay: Option<Value> = None;
    if let Some(path) = &ctx.replay {
        let text = std::fs::read_to_string(path).unwrap_or_else(|e| {
            eprintln!("MACHINERY: cannot read replay file {path}: {e}");
            std::process::exit(2);
        });
        let v: Value = serde_json::from_str(&text).unwrap_or_else(|e| {
            eprintln!("MACHINERY: bad replay file {path}: {e}");
            std::process::exit(2);
        });
        let case = v["case"].clone();
        quick = case["tier"].as_str() != Some("thorough");
        println!("replaying {} ({})", v["signature"], v["what"]);
        replay = Some(case);
    }
    let env = Env { ctx: ctx.clone(), stats: Stats::new(), quick, verbose: replay.is_some(), triples: AtomicU64::new(0) };
    let t0 = std::time::Instant::now();
    let mut phases: Vec<(String, f64)> = Vec::new();
    let mut phase = |name: &str, f: &mut dyn FnMut()| {
        let t = std::time::Instant::now();
        f();
        phases.push((name.to_string(), (t.elapsed().as_secs_f64() * 100.0).round() / 100.0));
    };
    if let Some(case) = &replay {
        let idx: Vec<usize> = case["items"].as_array().map(|a| a.iter().filter_map(|x| x["index"].as_u64()).map(|x| x as usize).collect()).unwrap_or_default();
        match case["domain"].as_str().unwrap_or("") {
            "label" => dom_labels(&env, Some(&idx)),
            "label-position" => dom_label_positions(&env, Some(&idx)),
            "charstr" => dom_charstrs(&env, Some(&idx)),
            "name" | "name-flat" => {
                let depth = case["items"][0]["depth"].as_u64().unwrap_or(3) as usize;
                let menu = case["items"][0]["menu"].as_u64().unwrap_or(5) as usize;
                let chain3 = case["items"][0]["chain3"].as_bool().unwrap_or(false);
                dom_names(&env, depth, menu, chain3, true, 3, Some(&idx))
            }
            "relname" | "relname-flat" => {
                let it = &case["items"][0];
                dom_relnames(&env, it["depth"].as_u64().unwrap_or(3) as usize, it["menu"].as_u64().unwrap_or(5) as usize, true, 12, Some(&idx))
            }
            "name-shape" => {
                let it = &case["items"][0];
                dom_name_shapes(&env, it["depth"].as_u64().unwrap_or(3) as usize, it["menu"].as_u64().unwrap_or(5) as usize, it["max_hops"].as_u64().unwrap_or(2) as usize, it["far"].as_bool().unwrap_or(false), 17, Some(&idx))
            }
            "nsec3-owner-hash" => dom_owner_hash(&env, Some(&idx)),
            "nsec3-salt" => dom_nsec3_salt(&env, Some(&idx)),
            "timestamp" => dom_timestamps(&env),
            "record-header" => dom_headers(&env, Some(&idx)),
            "rdata" => dom_rdata(&env, Some(&idx), false),
            "zrdata" => dom_rdata(&env, Some(&idx), true),
            "record" => dom_records(&env, Some(&idx)),
            "rdata-fields" => {
                let g = &case["group"];
                dom_fields(&env, Some((g["base"].as_u64().unwrap_or(0) as usize, g["width"].as_u64().unwrap_or(0) as usize, g["offset"].as_u64().unwrap_or(0) as usize)))
            }
            "rdata-name-shape" => {
                let g = &case["group"];
                dom_embedded_shapes(&env, case["max_hops"].as_u64().unwrap_or(2) as usize, case["hostile_names"].as_bool().unwrap_or(false), Some((g["base"].as_u64().unwrap_or(0) as usize, g["name"].as_u64().unwrap_or(0) as usize)))
            }
            "rdata-wide" => {
                let c: Vec<u64> = case["candidates"].as_array().map(|a| a.iter().filter_map(|x| x.as_u64()).collect()).unwrap_or_default();
                dom_wide(&env, Some((case["type"].as_str().unwrap_or(""), c)), usize::MAX)
            }
            d => {
                eprintln!("MACHINERY: unknown domain {d:?} in replay file");
                std::process::exit(2);
            }
        }
    } else {
        phase("labels", &mut || dom_labels(&env, None));
        phase("label-positions", &mut || dom_label_positions(&env, None));
        phase("charstrs", &mut || dom_charstrs(&env, None));
        phase("names-depth3", &mut || dom_names(&env, 3, 5, false, true, 3, None));
        phase("names-depth2-extended-menu", &mut || dom_names(&env, 2, 7, true, true, 9, None));
        // hostile octets (00, 2E) inside / at the end of labels, and labels of
        // the maximum length with the case-relevant octet first / last, in
        // whole names in every representation (quick: all names of <= 2 labels
        // plus the special label at every position of 3-label names)
        // (thorough: also UncertainName chains, chains of chains and all
        // triples; and all names of <= 3 labels)
        phase("names-hostile-octets", &mut || dom_names(&env, 2, MENU_HOSTILE, !quick, !quick, 31, None));
        phase("names-long-labels", &mut || dom_names(&env, 2, MENU_LONG, !quick, true, 32, None));
        phase("relative-names", &mut || dom_relnames(&env, 3, 5, true, 12, None));
        phase("relative-names-hostile-octets", &mut || dom_relnames(&env, 2, MENU_HOSTILE, !quick, 33, None));
        phase("relative-names-long-labels", &mut || dom_relnames(&env, 1, MENU_LONG, true, 36, None));
        if !quick {
            phase("names-hostile-octets-depth3", &mut || dom_names(&env, 3, MENU_HOSTILE, false, false, 38, None));
            phase("relative-names-hostile-octets-depth3", &mut || dom_relnames(&env, 3, MENU_HOSTILE, false, 39, None));
        }
        phase("name-shapes-depth3-hops2", &mut || dom_name_shapes(&env, 3, 5, 2, false, 17, None));
        phase("name-shapes-depth2-extended-menu-hops3-near+far", &mut || dom_name_shapes(&env, 2, 7, 3, true, 18, None));
        phase("name-shapes-hostile-octets", &mut || dom_name_shapes(&env, if quick { 1 } else { 2 }, MENU_HOSTILE, 3, true, 34, None));
        phase("name-shapes-long-labels", &mut || dom_name_shapes(&env, 1, MENU_LONG, 3, false, 37, None));
        if !quick {
            phase("name-shapes-depth3-hops3", &mut || dom_name_shapes(&env, 3, 5, 3, false, 19, None));
            phase("name-shapes-depth3-extended-menu-hops2", &mut || dom_name_shapes(&env, 3, 7, 2, false, 20, None));
            phase("names-depth4", &mut || dom_names(&env, 4, 5, false, false, 4, None));
            phase("names-depth3-extended-menu", &mut || dom_names(&env, 3, 7, true, false, 10, None));
        }
        phase("small-types", &mut || {
            dom_owner_hash(&env, None);
            dom_nsec3_salt(&env, None);
            dom_timestamps(&env);
            dom_headers(&env, None);
        });
        phase("rdata", &mut || dom_rdata(&env, None, false));
        phase("zrdata", &mut || dom_rdata(&env, None, true));
        phase("records", &mut || dom_records(&env, None));
        phase("embedded-name-shapes", &mut || dom_embedded_shapes(&env, 3, false, None));
        phase("embedded-name-shapes-hostile-names", &mut || dom_embedded_shapes(&env, if quick { 1 } else { 3 }, true, None));
        phase("rdata-fields", &mut || dom_fields(&env, None));
        phase("rdata-wide", &mut || dom_wide(&env, None, if quick { 1000 } else { usize::MAX }));
    }
    let _ = t0;
    let counters = env.stats.counters_json();
    ctx.finish(
        json!({
            "evaluations": env.stats.evals(),
            "distinct_nontrivial": env.stats.distinct_count(),
            "rule": "a case is an ordered pair (a, b) of items of one domain, evaluated with every comparison/equality/hash operation the types offer; non-trivial = a and b are different items (different octets, representation or field values). Pairs are keyed by (domain, index a, index b) in Stats::distinct; for domains above 6e6 ordered pairs (names depth 4, thorough records) and for rdata-wide one key per left item is stored and the pair count is reported in counters",
            "exhaustive": true,
            "triples_checked_on_observed_relations": env.triples.load(AO::Relaxed),
            "bounds": {
                "alphabet": ALPHA.iter().map(|b| format!("{b:02x}")).collect::<Vec<_>>(),
                "label_and_charstr_max_len": if quick { 2 } else { 3 },
                "name_depth": if quick { 3 } else { 4 },
                "name_label_menu": ["a", "A", "b", "a.b (one label)", "ab"],
                "name_label_menu_extended": ["a", "A", "b", "a.b (one label)", "ab", "a\\001b (one label)", "\\001a (one label)"],
                "name_depth_extended_menu": if quick { 2 } else { 3 },
                "hostile_octets_in_names": {
                    "menu_hostile": ["a (filler)", "\\000", "a\\000", "A\\000", "\\000a", "a\\000b", "b\\000", ". (one label)", "a. (one label)"],
                    "menu_long": ["a (filler)", "63 x a", "62 x a + Z", "Z + 62 x a", "62 x a + z", "z + 62 x a"],
                    "names": if quick { "all label sequences of <= 2 labels over each menu plus every non-filler label at every position of a 3-label name padded with the filler (115 and 58 names)" } else { "as quick with UncertainName chains, chains of chains and all triples; plus all sequences of <= 3 labels over the hostile menu (and each label at every position of 4-label names)" },
                    "representations": "flat Name (Vec, Bytes, &[u8], [u8]), ParsedName uncompressed / compressed at every suffix / pointer per label / double pointer, Chain split at every boundary; RelativeName flat, Chain<Rel,Rel> and Chain<Chain<Rel,Rel>,Rel> at every split; every compression shape with <= 3 hops (near and far targets) of the names of <= 1 label (thorough: <= 2) plus 2-label paddings",
                    "oracles": "all oracles of the name domains (reference equality and RFC 4034 6.1 order on lower-cased label lists, operators, Ord, CanonicalOrd, composed orders against wire octets, Hash input equality for equal names, canonical forms == independently lower-cased wire, total-preorder rank test, triples) plus the label walks and starts_with/ends_with below",
                    "use_sites": "hostile_names = {a., a\\000., A\\000., b\\000., \\000., (62 x a + Z)., (62 x a + z)., (Z + 62 x a).}: as owners of record headers (with the 3 plain owners: 160 headers x 3 representations); substituted for every embedded name of every compact record data value (rdata-fields, flat) and for the owner of an A record; the same stored in every compression shape with <= 1 hop (thorough: 3) through Record / record data / RecordHeader ==, partial_cmp, cmp, canonical_cmp, Hash against the reference, flat-vs-flat included",
                },
                "label_walks": "every name of every name / relative-name / name-shape domain in every representation: iter_labels forwards; backwards; f labels from the front then the rest from the back (every f); b labels from the back then the rest from the front (every b); alternating from either end; count from both ends: each walk yields exactly the labels the name was built from, then None. ToLabelIter::starts_with / ends_with for all ordered pairs of representations against label-wise prefix / suffix of the lower-cased label lists. Flat Name: iter, iter_suffixes, label_count, first, last, split_first, parent, ends_with and strip_suffix with each own suffix; flat RelativeName: label_count, first, last, make_canonical, starts_with / ends_with / strip_suffix with each own prefix / suffix",
                "case_at_every_position": "for every label length 1..=63 and every position (2016 groups): label a..Z..a vs twin a..z..a (==, cmp, partial_cmp, Hash calls identical) and vs neighbours a..y..a, a..{..a (order of the lower-cased octets), composed_cmp / lowercase_composed_cmp; canonical forms Label::to_canonical, compose_canonical, OwnedLabel::make_canonical; the label alone and followed by label B as absolute name: compose_canonical and to_canonical_name of flat Name, ParsedName and Chain, Name::make_canonical, all == independently lower-cased wire; ==, cmp, name_cmp, canonical_cmp, Hash against the lower-case twin; RelativeName: make_canonical, compose_canonical, to_canonical_relative_name, ==, cmp, Hash",
                "embedded_names": "every embedded name of every compact value replaced by each of b., B., a.b., a.B. and the root (canonical name order opposite to wire order; case twins); all ordered pairs and triples within each (value, name) group",
                "variable_length_tails": "for every compact value and every offset (not inside an embedded name) the RDATA from that offset on replaced by each of 28 tails of length 0..3 over {00,01,02,FF} (shorter-but-larger, shorter-and-smaller, strict prefixes); all ordered pairs and triples within each (value, offset) group",
                "numeric_fields": "every window of 1/2/4/6 octets outside embedded names of every compact value overwritten with 0, 1, 2^(n-1)-1, 2^(n-1), 2^(n-1)+1, 2^n-1; all ordered pairs and triples within each (value, width, offset) group",
                "coverage_round": "relative names and chains of chains; UncertainName chains, ParsedName::from(Name) and conversions (to_name, to_vec, to_bytes, to_cow, to_canonical_name, compose, compose_canonical, flatten_into, make_canonical, Borrow) checked against the reference wire; flat names as Name<Bytes>, Name<&[u8]>, Name<[u8]>; CanonicalOrd::canonical_lt/le/gt/ge wherever canonical_cmp is called; RecordHeader (48 headers x 3 representations) and ParsedRecord; OwnerHash, Nsec3Salt (31 strings x 2 octets types) and Timestamp (8 boundary values); Record::compose_canonical as second opinion within an RRset; parsed records flattened",
                "compression_shapes": {
                    "shape": "a composition of the k labels of a name into h+1 parts, h = pointer hops; part i < h is stored as 'that many labels, then a pointer to part i+1', the last part as 'labels, root label'; a part of 0 labels is a bare pointer. All compositions for h = 0..max (C(k+h, h) each), ordered by h, then lexicographically",
                    "classes": ["uncompressed", "labels+pointer", "bare-pointer-to-flat", "pointer-to-pointer-to-flat", "labels+pointer-chain", "bare-pointer-to-compressed"],
                    "names": if quick { "all names of <= 3 labels over the 5-label menu with h <= 2 (156 names, 2158 shapes); all names of <= 2 labels over the extended 7-label menu with h <= 3, each shape stored with pointer targets < 256 and >= 256 (57 names, 2108 shapes)" } else { "as quick, plus all names of <= 3 labels over the 5-label menu with h <= 3 and over the extended 7-label menu with h <= 2" },
                    "against": "flat Name and Chain split at every boundary of every name of the same menu; all ordered pairs of all representations",
                    "per_shape": "independent decompression (mc::wire::read_name) of the hand-assembled message; parser position after ParsedName::parse; is_compressed vs as_flat_slice; as_flat_slice == uncompressed wire form when Some; to_name/try_to_name/flatten_into/to_vec/to_bytes/to_cow/compose and the canonical forms; forward/backward label iteration; Hash input == that of the flat Name; every name derived by iter_suffixes, split_first and parent equals the flat suffix by ==, name_eq, name_cmp, composed_cmp, lowercase_composed_cmp, Hash, as_flat_slice, to_vec",
                    "embedded": "for every embedded name of every rgen compact value (183 groups) and for the owner of an A record: the name replaced by b., B., a.b., a.B. and the root, each flat and parsed from a two-record message that stores it in every shape with h <= 3 (inner segments are the RDATA of a preceding TYPE65280 record); all ordered pairs within a group through Record, record data and RecordHeader (owner group) ==, partial_cmp, cmp, canonical_cmp, canonical_lt.., Hash; try_flatten_into and compose_canonical_rdata of the parsed value",
                },
                "owners": ["a.", "A.", "b.a."], "classes": [1, 3], "ttls": [1, 3600],
                "rdata": if quick { "rgen compact values + name-case twins + letter-case twins + Unknown-variant twins; records over compact values; plus per type all ordered pairs of the rgen quick-menu product for the types with at most 1000 values" } else { "as quick, records also over the twins; rgen quick-menu product for every type (53 564 values)" },
            },
            "phase_seconds": phases.iter().map(|(k, v)| json!({"phase": k, "s": v})).collect::<Vec<_>>(),
            "counters": counters,
            "samples": env.stats.samples(),
        }),
        &[
            "labels longer than 3 (except 62/63, and the one-upper-case-letter family of every length 1..63), names deeper than 4 and RDATA values off the rgen menus are not covered (DESIGN C04 L.); hostile octets inside names are limited to 00 and 2E in the label shapes of the hostile menu",
            "label walks: after a walk has consumed every label the iterator is asked once more (at the end opposite to the last label taken) and must answer None; behaviour after that first None is not constrained",
            "RFC 4034 6.3 orders records only within one RRset; across RRsets the documented (class, owner, type, RDATA) order or the octet order of the complete canonical forms is accepted, and equal-RDATA records that differ in TTL may compare Equal or by TTL",
            "equality of record data is the library's choice between 'wire equal up to the case of embedded names' (must be equal) and anything coarser; only its coherence with cmp and Hash is demanded",
            "RelativeName, RecordHeader, ParsedRecord and Question are not enumerated; Chain has no Eq/Ord/Hash impls and is exercised through name_eq/name_cmp and as right-hand side of Name/ParsedName operators",
            "compression shapes: whether as_flat_slice returns Some for a shape is the library's choice (counted per shape class); only 'if Some then exactly the uncompressed wire form' and is_compressed == as_flat_slice().is_none() are demanded. Record types whose parser refuses compressed names (IPSECKEY) are counted, not reported. RecordHeader is compared only in the owner group (RDLEN of a record with a compressed name in its data differs by design). Names of more than 3 labels, more than 3 pointer hops and shapes whose segments are not adjacent in the message are not covered",
            "in rdata-wide the hash inputs (up to 64 KiB each) are compared through a 2x64-bit digest plus lengths of the recorded stream",
        ],
    );
}
