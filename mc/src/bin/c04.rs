use mc::rgen;
fn main() {
    let (v, st) = rgen::values_ex(rgen::Tier::Quick);
    println!("{} values", v.len());
    println!("{:?}", st.generated);
    let tot: usize = v.iter().map(|x| x.wire.len()).sum();
    println!("total wire {}", tot);
    let s: u64 = st.generated.values().map(|n| n*n).sum();
    println!("sum n^2 = {}", s);
}
