use mc::rgen;
fn main() {
    let (v, st) = rgen::values_ex(rgen::Tier::Compact);
    println!("{} values", v.len());
    println!("{:?}", st.generated);
    println!("refused {:?} anomalies {:?}", st.refused, st.anomalies);
    for x in v.iter().take(2000) { println!("{} {} {} names={:?} wire={}", x.mnemonic, x.rtype, x.desc, x.names, mc::hex(&x.wire)); }
}
