//! C05 — record data of every type survives compose/parse; lengths are
//! exact; the canonical form lower-cases exactly the RFC 4034 §6.2 /
//! RFC 6840 §5.1 names.
//!
//! Three exhaustive enumerations (engine: `gramx`):
//!
//! 1. VALUES: for every record type the full product of per-field boundary
//!    menus (generator: `mc::rgen`), each value carrying an independent
//!    reference encoding written from the RFC layouts.
//! 2. OPTIONS: every EDNS option type with boundary values, through
//!    `Opt::push`, `OptBuilder` and `AllOptData`.
//! 3. BYTES: per record type all RDATA octet strings derivable from a
//!    field-byte grammar (every internal length field short / exact /
//!    long, names literal / compressed / upper-case / truncated / bad
//!    pointer, trailing garbage), placed into a message.
//!
//! Oracle per value v: compose_rdata(v) == reference; rdlen == octets
//! written; parse(compose(v)) == v (stand-alone parser and through whole
//! messages built on a plain target and on the three compressing targets,
//! with and without the embedded names already present); RDLENGTH in the
//! message == octets that follow; names compressed only in RFC 3597 §4
//! well-known types; canonical form == reference with exactly the
//! RFC 4034 §6.2 + RFC 6840 §5.1 names lower-cased; unknown types carried
//! unchanged. Oracle per accepted byte string b:
//! parse(compose(parse(b))) == parse(b).

use domain::base::iana::{Class, Rtype};
use domain::base::message::Message;
use domain::base::message_builder::{
    HashCompressor, MessageBuilder, StaticCompressor, TreeCompressor,
};
use domain::base::name::{Name, ParsedName};
use domain::base::opt::{AllOptData, ComposeOptData, Opt, OptData};
use domain::base::rdata::{ComposeRecordData, ParseAnyRecordData, RecordData};
use domain::base::wire::Composer;
use domain::base::{Record, Ttl};
use domain::rdata::AllRecordData;
use mc::rgen::{self, Event, Rd, Tier, Value};
use mc::wire as w;
use mc::*;
use octseq::Parser;
use rayon::prelude::*;
use serde_json::{json, Value as J};
use std::collections::BTreeMap;
use std::sync::Arc;

//------------ tables written from the RFCs -----------------------------------

/// RFC 4034 §6.2 item 3: "if the type of the RR is NS, MD, MF, CNAME, SOA,
/// MB, MG, MR, PTR, HINFO, MINFO, MX, HINFO, RP, AFSDB, RT, SIG, PX, NXT,
/// NAPTR, KX, SRV, DNAME, A6, RRSIG, or NSEC, all uppercase US-ASCII
/// letters in the DNS names contained within the RDATA are replaced by the
/// corresponding lowercase US-ASCII letters".
/// RFC 6840 §5.1: NSEC is removed ("DNS names in the RDATA section of NSEC
/// resource records are not converted to lowercase"), RRSIG stays ("DNS
/// names in the RDATA section of RRSIG resource records are converted to
/// lowercase"), HINFO contains no names.
const CANONICAL_LOWERCASE: &[u16] = &[
    2,  // NS
    3,  // MD
    4,  // MF
    5,  // CNAME
    6,  // SOA
    7,  // MB
    8,  // MG
    9,  // MR
    12, // PTR
    14, // MINFO
    15, // MX
    17, // RP
    18, // AFSDB
    21, // RT
    24, // SIG
    26, // PX
    30, // NXT
    35, // NAPTR
    36, // KX
    33, // SRV
    39, // DNAME
    38, // A6
    46, // RRSIG
];

/// RFC 3597 §4: "only the RR types defined in [RFC1035] are to be
/// considered well-known" and only those may have compressed names in
/// their RDATA when sent. RFC 1035 types with embedded names:
const MAY_COMPRESS: &[u16] = &[
    2,  // NS
    3,  // MD
    4,  // MF
    5,  // CNAME
    6,  // SOA
    7,  // MB
    8,  // MG
    9,  // MR
    12, // PTR
    14, // MINFO
    15, // MX
];

fn type_label(mn: &str) -> &str {
    if mn.starts_with("TYPE") {
        "UNKNOWN"
    } else {
        mn
    }
}

//------------ local statistics ------------------------------------------------

#[derive(Default)]
struct Local {
    c: BTreeMap<String, u64>,
    evals: u64,
    distinct: Vec<u64>,
}

impl Local {
    fn inc(&mut self, k: impl Into<String>) {
        *self.c.entry(k.into()).or_insert(0) += 1;
    }
    fn ev(&mut self) {
        self.evals += 1;
    }
}

struct Env {
    ctx: Arc<Ctx>,
    stats: Stats,
    tier: Tier,
}

fn tier_name(t: Tier) -> &'static str {
    match t {
        Tier::Compact => "compact",
        Tier::Quick => "quick",
        Tier::Thorough => "thorough",
    }
}

impl Env {
    fn viol(&self, sig: String, what: String, case: J) {
        self.ctx.violation(&sig, &what, case);
    }
    fn value_case(&self, v: &Value) -> J {
        json!({"kind": "value", "type": v.mnemonic, "tier": tier_name(self.tier), "index": v.index, "desc": v.desc,
               "reference_rdata_len": v.wire.len(), "reference_rdata_head": hex(&v.wire[..v.wire.len().min(64)])})
    }
}

//------------ helpers around the subject ---------------------------------------

fn compose_vec<D: ComposeRecordData>(d: &D) -> Result<Vec<u8>, String> {
    guard(|| {
        let mut t = Vec::new();
        d.compose_rdata(&mut t).map(|_| t).map_err(|_| "append error".to_string())
    })
    .and_then(|r| r)
}

fn compose_canonical_vec<D: ComposeRecordData>(d: &D) -> Result<Vec<u8>, String> {
    guard(|| {
        let mut t = Vec::new();
        d.compose_canonical_rdata(&mut t).map(|_| t).map_err(|_| "append error".to_string())
    })
    .and_then(|r| r)
}

type PRd<'a> = AllRecordData<&'a [u8], ParsedName<&'a [u8]>>;

/// Parse stand-alone RDATA with a parser limited to exactly these octets.
fn parse_alone(rtype: u16, octets: &[u8]) -> Result<Result<(PRd<'_>, usize), String>, String> {
    guard(|| {
        let mut p = Parser::from_ref(octets);
        match PRd::parse_any_rdata(Rtype::from_int(rtype), &mut p) {
            Ok(d) => Ok((d, p.remaining())),
            Err(e) => Err(e.to_string()),
        }
    })
}

fn lowercase_names(wire: &[u8], names: &[(usize, usize)]) -> Vec<u8> {
    let mut out = wire.to_vec();
    for &(off, len) in names {
        // lower-case label contents only (length octets are < 64 anyway)
        let mut p = off;
        while p < off + len {
            let l = out[p] as usize;
            for b in &mut out[p + 1..p + 1 + l] {
                b.make_ascii_lowercase();
            }
            p += 1 + l;
        }
    }
    out
}

fn first_diff(a: &[u8], b: &[u8]) -> String {
    if a.len() != b.len() {
        let p = a.iter().zip(b).position(|(x, y)| x != y).unwrap_or(a.len().min(b.len()));
        format!("length {} vs {} (first difference at {p})", a.len(), b.len())
    } else {
        let p = a.iter().zip(b).position(|(x, y)| x != y).unwrap_or(0);
        format!("same length {}, first difference at octet {p}: {:02x} vs {:02x}", a.len(), a[p], b[p])
    }
}

/// Structural cause hints for known-suspicious value shapes, so that one
/// defect maps to one signature.
fn cause_hint(v: &Value) -> &'static str {
    match v.mnemonic {
        "ZONEMD" if v.wire.len() < 6 + 12 => "digest-shorter-than-12",
        "IPSECKEY" if v.desc.contains("key=[0B]") && !v.desc.contains(",alg=0,") => "algorithm-nonzero-and-key-empty",
        "TXT" if v.wire.is_empty() => "no-character-string",
        "CAA" if v.desc.contains("=<0B>") => "empty-tag",
        _ => "",
    }
}

fn err_class(e: &str) -> String {
    e.chars().take(48).collect()
}

//------------ the value oracle ---------------------------------------------------

#[derive(Clone, Copy, PartialEq, Eq, Debug)]
enum Target {
    Plain,
    Static,
    Tree,
    Hash,
}

const OWNER: &[u8] = b"\x01a\x00";

/// Build a message: optional preamble (a question per distinct embedded
/// name plus an NS record holding the first embedded name), then the record
/// under test as last record of the answer section.
fn build_message(v: &Rd, target: Target, preamble: &[Vec<u8>]) -> Result<Result<Vec<u8>, String>, String> {
    fn go<T: Composer + AsRef<[u8]>>(t: T, v: &Rd, preamble: &[Vec<u8>], fin: fn(T) -> Vec<u8>) -> Result<Vec<u8>, String> {
        let mb = MessageBuilder::from_target(t).map_err(|_| "from_target".to_string())?;
        let mut q = mb.question();
        for n in preamble {
            let name = Name::from_octets(n.as_slice()).map_err(|e| e.to_string())?;
            q.push((name, Rtype::A)).map_err(|e| format!("push question: {e}"))?;
        }
        let mut a = q.answer();
        let owner = Name::from_octets(OWNER).unwrap();
        if let Some(n) = preamble.first() {
            let name = Name::from_octets(n.as_slice()).map_err(|e| e.to_string())?;
            a.push((owner.clone(), 60u32, domain::rdata::Ns::new(name))).map_err(|e| format!("push preamble: {e}"))?;
        }
        a.push(Record::new(owner, Class::IN, Ttl::from_secs(3600), v)).map_err(|e| format!("push: {e}"))?;
        Ok(fin(a.finish()))
    }
    guard(|| match target {
        Target::Plain => go(Vec::new(), v, preamble, |t| t),
        Target::Static => go(StaticCompressor::new(Vec::new()), v, preamble, |t| t.into_target()),
        Target::Tree => go(TreeCompressor::new(Vec::new()), v, preamble, |t| t.into_target()),
        Target::Hash => go(HashCompressor::new(Vec::new()), v, preamble, |t| t.into_target()),
    })
}

fn check_value(env: &Env, v: &Value, lc: &mut Local) {
    let t = type_label(v.mnemonic);
    let case = || env.value_case(v);
    lc.inc(format!("{}:generated", v.mnemonic));
    let hint = cause_hint(v);

    // 1. compose == independent reference
    lc.ev();
    let c = match compose_vec(&v.data) {
        Ok(c) => c,
        Err(e) => {
            env.viol(format!("C05|{t}|compose_rdata|panic|{}", panic_class(&e)), format!("compose_rdata panicked on {}: {e}", v.desc), case());
            return;
        }
    };
    if c != v.wire {
        env.viol(
            format!("C05|{t}|compose_rdata|differs-from-rfc-reference-encoding|{}", if c.len() != v.wire.len() { "length" } else { "content" }),
            format!("compose_rdata of {} differs from the reference encoding: {}", v.desc, first_diff(&c, &v.wire)),
            case(),
        );
        return;
    }

    // 2. advertised length
    lc.ev();
    match guard(|| (v.data.rdlen(false), v.data.rdlen(true))) {
        Err(e) => {
            env.viol(format!("C05|{t}|rdlen|panic|{}", panic_class(&e)), format!("rdlen panicked on {}: {e}", v.desc), case());
            return;
        }
        Ok((plain, compressed)) => {
            match plain {
                Some(n) if n as usize != c.len() => {
                    env.viol(format!("C05|{t}|rdlen(false)|advertised!=written"), format!("rdlen(false)={n} but compose_rdata wrote {} octets for {}", c.len(), v.desc), case());
                    return;
                }
                Some(_) => lc.inc(format!("{}:rdlen-some", v.mnemonic)),
                None => lc.inc(format!("{}:rdlen-none", v.mnemonic)),
            }
            if let Some(n) = compressed {
                // a fixed length is advertised even for compressing targets:
                // then nothing may be compressed
                if n as usize != c.len() {
                    env.viol(format!("C05|{t}|rdlen(true)|advertised!=uncompressed-length"), format!("rdlen(true)={n}, uncompressed {} for {}", c.len(), v.desc), case());
                }
            }
        }
    }
    // length-prefixed forms
    lc.ev();
    for canonical in [false, true] {
        let r = guard(|| {
            let mut tgt = Vec::new();
            let r = if canonical { v.data.compose_canonical_len_rdata(&mut tgt) } else { v.data.compose_len_rdata(&mut tgt) };
            r.map(|_| tgt).map_err(|_| ())
        });
        let op = if canonical { "compose_canonical_len_rdata" } else { "compose_len_rdata" };
        match r {
            Ok(Ok(b)) => {
                if b.len() < 2 || u16::from_be_bytes([b[0], b[1]]) as usize != b.len() - 2 || b.len() - 2 != c.len() {
                    env.viol(format!("C05|{t}|{op}|prefix!=octets-that-follow"), format!("{op}: prefix {:?}, {} octets follow, for {}", &b[..b.len().min(2)], b.len().saturating_sub(2), v.desc), case());
                }
            }
            Ok(Err(())) => env.viol(format!("C05|{t}|{op}|append-error-on-vec"), v.desc.clone(), case()),
            Err(e) => env.viol(format!("C05|{t}|{op}|panic|{}", panic_class(&e)), format!("{op} panicked on {}: {e}", v.desc), case()),
        }
    }

    // 3. canonical form
    lc.ev();
    let expect_canon = if CANONICAL_LOWERCASE.contains(&v.rtype) { lowercase_names(&v.wire, &v.names) } else { v.wire.clone() };
    match compose_canonical_vec(&v.data) {
        Err(e) => env.viol(format!("C05|{t}|compose_canonical_rdata|panic|{}", panic_class(&e)), format!("{}: {e}", v.desc), case()),
        Ok(cc) => {
            if cc != expect_canon {
                let kind = if cc == v.wire {
                    "names-not-lowercased-but-rfc4034-6.2-lists-type"
                } else if cc == lowercase_names(&v.wire, &v.names) {
                    "names-lowercased-but-type-not-in-rfc4034-6.2+rfc6840-5.1-list"
                } else {
                    "differs-otherwise"
                };
                env.viol(format!("C05|{t}|compose_canonical_rdata|{kind}"), format!("canonical form of {}: {}", v.desc, first_diff(&cc, &expect_canon)), case());
            } else if expect_canon != v.wire {
                lc.inc(format!("{}:canonical-lowercased", v.mnemonic));
            }
        }
    }

    // 4. parse(compose(v)) == v, stand-alone
    lc.ev();
    let mut ok = false;
    match parse_alone(v.rtype, &c) {
        Err(e) => env.viol(format!("C05|{t}|parse|panic|{}", panic_class(&e)), format!("parsing own compose of {} panicked: {e}", v.desc), case()),
        Ok(Err(e)) => env.viol(
            format!("C05|{t}|parse(compose(v))|rejected|{}|{hint}", err_class(&e)),
            format!("the parser rejects what compose_rdata wrote for the constructor-accepted value {}: {e}", v.desc),
            case(),
        ),
        Ok(Ok((p, remaining))) => {
            let eq = guard(|| (p == v.data, v.data == p, p.rtype().to_int()));
            match eq {
                Err(e) => env.viol(format!("C05|{t}|eq|panic|{}", panic_class(&e)), format!("{}: {e}", v.desc), case()),
                Ok((a, b, rt)) => {
                    if remaining != 0 {
                        env.viol(format!("C05|{t}|parse(compose(v))|octets-left-unparsed"), format!("{remaining} octets left for {}", v.desc), case());
                    } else if !a || !b {
                        env.viol(format!("C05|{t}|parse(compose(v))|not-equal|{hint}"), format!("parse(compose(v)) != v for {} (p==v:{a}, v==p:{b}); parsed: {:?}", v.desc, p), case());
                    } else if rt != v.rtype {
                        env.viol(format!("C05|{t}|parse(compose(v))|rtype-changed"), format!("rtype {rt} for {}", v.desc), case());
                    } else if v.mnemonic.starts_with("TYPE") && !matches!(p, AllRecordData::Unknown(_)) {
                        env.viol(format!("C05|{t}|parse(compose(v))|unknown-type-not-opaque"), format!("{}: {:?}", v.desc, p), case());
                    } else {
                        match compose_vec(&p) {
                            Ok(c2) if c2 == c => ok = true,
                            Ok(c2) => env.viol(format!("C05|{t}|compose(parse(compose(v)))|octets-changed"), format!("{}: {}", v.desc, first_diff(&c2, &c)), case()),
                            Err(e) => env.viol(format!("C05|{t}|compose(parsed)|panic|{}", panic_class(&e)), format!("{}: {e}", v.desc), case()),
                        }
                    }
                }
            }
        }
    }
    if !ok {
        return;
    }
    lc.inc(format!("{}:roundtripped", v.mnemonic));
    if !v.wire.is_empty() {
        let mut key = v.rtype.to_be_bytes().to_vec();
        key.extend_from_slice(&v.wire);
        lc.distinct.push(fnv(&key));
    }

    // 4b. the same value through the ZoneRecordData dispatch
    {
        let z: Result<rgen::ZRd, Rd> = v.data.clone().into();
        if let Ok(z) = z {
            lc.ev();
            let r = guard(|| -> Result<(), String> {
                let mut t1 = Vec::new();
                z.compose_rdata(&mut t1).map_err(|_| "append")?;
                if t1 != c {
                    return Err(format!("compose_rdata differs: {}", first_diff(&t1, &c)));
                }
                let mut t2 = Vec::new();
                z.compose_canonical_rdata(&mut t2).map_err(|_| "append")?;
                if t2 != expect_canon {
                    return Err(format!("compose_canonical_rdata differs: {}", first_diff(&t2, &expect_canon)));
                }
                if z.rdlen(false) != v.data.rdlen(false) || z.rdlen(true) != v.data.rdlen(true) {
                    return Err("rdlen differs from AllRecordData".into());
                }
                let mut p = Parser::from_ref(c.as_slice());
                use domain::base::rdata::ParseRecordData;
                let pz = domain::rdata::ZoneRecordData::<&[u8], ParsedName<&[u8]>>::parse_rdata(Rtype::from_int(v.rtype), &mut p)
                    .map_err(|e| format!("parse_rdata: {e}"))?
                    .ok_or("parse_rdata returned None")?;
                if p.remaining() != 0 {
                    return Err("octets left unparsed".into());
                }
                if !(pz == z && z == pz) {
                    return Err("parse(compose(z)) != z".into());
                }
                if pz.rtype().to_int() != v.rtype {
                    return Err("rtype changed".into());
                }
                Ok(())
            });
            match r {
                Ok(Ok(())) => lc.inc(format!("{}:zone-roundtripped", v.mnemonic)),
                Ok(Err(e)) => env.viol(format!("C05|{t}|ZoneRecordData|{}", e.split(':').next().unwrap_or("")), format!("{}: {e}", v.desc), case()),
                Err(e) => env.viol(format!("C05|{t}|ZoneRecordData|panic|{}", panic_class(&e)), format!("{}: {e}", v.desc), case()),
            }
        }
    }

    // 5. whole messages
    let mut embedded: Vec<Vec<u8>> = Vec::new();
    for &(off, len) in &v.names {
        let n = v.wire[off..off + len].to_vec();
        if n.len() > 1 && !embedded.contains(&n) {
            embedded.push(n);
        }
    }
    let pre_len: usize = embedded.iter().map(|n| n.len() + 4).sum::<usize>() + embedded.first().map(|n| 3 + 10 + n.len()).unwrap_or(0);
    if 12 + pre_len + OWNER.len() + 10 + v.wire.len() > 65535 {
        lc.inc(format!("{}:message-skipped-over-65535", v.mnemonic));
        return;
    }
    let configs: &[(Target, bool)] = &[
        (Target::Plain, false),
        (Target::Static, false),
        (Target::Static, true),
        (Target::Tree, true),
        (Target::Hash, true),
        (Target::Plain, true),
    ];
    for &(target, with_pre) in configs {
        if with_pre && embedded.is_empty() && target != Target::Static {
            continue;
        }
        lc.ev();
        let cfg = format!("{target:?}{}", if with_pre { "+names-present" } else { "" });
        let pre: &[Vec<u8>] = if with_pre { &embedded } else { &[] };
        let msg = match build_message(&v.data, target, pre) {
            Err(e) => {
                env.viol(format!("C05|{t}|message-push|panic|{}", panic_class(&e)), format!("[{cfg}] {}: {e}", v.desc), case());
                continue;
            }
            Ok(Err(e)) => {
                env.viol(format!("C05|{t}|message-push|refused"), format!("[{cfg}] pushing {} failed: {e}", v.desc), case());
                continue;
            }
            Ok(Ok(m)) => m,
        };
        check_message(env, v, &msg, target, &cfg, lc);
    }
}

/// Independent look at the message, then the library's reading of it.
fn check_message(env: &Env, v: &Value, msg: &[u8], target: Target, cfg: &str, lc: &mut Local) {
    let t = type_label(v.mnemonic);
    let case = || {
        let mut c = env.value_case(v);
        c["config"] = json!(cfg);
        if msg.len() <= 2048 {
            c["message"] = json!(hex(msg));
        }
        c
    };
    let raw = match w::read_message(msg) {
        Ok(r) => r,
        Err(e) => {
            env.viol(format!("C05|{t}|message|independent-reader-rejects"), format!("[{cfg}] {}: {e}", v.desc), case());
            return;
        }
    };
    let rec = match raw.sections[0].last() {
        Some(r) => r,
        None => {
            env.viol(format!("C05|{t}|message|record-missing"), format!("[{cfg}] {}", v.desc), case());
            return;
        }
    };
    // RDLENGTH == octets that follow (the record is the last thing written)
    if raw.end != msg.len() || rec.rtype != v.rtype {
        env.viol(
            format!("C05|{t}|message|rdlength!=octets-that-follow"),
            format!("[{cfg}] {}: RDLENGTH {} but {} octets follow the RDLENGTH field (type {})", v.desc, rec.rdata.len(), msg.len() - rec.rdata_pos, rec.rtype),
            case(),
        );
        return;
    }
    // walk the RDATA against the reference: non-name octets identical,
    // names equal; compression only where RFC 3597 §4 allows it
    let mut wo = 0usize; // offset in reference
    let mut mo = rec.rdata_pos; // offset in message
    let mut compressed_any = false;
    let mut bad: Option<String> = None;
    for &(off, len) in &v.names {
        let lit = off - wo;
        if msg.get(mo..mo + lit) != Some(&v.wire[wo..off]) {
            bad = Some(format!("octets before the name at reference offset {off} differ"));
            break;
        }
        mo += lit;
        let mut ptrs = Vec::new();
        match w::read_name(msg, mo, &mut ptrs) {
            Err(e) => {
                bad = Some(format!("name at message offset {mo} unreadable: {e}"));
                break;
            }
            Ok((labels, next)) => {
                let expect = w::validate_name(&v.wire[off..off + len], true).expect("reference name");
                if ptrs.is_empty() {
                    if labels != expect {
                        bad = Some(format!("uncompressed name at reference offset {off} differs"));
                        break;
                    }
                } else {
                    compressed_any = true;
                    if !w::labels_eq_ci(&labels, &expect) {
                        bad = Some(format!("compressed name at reference offset {off} expands to a different name"));
                        break;
                    }
                }
                mo = next;
                wo = off + len;
            }
        }
    }
    if bad.is_none() && msg.get(mo..) != Some(&v.wire[wo..]) {
        bad = Some("octets after the last name differ".into());
    }
    if let Some(b) = bad {
        env.viol(format!("C05|{t}|message|rdata-differs-from-reference"), format!("[{cfg}] {}: {b}", v.desc), case());
        return;
    }
    if compressed_any {
        lc.inc(format!("{}:compressed[{cfg}]", v.mnemonic));
        if target == Target::Plain {
            env.viol(format!("C05|{t}|message|name-compressed-on-non-compressing-target"), format!("[{cfg}] {}", v.desc), case());
        } else if !MAY_COMPRESS.contains(&v.rtype) {
            env.viol(
                format!("C05|{t}|message|name-compressed-in-type-outside-rfc3597-4-well-known-list"),
                format!("[{cfg}] {}: a domain name inside the RDATA was written as a compression pointer; RFC 3597 §4 allows that only for types defined in RFC 1035", v.desc),
                case(),
            );
        }
    }
    // the library reads it back
    let r = guard(|| -> Result<(bool, bool), String> {
        let m = Message::from_octets(msg).map_err(|e| format!("from_octets: {e}"))?;
        let last = m.answer().map_err(|e| format!("answer(): {e}"))?.last().ok_or("no record")?.map_err(|e| format!("record: {e}"))?;
        let rec = last.to_any_record::<PRd>().map_err(|e| format!("to_any_record: {e}"))?;
        Ok((rec.data() == &v.data, &v.data == rec.data()))
    });
    match r {
        Err(e) => env.viol(format!("C05|{t}|message-read|panic|{}", panic_class(&e)), format!("[{cfg}] {}: {e}", v.desc), case()),
        Ok(Err(e)) => env.viol(format!("C05|{t}|message-read|rejected|{}", err_class(&e)), format!("[{cfg}] {}: {e}", v.desc), case()),
        Ok(Ok((a, b))) => {
            if !a || !b {
                env.viol(format!("C05|{t}|message-read|not-equal"), format!("[{cfg}] record read back != pushed value for {}", v.desc), case());
            } else {
                lc.inc(format!("{}:message-roundtrips", v.mnemonic));
            }
        }
    }
}

//------------ constructor anomalies ---------------------------------------------

fn why_class(why: &str) -> String {
    if why.starts_with("RDATA of") {
        "rdata>65535".into()
    } else if why.contains("longer than 255") {
        format!("{}>255-octets", why.split(' ').next().unwrap_or("field").split('(').next().unwrap_or("field"))
    } else if why.contains("longer than 65535") {
        "field>65535".into()
    } else {
        why.chars().take(40).collect()
    }
}

fn handle_event(env: &Env, ev: Event, lc: &mut Local) {
    match ev {
        Event::Value(v) => check_value(env, &v, lc),
        Event::Refused { mnemonic, representable, error, .. } => {
            lc.inc(format!("{mnemonic}:refused"));
            if representable {
                lc.inc(format!("{mnemonic}:refused-though-representable[{}]", err_class(&error)));
            }
        }
        Event::CtorPanic { mnemonic, index, desc, msg, representable } => {
            if representable {
                env.viol(
                    format!("C05|{}|constructor|panic|{}", type_label(mnemonic), panic_class(&msg)),
                    format!("constructor panicked on the wire-representable {desc}: {msg}"),
                    json!({"kind": "value", "type": mnemonic, "tier": tier_name(env.tier), "index": index, "desc": desc}),
                );
            } else {
                lc.inc(format!("{mnemonic}:refused"));
                lc.inc(format!("{mnemonic}:refused-by-documented-panic"));
            }
        }
        Event::AcceptedUnrepresentable { mnemonic, rtype: _, index, desc, why, data } => {
            lc.ev();
            lc.inc(format!("{mnemonic}:accepted-unrepresentable"));
            // what happens when it is used?
            let rl = guard(|| data.rdlen(false));
            let cl = guard(|| {
                let mut t = Vec::new();
                data.compose_len_rdata(&mut t).map(|_| t.len()).map_err(|_| ())
            });
            let t = type_label(mnemonic);
            env.viol(
                format!("C05|{t}|constructor|accepted-should-reject|{}", why_class(&why)),
                format!(
                    "the safe constructor accepts {desc} although it has no wire representation ({why}); rdlen(false) -> {}; compose_len_rdata -> {}",
                    match rl { Ok(x) => format!("{x:?}"), Err(e) => format!("PANIC {e}") },
                    match cl { Ok(x) => format!("{x:?}"), Err(e) => format!("PANIC {e}") },
                ),
                json!({"kind": "value", "type": mnemonic, "tier": tier_name(env.tier), "index": index, "desc": desc}),
            );
        }
    }
}

include!("../c05_part2.rs");
