use mc::rgen::*;
fn main() {
    for tier in [Tier::Compact, Tier::Quick, Tier::Thorough] {
        let t0 = std::time::Instant::now();
        let mut tot = (0u64, 0u64, 0u64);
        for g in generators() {
            let (mut v, mut r, mut a) = (0u64, 0u64, 0u64);
            let mut bytes = 0usize;
            let n = g.run(tier, 0, 1, &mut |ev| match ev {
                Event::Value(x) => { v += 1; bytes += x.wire.len(); }
                Event::Refused { .. } => r += 1,
                Event::AcceptedUnrepresentable { desc, why, .. } => { a += 1; if a < 3 { println!("  ACC-UNREP {desc}: {why}"); } }
                Event::CtorPanic { desc, msg, representable, .. } => { a += 1; if a < 3 { println!("  PANIC {desc}: {msg} rep={representable}"); } }
            });
            println!("{tier:?} {:10} cand={n} values={v} refused={r} anomalies={a} bytes={bytes}", g.mnemonic);
            tot.0 += v; tot.1 += r; tot.2 += a;
        }
        println!("{tier:?} total {tot:?} in {:?}", t0.elapsed());
    }
}
