//! C05 — record data of every type survives compose/parse; lengths are
//! exact; the canonical form lower-cases exactly the RFC 4034 §6.2 /
//! RFC 6840 §5.1 names.
//!
//! Seven exhaustive enumerations (engine: `gramx`):
//!
//! 1. VALUES: for every record type the full product of per-field boundary
//!    menus (generator: `mc::rgen`), each value carrying an independent
//!    reference encoding written from the RFC layouts.
//! 2. OPTIONS: every EDNS option type with boundary values, through
//!    `Opt::push`, `OptBuilder` and `AllOptData`.
//! 3. BYTES: per record type all RDATA octet strings derivable from a
//!    field-byte grammar (every internal length field short / exact /
//!    long, names literal / compressed / upper-case / truncated / bad
//!    pointer, trailing garbage), placed into a message.
//!
//! 4. LAYOUTS: hand-written messages (independent writer) in which the
//!    owner and every embedded name of every name-bearing type take each of
//!    8 shapes (flat; labels+pointer; bare pointer; pointer to a compressed
//!    name; labels+pointer to a compressed name; pointer chains of 2 and 3);
//!    the parsed record must compose / canonicalise / measure / flatten /
//!    compare like the record parsed from the decompressed reference.
//!
//! 5. REPRESENTATIONS: every value also through the octets conversions
//!    (Vec -> Bytes -> Vec, parsed -> flattened) of both enums and of its
//!    concrete type, the concrete type's own ParseRecordData (right type:
//!    equal; other type: None, parser untouched), ComposeRecordData and
//!    `From` impls, `&T`, ProtoRrsig, setters, and the decoders that read
//!    the value back (RtypeBitmap iter/contains, Txt iter/text, SvcParams
//!    iter_all/iter_raw through every typed SvcParam parser); the slice /
//!    Bytes / builder constructors of CharStr, CaaTag, Nsec3Salt, OwnerHash,
//!    Txt, Null, Opt, SvcParams against `from_octets` and an independent
//!    validity predicate; 65536 octets into the length-checking parsers.
//!
//! 6. HOLDERS: every value through every way of holding it when the record
//!    data traits run: T / &T / &&T (blanket impls for references), inside
//!    Record<N,D> / Record<&N,&D> / &Record, inside the ComposeRecord tuples
//!    and their From conversions, D by value and by reference, for T = both
//!    enums, the concrete type, the parsed (borrowing) enum, unsized
//!    Opt<[u8]>; each route must agree with the direct call and with the
//!    expected canonical form.
//!
//! 7. SEQUENCES: 2-3 compose steps on one compressing target (three
//!    compressors x Vec / bounded buffer, raw target and MessageBuilder)
//!    with truncations between them (record start, RDLENGTH field, inside
//!    the first embedded name, failed attempt inside the RDATA, push limit,
//!    rewind), over every name-bearing type and a family of related names;
//!    the record data composed last (and every record still complete) must
//!    have RDLENGTH == octets written, decompress in the final buffer to
//!    the value composed, and parse back equal.
//!
//! Oracle per value v: compose_rdata(v) == reference; rdlen == octets
//! written; parse(compose(v)) == v (stand-alone parser and through whole
//! messages built on a plain target and on the three compressing targets,
//! with and without the embedded names already present); RDLENGTH in the
//! message == octets that follow; names compressed only in RFC 3597 §4
//! well-known types; canonical form == reference with exactly the
//! RFC 4034 §6.2 + RFC 6840 §5.1 names lower-cased; unknown types carried
//! unchanged. Oracle per accepted byte string b:
//! parse(compose(parse(b))) == parse(b).

use domain::base::iana::{Class, Rtype};
use domain::base::message::Message;
use domain::base::message_builder::{
    HashCompressor, MessageBuilder, StaticCompressor, TreeCompressor,
};
use domain::base::name::{Name, ParsedName};
use domain::base::opt::{AllOptData, ComposeOptData, Opt, OptData};
use domain::base::rdata::{ComposeRecordData, ParseAnyRecordData, RecordData};
use domain::base::wire::Composer;
use domain::base::{Record, Ttl};
use domain::rdata::AllRecordData;
use mc::rgen::{self, Event, Rd, Tier, Value};
use mc::wire as w;
use mc::*;
use octseq::builder::{OctetsBuilder, ShortBuf, Truncate};
use octseq::Parser;
use rayon::prelude::*;
use serde_json::{json, Value as J};
use std::collections::BTreeMap;
use std::sync::Arc;

//------------ tables written from the RFCs -----------------------------------

/// RFC 4034 §6.2 item 3: "if the type of the RR is NS, MD, MF, CNAME, SOA,
/// MB, MG, MR, PTR, HINFO, MINFO, MX, HINFO, RP, AFSDB, RT, SIG, PX, NXT,
/// NAPTR, KX, SRV, DNAME, A6, RRSIG, or NSEC, all uppercase US-ASCII
/// letters in the DNS names contained within the RDATA are replaced by the
/// corresponding lowercase US-ASCII letters".
/// RFC 6840 §5.1: NSEC is removed ("DNS names in the RDATA section of NSEC
/// resource records are not converted to lowercase"), RRSIG stays ("DNS
/// names in the RDATA section of RRSIG resource records are converted to
/// lowercase"), HINFO contains no names.
const CANONICAL_LOWERCASE: &[u16] = &[
    2,  // NS
    3,  // MD
    4,  // MF
    5,  // CNAME
    6,  // SOA
    7,  // MB
    8,  // MG
    9,  // MR
    12, // PTR
    14, // MINFO
    15, // MX
    17, // RP
    18, // AFSDB
    21, // RT
    24, // SIG
    26, // PX
    30, // NXT
    35, // NAPTR
    36, // KX
    33, // SRV
    39, // DNAME
    38, // A6
    46, // RRSIG
];

/// RFC 3597 §4: "only the RR types defined in [RFC1035] are to be
/// considered well-known" and only those may have compressed names in
/// their RDATA when sent. RFC 1035 types with embedded names:
const MAY_COMPRESS: &[u16] = &[
    2,  // NS
    3,  // MD
    4,  // MF
    5,  // CNAME
    6,  // SOA
    7,  // MB
    8,  // MG
    9,  // MR
    12, // PTR
    14, // MINFO
    15, // MX
];

fn type_label(mn: &str) -> &str {
    if mn.starts_with("TYPE") {
        "UNKNOWN"
    } else {
        mn
    }
}

//------------ local statistics ------------------------------------------------

#[derive(Default)]
struct Local {
    c: BTreeMap<String, u64>,
    evals: u64,
    distinct: Vec<u64>,
}

impl Local {
    fn inc(&mut self, k: impl Into<String>) {
        *self.c.entry(k.into()).or_insert(0) += 1;
    }
    fn add(&mut self, k: impl Into<String>, n: u64) {
        *self.c.entry(k.into()).or_insert(0) += n;
    }
    fn ev(&mut self) {
        self.evals += 1;
    }
}

struct Env {
    ctx: Arc<Ctx>,
    stats: Stats,
    tier: Tier,
}

fn tier_name(t: Tier) -> &'static str {
    match t {
        Tier::Compact => "compact",
        Tier::Quick => "quick",
        Tier::Thorough => "thorough",
    }
}

std::thread_local! {
    /// violations of the task running on this thread: (signature, instances,
    /// text and replay case of the first instance)
    static VBUF: std::cell::RefCell<Vec<(String, u64, String, J)>> = const { std::cell::RefCell::new(Vec::new()) };
}

type VBuf = Vec<(String, u64, String, J)>;

fn take_vbuf() -> VBuf {
    VBUF.with(|b| std::mem::take(&mut *b.borrow_mut()))
}

/// Report buffered violations in task order, so that the instance that
/// supplies the text and the replay file of a class is the same in every run.
fn flush(ctx: &Ctx, bufs: Vec<VBuf>) {
    for buf in bufs {
        for (sig, n, what, case) in buf {
            ctx.violation(&sig, &what, case);
            for _ in 1..n {
                ctx.violation(&sig, "", J::Null);
            }
        }
    }
}

impl Env {
    fn viol(&self, sig: String, what: String, case: J) {
        VBUF.with(|b| {
            let mut b = b.borrow_mut();
            if let Some(e) = b.iter_mut().find(|e| e.0 == sig) {
                e.1 += 1;
            } else {
                b.push((sig, 1, what, case));
            }
        })
    }
    fn value_case(&self, v: &Value) -> J {
        json!({"kind": "value", "type": v.mnemonic, "tier": tier_name(self.tier), "index": v.index, "desc": v.desc,
               "reference_rdata_len": v.wire.len(), "reference_rdata_head": hex(&v.wire[..v.wire.len().min(64)])})
    }
}

//------------ helpers around the subject ---------------------------------------

fn compose_vec<D: ComposeRecordData>(d: &D) -> Result<Vec<u8>, String> {
    guard(|| {
        let mut t = Vec::new();
        d.compose_rdata(&mut t).map(|_| t).map_err(|_| "append error".to_string())
    })
    .and_then(|r| r)
}

fn compose_canonical_vec<D: ComposeRecordData>(d: &D) -> Result<Vec<u8>, String> {
    guard(|| {
        let mut t = Vec::new();
        d.compose_canonical_rdata(&mut t).map(|_| t).map_err(|_| "append error".to_string())
    })
    .and_then(|r| r)
}

type PRd<'a> = AllRecordData<&'a [u8], ParsedName<&'a [u8]>>;

/// Parse stand-alone RDATA with a parser limited to exactly these octets.
fn parse_alone(rtype: u16, octets: &[u8]) -> Result<Result<(PRd<'_>, usize), String>, String> {
    guard(|| {
        let mut p = Parser::from_ref(octets);
        match PRd::parse_any_rdata(Rtype::from_int(rtype), &mut p) {
            Ok(d) => Ok((d, p.remaining())),
            Err(e) => Err(e.to_string()),
        }
    })
}

fn lowercase_names(wire: &[u8], names: &[(usize, usize)]) -> Vec<u8> {
    let mut out = wire.to_vec();
    for &(off, len) in names {
        // lower-case label contents only (length octets are < 64 anyway)
        let mut p = off;
        while p < off + len {
            let l = out[p] as usize;
            for b in &mut out[p + 1..p + 1 + l] {
                b.make_ascii_lowercase();
            }
            p += 1 + l;
        }
    }
    out
}

fn first_diff(a: &[u8], b: &[u8]) -> String {
    if a.len() != b.len() {
        let p = a.iter().zip(b).position(|(x, y)| x != y).unwrap_or(a.len().min(b.len()));
        format!("length {} vs {} (first difference at {p})", a.len(), b.len())
    } else {
        let p = a.iter().zip(b).position(|(x, y)| x != y).unwrap_or(0);
        format!("same length {}, first difference at octet {p}: {:02x} vs {:02x}", a.len(), a[p], b[p])
    }
}

/// Structural cause hints for known-suspicious value shapes, so that one
/// defect maps to one signature.
fn cause_hint(v: &Value) -> &'static str {
    match v.mnemonic {
        "ZONEMD" if v.wire.len() < 6 + 12 => "digest-shorter-than-12",
        "IPSECKEY" if v.desc.contains("key=[0B]") && !v.desc.contains(",alg=0,") => "algorithm-nonzero-and-key-empty",
        "TXT" if v.wire.is_empty() => "no-character-string",
        "CAA" if v.desc.contains("=<0B>") => "empty-tag",
        _ => "",
    }
}

fn err_class(e: &str) -> String {
    e.chars().take(48).collect()
}

//------------ the value oracle ---------------------------------------------------

#[derive(Clone, Copy, PartialEq, Eq, Debug)]
enum Target {
    Plain,
    Static,
    Tree,
    Hash,
}

const OWNER: &[u8] = b"\x01a\x00";

/// Build a message: optional preamble (a question per distinct embedded
/// name plus an NS record holding the first embedded name), then the record
/// under test as last record of the answer section.
fn build_message(v: &Rd, target: Target, preamble: &[Vec<u8>]) -> Result<Result<Vec<u8>, String>, String> {
    fn go<T: Composer + AsRef<[u8]>>(t: T, v: &Rd, preamble: &[Vec<u8>], fin: fn(T) -> Vec<u8>) -> Result<Vec<u8>, String> {
        let mb = MessageBuilder::from_target(t).map_err(|_| "from_target".to_string())?;
        let mut q = mb.question();
        for n in preamble {
            let name = Name::from_octets(n.as_slice()).map_err(|e| e.to_string())?;
            q.push((name, Rtype::A)).map_err(|e| format!("push question: {e}"))?;
        }
        let mut a = q.answer();
        let owner = Name::from_octets(OWNER).unwrap();
        if let Some(n) = preamble.first() {
            let name = Name::from_octets(n.as_slice()).map_err(|e| e.to_string())?;
            a.push((owner.clone(), 60u32, domain::rdata::Ns::new(name))).map_err(|e| format!("push preamble: {e}"))?;
        }
        a.push(Record::new(owner, Class::IN, Ttl::from_secs(3600), v)).map_err(|e| format!("push: {e}"))?;
        Ok(fin(a.finish()))
    }
    guard(|| match target {
        Target::Plain => go(Vec::new(), v, preamble, |t| t),
        Target::Static => go(StaticCompressor::new(Vec::new()), v, preamble, |t| t.into_target()),
        Target::Tree => go(TreeCompressor::new(Vec::new()), v, preamble, |t| t.into_target()),
        Target::Hash => go(HashCompressor::new(Vec::new()), v, preamble, |t| t.into_target()),
    })
}

fn check_value(env: &Env, v: &Value, lc: &mut Local) {
    let t = type_label(v.mnemonic);
    let case = || env.value_case(v);
    lc.inc(format!("{}:generated", v.mnemonic));
    let hint = cause_hint(v);

    // 1. compose == independent reference
    lc.ev();
    let c = match compose_vec(&v.data) {
        Ok(c) => c,
        Err(e) => {
            env.viol(format!("C05|{t}|compose_rdata|panic|{}", panic_class(&e)), format!("compose_rdata panicked on {}: {e}", v.desc), case());
            return;
        }
    };
    if c != v.wire {
        env.viol(
            format!("C05|{t}|compose_rdata|differs-from-rfc-reference-encoding|{}", if c.len() != v.wire.len() { "length" } else { "content" }),
            format!("compose_rdata of {} differs from the reference encoding: {}", v.desc, first_diff(&c, &v.wire)),
            case(),
        );
        return;
    }

    // 2. advertised length
    lc.ev();
    match guard(|| (v.data.rdlen(false), v.data.rdlen(true))) {
        Err(e) => {
            env.viol(format!("C05|{t}|rdlen|panic|{}", panic_class(&e)), format!("rdlen panicked on {}: {e}", v.desc), case());
            return;
        }
        Ok((plain, compressed)) => {
            match plain {
                Some(n) if n as usize != c.len() => {
                    env.viol(format!("C05|{t}|rdlen(false)|advertised!=written"), format!("rdlen(false)={n} but compose_rdata wrote {} octets for {}", c.len(), v.desc), case());
                    return;
                }
                Some(_) => lc.inc(format!("{}:rdlen-some", v.mnemonic)),
                None => lc.inc(format!("{}:rdlen-none", v.mnemonic)),
            }
            if let Some(n) = compressed {
                // a fixed length is advertised even for compressing targets:
                // then nothing may be compressed
                if n as usize != c.len() {
                    env.viol(format!("C05|{t}|rdlen(true)|advertised!=uncompressed-length"), format!("rdlen(true)={n}, uncompressed {} for {}", c.len(), v.desc), case());
                }
            }
        }
    }
    // length-prefixed forms
    lc.ev();
    for canonical in [false, true] {
        let r = guard(|| {
            let mut tgt = Vec::new();
            let r = if canonical { v.data.compose_canonical_len_rdata(&mut tgt) } else { v.data.compose_len_rdata(&mut tgt) };
            r.map(|_| tgt).map_err(|_| ())
        });
        let op = if canonical { "compose_canonical_len_rdata" } else { "compose_len_rdata" };
        match r {
            Ok(Ok(b)) => {
                if b.len() < 2 || u16::from_be_bytes([b[0], b[1]]) as usize != b.len() - 2 || b.len() - 2 != c.len() {
                    env.viol(format!("C05|{t}|{op}|prefix!=octets-that-follow"), format!("{op}: prefix {:?}, {} octets follow, for {}", &b[..b.len().min(2)], b.len().saturating_sub(2), v.desc), case());
                }
            }
            Ok(Err(())) => env.viol(format!("C05|{t}|{op}|append-error-on-vec"), v.desc.clone(), case()),
            Err(e) => env.viol(format!("C05|{t}|{op}|panic|{}", panic_class(&e)), format!("{op} panicked on {}: {e}", v.desc), case()),
        }
    }

    // 3. canonical form
    lc.ev();
    let expect_canon = if CANONICAL_LOWERCASE.contains(&v.rtype) { lowercase_names(&v.wire, &v.names) } else { v.wire.clone() };
    match compose_canonical_vec(&v.data) {
        Err(e) => env.viol(format!("C05|{t}|compose_canonical_rdata|panic|{}", panic_class(&e)), format!("{}: {e}", v.desc), case()),
        Ok(cc) => {
            if cc != expect_canon {
                let kind = if cc == v.wire {
                    "names-not-lowercased-but-rfc4034-6.2-lists-type"
                } else if cc == lowercase_names(&v.wire, &v.names) {
                    "names-lowercased-but-type-not-in-rfc4034-6.2+rfc6840-5.1-list"
                } else {
                    "differs-otherwise"
                };
                env.viol(format!("C05|{t}|compose_canonical_rdata|{kind}"), format!("canonical form of {}: {}", v.desc, first_diff(&cc, &expect_canon)), case());
            } else if expect_canon != v.wire {
                lc.inc(format!("{}:canonical-lowercased", v.mnemonic));
            }
        }
    }

    // 4. parse(compose(v)) == v, stand-alone
    lc.ev();
    let mut ok = false;
    match parse_alone(v.rtype, &c) {
        Err(e) => env.viol(format!("C05|{t}|parse|panic|{}", panic_class(&e)), format!("parsing own compose of {} panicked: {e}", v.desc), case()),
        Ok(Err(e)) => env.viol(
            format!("C05|{t}|parse(compose(v))|rejected|{hint}"), // the error wording is not part of the class
            format!("the parser rejects what compose_rdata wrote for the constructor-accepted value {}: {e}", v.desc),
            case(),
        ),
        Ok(Ok((p, remaining))) => {
            let eq = guard(|| (p == v.data, v.data == p, p.rtype().to_int()));
            match eq {
                Err(e) => env.viol(format!("C05|{t}|eq|panic|{}", panic_class(&e)), format!("{}: {e}", v.desc), case()),
                Ok((a, b, rt)) => {
                    if remaining != 0 {
                        env.viol(format!("C05|{t}|parse(compose(v))|octets-left-unparsed"), format!("{remaining} octets left for {}", v.desc), case());
                    } else if !a || !b {
                        env.viol(format!("C05|{t}|parse(compose(v))|not-equal|{hint}"), format!("parse(compose(v)) != v for {} (p==v:{a}, v==p:{b}); parsed: {:?}", v.desc, p), case());
                    } else if rt != v.rtype {
                        env.viol(format!("C05|{t}|parse(compose(v))|rtype-changed"), format!("rtype {rt} for {}", v.desc), case());
                    } else if v.mnemonic.starts_with("TYPE") && !matches!(p, AllRecordData::Unknown(_)) {
                        env.viol(format!("C05|{t}|parse(compose(v))|unknown-type-not-opaque"), format!("{}: {:?}", v.desc, p), case());
                    } else {
                        match compose_vec(&p) {
                            Ok(c2) if c2 == c => ok = true,
                            Ok(c2) => env.viol(format!("C05|{t}|compose(parse(compose(v)))|octets-changed"), format!("{}: {}", v.desc, first_diff(&c2, &c)), case()),
                            Err(e) => env.viol(format!("C05|{t}|compose(parsed)|panic|{}", panic_class(&e)), format!("{}: {e}", v.desc), case()),
                        }
                    }
                }
            }
        }
    }
    if !ok {
        return;
    }
    lc.inc(format!("{}:roundtripped", v.mnemonic));
    if !v.wire.is_empty() {
        let mut key = v.rtype.to_be_bytes().to_vec();
        key.extend_from_slice(&v.wire);
        lc.distinct.push(fnv(&key));
    }

    // 4a. other representations and entry points of the same value
    check_variants(env, v, &c, &expect_canon, lc);

    // 4b. the same value through the ZoneRecordData dispatch
    {
        let z: Result<rgen::ZRd, Rd> = v.data.clone().into();
        if let Ok(z) = z {
            lc.ev();
            let r = guard(|| -> Result<(), String> {
                let mut t1 = Vec::new();
                z.compose_rdata(&mut t1).map_err(|_| "append")?;
                if t1 != c {
                    return Err(format!("compose_rdata differs: {}", first_diff(&t1, &c)));
                }
                let mut t2 = Vec::new();
                z.compose_canonical_rdata(&mut t2).map_err(|_| "append")?;
                if t2 != expect_canon {
                    return Err(format!("compose_canonical_rdata differs: {}", first_diff(&t2, &expect_canon)));
                }
                if z.rdlen(false) != v.data.rdlen(false) || z.rdlen(true) != v.data.rdlen(true) {
                    return Err("rdlen differs from AllRecordData".into());
                }
                let mut p = Parser::from_ref(c.as_slice());
                use domain::base::rdata::ParseRecordData;
                let pz = domain::rdata::ZoneRecordData::<&[u8], ParsedName<&[u8]>>::parse_rdata(Rtype::from_int(v.rtype), &mut p)
                    .map_err(|e| format!("parse_rdata: {e}"))?
                    .ok_or("parse_rdata returned None")?;
                if p.remaining() != 0 {
                    return Err("octets left unparsed".into());
                }
                if !(pz == z && z == pz) {
                    return Err("parse(compose(z)) != z".into());
                }
                if pz.rtype().to_int() != v.rtype {
                    return Err("rtype changed".into());
                }
                Ok(())
            });
            match r {
                Ok(Ok(())) => lc.inc(format!("{}:zone-roundtripped", v.mnemonic)),
                Ok(Err(e)) => env.viol(format!("C05|{t}|ZoneRecordData|{}", e.split(':').next().unwrap_or("")), format!("{}: {e}", v.desc), case()),
                Err(e) => env.viol(format!("C05|{t}|ZoneRecordData|panic|{}", panic_class(&e)), format!("{}: {e}", v.desc), case()),
            }
        }
    }

    // 4c. the same value through every holder (references, records, tuples)
    check_holders(env, v, &c, &expect_canon, lc);

    // 5. whole messages
    let mut embedded: Vec<Vec<u8>> = Vec::new();
    for &(off, len) in &v.names {
        let n = v.wire[off..off + len].to_vec();
        if n.len() > 1 && !embedded.contains(&n) {
            embedded.push(n);
        }
    }
    let pre_len: usize = embedded.iter().map(|n| n.len() + 4).sum::<usize>() + embedded.first().map(|n| 3 + 10 + n.len()).unwrap_or(0);
    if 12 + pre_len + OWNER.len() + 10 + v.wire.len() > 65535 {
        lc.inc(format!("{}:message-skipped-over-65535", v.mnemonic));
        return;
    }
    let configs: &[(Target, bool)] = &[
        (Target::Plain, false),
        (Target::Static, false),
        (Target::Static, true),
        (Target::Tree, true),
        (Target::Hash, true),
        (Target::Plain, true),
    ];
    for &(target, with_pre) in configs {
        if with_pre && embedded.is_empty() && target != Target::Static {
            continue;
        }
        lc.ev();
        let cfg = format!("{target:?}{}", if with_pre { "+names-present" } else { "" });
        let pre: &[Vec<u8>] = if with_pre { &embedded } else { &[] };
        let msg = match build_message(&v.data, target, pre) {
            Err(e) => {
                env.viol(format!("C05|{t}|message-push|panic|{}", panic_class(&e)), format!("[{cfg}] {}: {e}", v.desc), case());
                continue;
            }
            Ok(Err(e)) => {
                env.viol(format!("C05|{t}|message-push|refused"), format!("[{cfg}] pushing {} failed: {e}", v.desc), case());
                continue;
            }
            Ok(Ok(m)) => m,
        };
        check_message(env, v, &msg, target, &cfg, lc);
    }
}

/// Independent look at the message, then the library's reading of it.
fn check_message(env: &Env, v: &Value, msg: &[u8], target: Target, cfg: &str, lc: &mut Local) {
    let t = type_label(v.mnemonic);
    let case = || {
        let mut c = env.value_case(v);
        c["config"] = json!(cfg);
        if msg.len() <= 2048 {
            c["message"] = json!(hex(msg));
        }
        c
    };
    let raw = match w::read_message(msg) {
        Ok(r) => r,
        Err(e) => {
            env.viol(format!("C05|{t}|message|independent-reader-rejects"), format!("[{cfg}] {}: {e}", v.desc), case());
            return;
        }
    };
    let rec = match raw.sections[0].last() {
        Some(r) => r,
        None => {
            env.viol(format!("C05|{t}|message|record-missing"), format!("[{cfg}] {}", v.desc), case());
            return;
        }
    };
    // RDLENGTH == octets that follow (the record is the last thing written)
    if raw.end != msg.len() || rec.rtype != v.rtype {
        env.viol(
            format!("C05|{t}|message|rdlength!=octets-that-follow"),
            format!("[{cfg}] {}: RDLENGTH {} but {} octets follow the RDLENGTH field (type {})", v.desc, rec.rdata.len(), msg.len() - rec.rdata_pos, rec.rtype),
            case(),
        );
        return;
    }
    // walk the RDATA against the reference: non-name octets identical,
    // names equal; compression only where RFC 3597 §4 allows it
    let mut wo = 0usize; // offset in reference
    let mut mo = rec.rdata_pos; // offset in message
    let mut compressed_any = false;
    let mut bad: Option<String> = None;
    for &(off, len) in &v.names {
        let lit = off - wo;
        if msg.get(mo..mo + lit) != Some(&v.wire[wo..off]) {
            bad = Some(format!("octets before the name at reference offset {off} differ"));
            break;
        }
        mo += lit;
        let mut ptrs = Vec::new();
        match w::read_name(msg, mo, &mut ptrs) {
            Err(e) => {
                bad = Some(format!("name at message offset {mo} unreadable: {e}"));
                break;
            }
            Ok((labels, next)) => {
                let expect = w::validate_name(&v.wire[off..off + len], true).expect("reference name");
                if ptrs.is_empty() {
                    if labels != expect {
                        bad = Some(format!("uncompressed name at reference offset {off} differs"));
                        break;
                    }
                } else {
                    compressed_any = true;
                    if !w::labels_eq_ci(&labels, &expect) {
                        bad = Some(format!("compressed name at reference offset {off} expands to a different name"));
                        break;
                    }
                }
                mo = next;
                wo = off + len;
            }
        }
    }
    if bad.is_none() && msg.get(mo..) != Some(&v.wire[wo..]) {
        bad = Some("octets after the last name differ".into());
    }
    if let Some(b) = bad {
        env.viol(format!("C05|{t}|message|rdata-differs-from-reference"), format!("[{cfg}] {}: {b}", v.desc), case());
        return;
    }
    if compressed_any {
        lc.inc(format!("{}:compressed[{cfg}]", v.mnemonic));
        if target == Target::Plain {
            env.viol(format!("C05|{t}|message|name-compressed-on-non-compressing-target"), format!("[{cfg}] {}", v.desc), case());
        } else if !MAY_COMPRESS.contains(&v.rtype) {
            env.viol(
                format!("C05|{t}|message|name-compressed-in-type-outside-rfc3597-4-well-known-list"),
                format!("[{cfg}] {}: a domain name inside the RDATA was written as a compression pointer; RFC 3597 §4 allows that only for types defined in RFC 1035", v.desc),
                case(),
            );
        }
    }
    // the library reads it back
    let r = guard(|| -> Result<(bool, bool), String> {
        let m = Message::from_octets(msg).map_err(|e| format!("from_octets: {e}"))?;
        let last = m.answer().map_err(|e| format!("answer(): {e}"))?.last().ok_or("no record")?.map_err(|e| format!("record: {e}"))?;
        let rec = last.to_any_record::<PRd>().map_err(|e| format!("to_any_record: {e}"))?;
        Ok((rec.data() == &v.data, &v.data == rec.data()))
    });
    match r {
        Err(e) => env.viol(format!("C05|{t}|message-read|panic|{}", panic_class(&e)), format!("[{cfg}] {}: {e}", v.desc), case()),
        Ok(Err(e)) => env.viol(format!("C05|{t}|message-read|rejected|{}", err_class(&e)), format!("[{cfg}] {}: {e}", v.desc), case()),
        Ok(Ok((a, b))) => {
            if !a || !b {
                env.viol(format!("C05|{t}|message-read|not-equal"), format!("[{cfg}] record read back != pushed value for {}", v.desc), case());
            } else {
                lc.inc(format!("{}:message-roundtrips", v.mnemonic));
            }
        }
    }
}


//------------ representations and second entry points -----------------------------------

type BRd = AllRecordData<bytes::Bytes, Name<bytes::Bytes>>;
type BZRd = domain::rdata::ZoneRecordData<bytes::Bytes, Name<bytes::Bytes>>;
type PN<'a> = ParsedName<&'a [u8]>;
type VN = Name<Vec<u8>>;
type BN = Name<bytes::Bytes>;

/// Checks for one concrete record data type `inner` (a clone of the enum's
/// payload): its own ComposeRecordData impl, `From` into both enums, its own
/// ParseRecordData impl (right type: equal value; other type: `None` and an
/// untouched parser), its OctetsFrom impl into `Bytes`, and (name-bearing
/// types) its FlattenInto impl on the parsed value.
macro_rules! typed {
    ($v:ident, $c:ident, $canon:ident, $inner:ident, $parsed:ty, $bytes:ty, $owned:ty, $zone:tt, $flatten:tt, $entry:tt) => {{
        #[allow(unused_imports)]
        use domain::base::rdata::ParseRecordData;
        #[allow(unused_imports)]
        use octseq::OctetsFrom;
        let inner = $inner;
        let mut t = Vec::new();
        inner.compose_rdata(&mut t).map_err(|_| "append")?;
        if &t != $c {
            return Err(format!("own-compose_rdata|differs: {}", first_diff(&t, $c)));
        }
        let mut t = Vec::new();
        inner.compose_canonical_rdata(&mut t).map_err(|_| "append")?;
        if &t != $canon {
            return Err(format!("own-compose_canonical_rdata|differs: {}", first_diff(&t, $canon)));
        }
        if inner.rdlen(false) != $v.data.rdlen(false) || inner.rdlen(true) != $v.data.rdlen(true) || inner.rtype().to_int() != $v.rtype {
            return Err("own-rdlen-or-rtype|differs-from-enum".into());
        }
        // a reference to the value is record data, too
        let r = &inner;
        let mut t = Vec::new();
        r.compose_canonical_rdata(&mut t).map_err(|_| "append")?;
        let mut t2 = Vec::new();
        r.compose_rdata(&mut t2).map_err(|_| "append")?;
        if &t != $canon || &t2 != $c || r.rdlen(false) != inner.rdlen(false) || r.rtype() != inner.rtype() {
            return Err("impl-for-reference|differs".into());
        }
        if !(Rd::from(inner.clone()) == $v.data) {
            return Err("From-into-AllRecordData|not-equal".into());
        }
        typed!(@zone $zone, inner, $c);
        typed!(@entry $entry, $v, $c, inner, $parsed, $bytes, $owned, $flatten);
    }};
    (@entry true, $v:ident, $c:ident, $inner:ident, $parsed:ty, $bytes:ty, $owned:ty, $flatten:tt) => {
        let inner = $inner;
        // the type's own parser
        let mut p = Parser::from_ref($c.as_slice());
        let got = <$parsed as ParseRecordData<[u8]>>::parse_rdata(Rtype::from_int($v.rtype), &mut p).map_err(|e| format!("own-parse_rdata|rejected: {e}"))?;
        let got = got.ok_or("own-parse_rdata|returned-None-for-its-own-type")?;
        if p.remaining() != 0 {
            return Err("own-parse_rdata|octets-left-unparsed".into());
        }
        if !(got == inner && inner == got) {
            return Err("own-parse_rdata|not-equal".into());
        }
        let mut p2 = Parser::from_ref($c.as_slice());
        let other = if $v.rtype == 65281 { 65282 } else { 65281 };
        match <$parsed as ParseRecordData<[u8]>>::parse_rdata(Rtype::from_int(other), &mut p2) {
            Ok(None) if p2.pos() == 0 => {}
            Ok(None) => return Err("own-parse_rdata|other-type-parser-advanced".into()),
            Ok(Some(_)) => return Err("own-parse_rdata|other-type-accepted".into()),
            Err(e) => return Err(format!("own-parse_rdata|other-type-error: {e}")),
        }
        // octets conversion
        let b = <$bytes>::try_octets_from(inner.clone()).map_err(|_| "own-octets_from|failed")?;
        let mut t = Vec::new();
        b.compose_rdata(&mut t).map_err(|_| "append")?;
        if &t != $c || !(b == inner && inner == b) {
            return Err("own-octets_from(Bytes)|value-changed".into());
        }
        typed!(@flatten $flatten, got, inner, $c, $owned);
    };
    (@entry false, $v:ident, $c:ident, $inner:ident, $parsed:ty, $bytes:ty, $owned:ty, $flatten:tt) => {
        let _ = &$inner;
    };
    (@never) => {{    }};
    (@zone true, $inner:ident, $c:ident) => {
        let z = rgen::ZRd::from($inner.clone());
        let mut t = Vec::new();
        z.compose_rdata(&mut t).map_err(|_| "append")?;
        if &t != $c {
            return Err("From-into-ZoneRecordData|compose-differs".into());
        }
    };
    (@zone false, $inner:ident, $c:ident) => {};
    (@flatten true, $got:ident, $inner:ident, $c:ident, $owned:ty) => {
        use domain::base::name::FlattenInto;
        let f: $owned = $got.try_flatten_into().map_err(|_: std::convert::Infallible| String::new())?;
        let mut t = Vec::new();
        f.compose_rdata(&mut t).map_err(|_| "append")?;
        if &t != $c || !(f == $inner) {
            return Err("own-flatten_into|value-changed".into());
        }
    };
    (@flatten false, $got:ident, $inner:ident, $c:ident, $owned:ty) => {
        let _ = &$got;
    };
}

fn typed_checks(v: &Value, c: &Vec<u8>, canon: &Vec<u8>) -> Result<(), String> {
    use domain::rdata::*;
    macro_rules! name1 {
        ($x:ident, $t:ident) => {{
            let inner = $x.clone();
            typed!(v, c, canon, inner, $t<PN>, $t<BN>, $t<VN>, true, true, true)
        }};
    }
    macro_rules! octs1 {
        ($x:ident, $t:ident, $zone:tt, $entry:tt) => {{
            let inner = $x.clone();
            typed!(v, c, canon, inner, $t<&[u8]>, $t<bytes::Bytes>, $t<Vec<u8>>, $zone, false, $entry)
        }};
    }
    macro_rules! both {
        ($x:ident, $t:ident, $zone:tt, $flatten:tt, $entry:tt) => {{
            let inner = $x.clone();
            typed!(v, c, canon, inner, $t<&[u8], PN>, $t<bytes::Bytes, BN>, $t<Vec<u8>, VN>, $zone, $flatten, $entry)
        }};
    }
    match &v.data {
        Rd::A(x) => {
            let inner = x.clone();
            typed!(v, c, canon, inner, A, A, A, true, false, true)
        }
        Rd::Aaaa(x) => {
            let inner = x.clone();
            typed!(v, c, canon, inner, Aaaa, Aaaa, Aaaa, true, false, true)
        }
        Rd::Ns(x) => name1!(x, Ns),
        Rd::Md(x) => name1!(x, Md),
        Rd::Mf(x) => name1!(x, Mf),
        Rd::Cname(x) => name1!(x, Cname),
        Rd::Mb(x) => name1!(x, Mb),
        Rd::Mg(x) => name1!(x, Mg),
        Rd::Mr(x) => name1!(x, Mr),
        Rd::Ptr(x) => name1!(x, Ptr),
        Rd::Dname(x) => name1!(x, Dname),
        Rd::Minfo(x) => name1!(x, Minfo),
        Rd::Mx(x) => name1!(x, Mx),
        Rd::Soa(x) => name1!(x, Soa),
        Rd::Rp(x) => name1!(x, Rp),
        Rd::Srv(x) => name1!(x, Srv),
        Rd::Hinfo(x) => octs1!(x, Hinfo, true, true),
        Rd::Txt(x) => octs1!(x, Txt, true, true),
        Rd::Null(x) => octs1!(x, Null, false, true),
        Rd::Caa(x) => {
            let inner = x.clone();
            typed!(v, c, canon, inner, Caa<&[u8]>, Caa<bytes::Bytes>, Caa<Vec<u8>>, true, true, true)
        }
        Rd::Cds(x) => octs1!(x, Cds, true, true),
        Rd::Cdnskey(x) => octs1!(x, Cdnskey, true, true),
        Rd::Dnskey(x) => octs1!(x, Dnskey, true, true),
        Rd::Ds(x) => octs1!(x, Ds, true, true),
        Rd::Nsec3(x) => octs1!(x, Nsec3, true, true),
        Rd::Nsec3param(x) => octs1!(x, Nsec3param, true, true),
        Rd::Openpgpkey(x) => octs1!(x, Openpgpkey, true, false),
        Rd::Sshfp(x) => octs1!(x, Sshfp, true, false),
        Rd::Tlsa(x) => octs1!(x, Tlsa, true, false),
        Rd::Zonemd(x) => octs1!(x, Zonemd, true, false),
        Rd::Rrsig(x) => both!(x, Rrsig, true, true, true),
        Rd::Nsec(x) => both!(x, Nsec, true, true, true),
        Rd::Naptr(x) => both!(x, Naptr, true, true, true),
        Rd::Ipseckey(x) => both!(x, Ipseckey, true, false, false),
        Rd::Svcb(x) => both!(x, Svcb, true, false, true),
        Rd::Https(x) => both!(x, Https, true, false, true),
        Rd::Tsig(x) => both!(x, Tsig, false, true, true),
        _ => {}
    }
    Ok(())
}

/// Independent decoding of an RFC 4034 §4.1.2 bitmap into a sorted type list.
fn decode_bitmap(mut b: &[u8]) -> Option<Vec<u16>> {
    let mut out = Vec::new();
    while !b.is_empty() {
        let (win, len) = (*b.first()? as u16, *b.get(1)? as usize);
        let bits = b.get(2..2 + len)?;
        for (i, oct) in bits.iter().enumerate() {
            for bit in 0..8 {
                if oct & (0x80 >> bit) != 0 {
                    out.push((win << 8) | (i as u16 * 8 + bit));
                }
            }
        }
        b = &b[2 + len..];
    }
    Some(out)
}

/// Type-specific second entry points, decoders and setters.
fn typed_extras(v: &Value, c: &Vec<u8>, canon: &Vec<u8>) -> Result<(), String> {
    use domain::rdata::dnssec::{ProtoRrsig, RtypeBitmap};
    let check_bitmap = |bm: &RtypeBitmap<Vec<u8>>, wire: &[u8]| -> Result<(), String> {
        let expect = decode_bitmap(wire).ok_or("reference bitmap undecodable")?;
        let got: Vec<u16> = bm.iter().take(70_000).map(|t| t.to_int()).collect();
        if got != expect {
            return Err(format!("RtypeBitmap.iter|differs-from-independent-decoding: {got:?} vs {expect:?}"));
        }
        if bm.is_empty() != expect.is_empty() || bm.as_slice() != wire {
            return Err("RtypeBitmap.is_empty/as_slice|wrong".into());
        }
        for probe in expect.iter().cloned().chain([0u16, 1, 2, 255, 256, 257, 65534, 65535]) {
            if bm.contains(Rtype::from_int(probe)) != expect.contains(&probe) {
                return Err(format!("RtypeBitmap.contains|wrong for type {probe}"));
            }
        }
        Ok(())
    };
    match &v.data {
        Rd::Rrsig(x) => {
            let (off, len) = v.names[0];
            let proto = ProtoRrsig::new(x.type_covered(), x.algorithm(), x.labels(), x.original_ttl(), x.expiration(), x.inception(), x.key_tag(), x.signer_name().clone());
            let mut t = Vec::new();
            proto.compose(&mut t).map_err(|_| "append")?;
            if t != c[..off + len] {
                return Err(format!("ProtoRrsig.compose|differs-from-rrsig-prefix: {}", first_diff(&t, &c[..off + len])));
            }
            let mut t = Vec::new();
            proto.compose_canonical(&mut t).map_err(|_| "append")?;
            if t != canon[..off + len] {
                return Err(format!("ProtoRrsig.compose_canonical|differs: {}", first_diff(&t, &canon[..off + len])));
            }
            let sig = c[off + len..].to_vec();
            match proto.clone().into_rrsig(sig) {
                Ok(r) if &r == x => {}
                Ok(_) => return Err("ProtoRrsig.into_rrsig|not-equal".into()),
                Err(_) => return Err("ProtoRrsig.into_rrsig|refused".into()),
            }
            let mut y = x.clone();
            y.set_signature(vec![0xAB, 0xCD]);
            let mut t = Vec::new();
            y.compose_rdata(&mut t).map_err(|_| "append")?;
            if t != [&c[..off + len], &[0xAB, 0xCD][..]].concat() {
                return Err("Rrsig.set_signature|compose-differs".into());
            }
        }
        Rd::Nsec(x) => {
            let (off, len) = v.names[0];
            check_bitmap(x.types(), &c[off + len..])?;
            let mut y = x.clone();
            y.set_next_name(Name::from_octets(vec![1, b'Z', 0]).unwrap());
            let mut t = Vec::new();
            y.compose_rdata(&mut t).map_err(|_| "append")?;
            if t != [&[1u8, b'Z', 0][..], &c[off + len..]].concat() {
                return Err("Nsec.set_next_name|compose-differs".into());
            }
        }
        Rd::Nsec3(x) => {
            let salt_len = c[4] as usize;
            let hash_len = c[5 + salt_len] as usize;
            let bm_at = 6 + salt_len + hash_len;
            check_bitmap(x.types(), &c[bm_at..])?;
            if x.salt().as_slice() != &c[5..5 + salt_len] || x.next_owner().as_slice() != &c[6 + salt_len..bm_at] {
                return Err("Nsec3.salt/next_owner|differ-from-reference".into());
            }
            let mut y = x.clone();
            y.set_next_owner(domain::rdata::nsec3::OwnerHash::from_octets(vec![7, 7]).unwrap());
            y.set_types(RtypeBitmap::from_octets(vec![0, 1, 0x40]).unwrap());
            let mut t = Vec::new();
            y.compose_rdata(&mut t).map_err(|_| "append")?;
            if t != [&c[..5 + salt_len], &[2u8, 7, 7, 0, 1, 0x40][..]].concat() {
                return Err("Nsec3.set_next_owner/set_types|compose-differs".into());
            }
        }
        Rd::Nsec3param(x) => {
            let mut y = x.clone();
            y.set_opt_out_flag();
            let mut t = Vec::new();
            y.compose_rdata(&mut t).map_err(|_| "append")?;
            let mut e = c.clone();
            e[1] |= 1;
            if t != e || !y.opt_out_flag() {
                return Err("Nsec3param.set_opt_out_flag|compose-differs".into());
            }
        }
        Rd::Aaaa(x) => {
            let mut y = x.clone();
            y.set_addr(std::net::Ipv6Addr::from([9u8; 16]));
            let mut t = Vec::new();
            y.compose_rdata(&mut t).map_err(|_| "append")?;
            if t != [9u8; 16] {
                return Err("Aaaa.set_addr|compose-differs".into());
            }
        }
        Rd::Dnskey(x) => {
            let y: domain::rdata::Dnskey<bytes::Bytes> = x.clone().convert();
            let mut t = Vec::new();
            y.compose_rdata(&mut t).map_err(|_| "append")?;
            if &t != c || !(&y == x) {
                return Err("Dnskey.convert|value-changed".into());
            }
        }
        Rd::Txt(x) => {
            // independent split into character strings
            let mut strings: Vec<&[u8]> = Vec::new();
            let mut p = 0;
            while p < c.len() {
                let l = c[p] as usize;
                strings.push(&c[p + 1..p + 1 + l]);
                p += 1 + l;
            }
            let got: Vec<Vec<u8>> = x.iter_charstrs().take(70_000).map(|s| s.as_slice().to_vec()).collect();
            if got.iter().map(|g| g.as_slice()).collect::<Vec<_>>() != strings {
                return Err("Txt.iter_charstrs|differs-from-independent-split".into());
            }
            let got2: Vec<&[u8]> = x.iter().take(70_000).collect();
            if got2 != strings {
                return Err("Txt.iter|differs-from-independent-split".into());
            }
            let text: Vec<u8> = x.text();
            if text != strings.concat() || x.len() != c.len() {
                return Err("Txt.text/len|differs-from-independent-split".into());
            }
        }
        Rd::Svcb(_) | Rd::Https(_) => {
            // every parameter through its typed parser (AllValues)
            use domain::rdata::svcb::{ComposeSvcParamValue, SvcParamValue};
            let (off, len) = v.names[0];
            let mut reference: Vec<(u16, Vec<u8>)> = Vec::new();
            let mut p = off + len;
            while p < c.len() {
                let key = u16::from_be_bytes([c[p], c[p + 1]]);
                let l = u16::from_be_bytes([c[p + 2], c[p + 3]]) as usize;
                reference.push((key, c[p + 4..p + 4 + l].to_vec()));
                p += 4 + l;
            }
            let mut parser = Parser::from_ref(c.as_slice());
            let parsed = PRd::parse_any_rdata(Rtype::from_int(v.rtype), &mut parser).map_err(|e| e.to_string())?;
            let params = match &parsed {
                AllRecordData::Svcb(s) => s.params(),
                AllRecordData::Https(s) => s.params(),
                _ => return Err("not SVCB".into()),
            };
            let mut got: Vec<(u16, Vec<u8>)> = Vec::new();
            for item in params.iter_all().take(70_000) {
                let item = item.map_err(|e| {
                    let key = reference.get(got.len()).map(|r| r.0).unwrap_or(0);
                    let vlen = reference.get(got.len()).map(|r| r.1.len()).unwrap_or(0);
                    format!("SvcParams.iter_all|typed-value-parser-rejects-own-compose|key={key}|{}: {e}", if vlen == 0 { "empty-value" } else { "non-empty-value" })
                })?;
                let mut t = Vec::new();
                item.compose_value(&mut t).map_err(|_| "append")?;
                if item.compose_len() as usize != t.len() {
                    return Err(format!("SvcParamValue.compose_len|advertised!=written: key {}", item.key().to_int()));
                }
                got.push((item.key().to_int(), t));
            }
            if got != reference {
                return Err(format!("SvcParams.iter_all|differs-from-independent-split: {} vs {} parameters", got.len(), reference.len()));
            }
            let raw: Vec<(u16, Vec<u8>)> = params.iter_raw().take(70_000).map(|u| (u.key().to_int(), u.as_slice().to_vec())).collect();
            if raw != reference {
                return Err("SvcParams.iter_raw|differs-from-independent-split".into());
            }
        }
        _ => {}
    }
    Ok(())
}

fn check_variants(env: &Env, v: &Value, c: &Vec<u8>, canon: &Vec<u8>, lc: &mut Local) {
    let t = type_label(v.mnemonic);
    let case = || env.value_case(v);
    // enum-level conversions
    lc.ev();
    let r = guard(|| -> Result<(), String> {
        use domain::base::name::FlattenInto;
        use octseq::OctetsFrom;
        let b = BRd::try_octets_from(v.data.clone()).map_err(|_| "AllRecordData-octets_from(Bytes)|failed")?;
        let mut t1 = Vec::new();
        b.compose_rdata(&mut t1).map_err(|_| "append")?;
        let mut t2 = Vec::new();
        b.compose_canonical_rdata(&mut t2).map_err(|_| "append")?;
        if &t1 != c || &t2 != canon || !(b == v.data && v.data == b) || b.rtype().to_int() != v.rtype {
            return Err("AllRecordData-octets_from(Bytes)|value-changed".into());
        }
        let back = Rd::try_octets_from(b).map_err(|_| "AllRecordData-octets_from(Vec)|failed")?;
        if !(back == v.data) {
            return Err("AllRecordData-octets_from(Vec)|value-changed".into());
        }
        let mut parser = Parser::from_ref(c.as_slice());
        let parsed = PRd::parse_any_rdata(Rtype::from_int(v.rtype), &mut parser).map_err(|e| e.to_string())?;
        let flat: Rd = parsed.try_flatten_into().map_err(|_: std::convert::Infallible| String::new())?;
        let mut t3 = Vec::new();
        flat.compose_rdata(&mut t3).map_err(|_| "append")?;
        if &t3 != c || !(flat == v.data) {
            return Err("AllRecordData-flatten_into|value-changed".into());
        }
        let z: Result<rgen::ZRd, Rd> = v.data.clone().into();
        if let Ok(z) = z {
            let bz = BZRd::try_octets_from(z.clone()).map_err(|_| "ZoneRecordData-octets_from(Bytes)|failed")?;
            let mut t4 = Vec::new();
            bz.compose_rdata(&mut t4).map_err(|_| "append")?;
            if &t4 != c || !(bz == z) {
                return Err("ZoneRecordData-octets_from(Bytes)|value-changed".into());
            }
            use domain::base::rdata::ParseRecordData;
            let mut parser = Parser::from_ref(c.as_slice());
            let pz = domain::rdata::ZoneRecordData::<&[u8], ParsedName<&[u8]>>::parse_rdata(Rtype::from_int(v.rtype), &mut parser).map_err(|e| e.to_string())?.ok_or("None")?;
            let fz: rgen::ZRd = pz.try_flatten_into().map_err(|_: std::convert::Infallible| String::new())?;
            let mut t5 = Vec::new();
            fz.compose_rdata(&mut t5).map_err(|_| "append")?;
            if &t5 != c || !(fz == z) {
                return Err("ZoneRecordData-flatten_into|value-changed".into());
            }
        }
        Ok(())
    });
    match r {
        Ok(Ok(())) => lc.inc(format!("{}:conversions-ok", v.mnemonic)),
        Ok(Err(e)) => env.viol(format!("C05|{t}|representation|{}", e.split(':').next().unwrap_or("")), format!("{}: {e}", v.desc), case()),
        Err(e) => env.viol(format!("C05|{t}|representation|panic|{}", panic_class(&e)), format!("{}: {e}", v.desc), case()),
    }
    // per-type entry points
    lc.ev();
    match guard(|| typed_checks(v, c, canon)) {
        Ok(Ok(())) => lc.inc(format!("{}:typed-ok", v.mnemonic)),
        Ok(Err(e)) => env.viol(format!("C05|{t}|typed|{}", e.split(':').next().unwrap_or("")), format!("{}: {e}", v.desc), case()),
        Err(e) => env.viol(format!("C05|{t}|typed|panic|{}", panic_class(&e)), format!("{}: {e}", v.desc), case()),
    }
    lc.ev();
    match guard(|| typed_extras(v, c, canon)) {
        Ok(Ok(())) => {}
        Ok(Err(e)) => env.viol(format!("C05|{t}|typed-extra|{}", e.split(": ").next().unwrap_or("")), format!("{}: {e}", v.desc), case()),
        Err(e) => env.viol(format!("C05|{t}|typed-extra|panic|{}", panic_class(&e)), format!("{}: {e}", v.desc), case()),
    }
}

//------------ holders: the way the value is held when the traits are used -----------
//
// The record data traits are implemented for the concrete types, for the two
// enums, and - through blanket impls - for references to all of them;
// `Record<N, D>` and the `ComposeRecord` tuples hold the data by value or by
// reference and forward to it (the tuples re-wrap it as `Record<&N, &D>`).
// Which impl runs is decided by the type the caller holds, so every value is
// sent through every holder. Oracle: each route reports the record type and
// the lengths of the direct call and writes the octets of the direct call
// (which step 1 compared with the reference encoding); the canonical routes
// write the harness's own canonical expectation; records are the owner
// (lower-cased in the canonical form), type, class, TTL, RDLENGTH and those
// octets.

const HOLDER_OWNER: &[u8] = b"\x03WwW\x07ExAmple\x00";
const HOLDER_OWNER_LOWER: &[u8] = b"\x03www\x07example\x00";
const HOLDER_TTL: u32 = 0x0102_0304;
/// not IN, so that the class-less tuples (which say IN) are told apart
const HOLDER_CLASS: u16 = 3;

/// What the direct calls on the owned enum value gave, plus the expected
/// canonical form.
struct HoldExpect<'a> {
    rtype: u16,
    rdlen: (Option<u16>, Option<u16>),
    plain: &'a [u8],
    canon: &'a [u8],
    /// the reference with all embedded names lower-cased (to name the cause)
    lowered: Vec<u8>,
    /// `[class CH record, canonical record, class IN record]` on a plain target
    rec: [Vec<u8>; 3],
    /// the record composed from `Record<Name, AllRecordData>` on a
    /// compressing target (differential reference for the other holders)
    rec_static: Vec<u8>,
    full: bool,
    /// output buffer shared by all routes of the value
    buf: std::cell::RefCell<Vec<u8>>,
}

fn holder_record(owner: &[u8], rtype: u16, class: u16, rdata: &[u8]) -> Vec<u8> {
    let mut r = owner.to_vec();
    r.extend_from_slice(&rtype.to_be_bytes());
    r.extend_from_slice(&class.to_be_bytes());
    r.extend_from_slice(&HOLDER_TTL.to_be_bytes());
    r.extend_from_slice(&(rdata.len() as u16).to_be_bytes());
    r.extend_from_slice(rdata);
    r
}

fn canon_cause(got: &[u8], e: &HoldExpect) -> &'static str {
    if e.canon != e.plain && got == e.plain {
        "names-not-lowercased"
    } else if e.canon == e.plain && got == e.lowered.as_slice() {
        "names-lowercased-but-type-not-listed"
    } else {
        "differs-from-expected-canonical-form"
    }
}

/// The trait methods of `R` itself - `R` is what the caller holds: a value
/// type, `&T`, `&&T`, an unsized `Opt<[u8]>`.
fn probe<R: ComposeRecordData + ?Sized>(route: &str, r: &R, e: &HoldExpect) -> Result<u64, String> {
    if <R as RecordData>::rtype(r).to_int() != e.rtype {
        return Err(format!("{route}|rtype|differs-from-direct-call: {}", <R as RecordData>::rtype(r).to_int()));
    }
    let l = (<R as ComposeRecordData>::rdlen(r, false), <R as ComposeRecordData>::rdlen(r, true));
    if l != e.rdlen {
        return Err(format!("{route}|rdlen|differs-from-direct-call: {l:?} vs {:?}", e.rdlen));
    }
    // one output buffer per value (large RDATA: no allocation per route)
    let mut buf = e.buf.borrow_mut();
    let t: &mut Vec<u8> = &mut buf;
    t.clear();
    <R as ComposeRecordData>::compose_rdata(r, t).map_err(|_| "append")?;
    if t != e.plain {
        return Err(format!("{route}|compose_rdata|differs-from-direct-call: {}", first_diff(t, e.plain)));
    }
    t.clear();
    <R as ComposeRecordData>::compose_canonical_rdata(r, t).map_err(|_| "append")?;
    if t != e.canon {
        return Err(format!("{route}|compose_canonical_rdata|{}: {}", canon_cause(t, e), first_diff(t, e.canon)));
    }
    t.clear();
    <R as ComposeRecordData>::compose_len_rdata(r, t).map_err(|_| "append")?;
    if t.len() < 2 || t[..2] != (e.plain.len() as u16).to_be_bytes() || &t[2..] != e.plain {
        return Err(format!("{route}|compose_len_rdata|differs-from-length-plus-direct-call: {} octets", t.len()));
    }
    t.clear();
    <R as ComposeRecordData>::compose_canonical_len_rdata(r, t).map_err(|_| "append")?;
    if t.len() < 2 || t[..2] != (e.canon.len() as u16).to_be_bytes() || &t[2..] != e.canon {
        let cause = if t.len() >= 2 { canon_cause(&t[2..], e) } else { "differs-from-expected-canonical-form" };
        return Err(format!("{route}|compose_canonical_len_rdata|{cause}: {} octets", t.len()));
    }
    Ok(1)
}

/// How a record is written in `record_routes`.
#[derive(Clone, Copy)]
enum RecOp {
    Compose,
    Canonical,
    /// `ComposeRecord::compose_record` of the holder itself
    Trait,
}

/// `d` inside `Record<N, D>`, `Record<&N, &D>`, `&Record`, the four
/// `ComposeRecord` tuples (and references to them) and the `From` impls that
/// turn tuples into records. `D` is a value type or a reference; the value is
/// handed from holder to holder and returned.
fn record_routes<D: ComposeRecordData>(route: &str, d: D, e: &HoldExpect, core: bool) -> Result<(D, u64), String> {
    use domain::base::record::ComposeRecord;
    let owner: VN = Name::from_octets(HOLDER_OWNER.to_vec()).map_err(|e| e.to_string())?;
    let class = Class::from_int(HOLDER_CLASS);
    let ttl = Ttl::from_secs(HOLDER_TTL);
    let mut n = 0u64;
    // expectation `idx`: 0 = class CH record, 1 = canonical record, 2 = class IN record
    let mut same = |what: &str, op: &str, got: &[u8], idx: usize| -> Result<(), String> {
        n += 1;
        if got == e.rec[idx].as_slice() {
            return Ok(());
        }
        let hdr = HOLDER_OWNER.len() + 10;
        let cause = if idx == 1 && got.len() > hdr && got[..HOLDER_OWNER.len()] == *HOLDER_OWNER_LOWER {
            canon_cause(&got[hdr..], e)
        } else if idx == 1 {
            "differs-from-expected-canonical-record"
        } else {
            "differs-from-header-plus-direct-call"
        };
        Err(format!("{route}/{what}|{op}|{cause}: {}", first_diff(got, &e.rec[idx])))
    };
    /// Record methods into the shared buffer.
    fn rec_into<'e, N: domain::base::name::ToName, D: ComposeRecordData>(rec: &Record<N, D>, op: RecOp, e: &'e HoldExpect) -> Result<std::cell::RefMut<'e, Vec<u8>>, String> {
        let mut buf = e.buf.borrow_mut();
        buf.clear();
        let t: &mut Vec<u8> = &mut buf;
        match op {
            RecOp::Compose => rec.compose(t),
            RecOp::Canonical => rec.compose_canonical(t),
            RecOp::Trait => <Record<N, D> as ComposeRecord>::compose_record(rec, t),
        }
        .map_err(|_| "append".to_string())?;
        Ok(buf)
    }
    /// `ComposeRecord` of any holder `T` into the shared buffer.
    fn trait_into<'e, T: ComposeRecord + ?Sized>(t: &T, e: &'e HoldExpect) -> Result<std::cell::RefMut<'e, Vec<u8>>, String> {
        let mut buf = e.buf.borrow_mut();
        buf.clear();
        <T as ComposeRecord>::compose_record(t, &mut *buf).map_err(|_| "append".to_string())?;
        Ok(buf)
    }
    /// ... and on a compressing target: the same octets as the record that
    /// holds the owned enum.
    fn static_same<T: ComposeRecord + ?Sized>(route: &str, what: &str, t: &T, e: &HoldExpect) -> Result<(), String> {
        let s = compose_record_static(t, e.plain.len() + 40)?;
        if s != e.rec_static {
            return Err(format!("{route}/{what}|compose_record-on-compressing-target|differs-from-record-holding-the-owned-enum: {}", first_diff(&s, &e.rec_static)));
        }
        Ok(())
    }

    // Record<N, D>
    let rec = Record::new(owner.clone(), class, ttl, d);
    same("Record<N,D>", "compose", &rec_into(&rec, RecOp::Compose, e)?, 0)?;
    same("Record<N,D>", "compose_canonical", &rec_into(&rec, RecOp::Canonical, e)?, 1)?;
    if rec.rtype().to_int() != e.rtype {
        return Err(format!("{route}/Record<N,D>|rtype|differs-from-direct-call"));
    }
    if core {
        return Ok((rec.into_data(), n));
    }
    same("Record<N,D>", "compose_record", &rec_into(&rec, RecOp::Trait, e)?, 0)?;
    same("&Record<N,D>", "compose_record", &trait_into(&&rec, e)?, 0)?;
    static_same(route, "Record<N,D>", &rec, e)?;
    // Record<&N, &D>: what the tuples build internally
    {
        let inner = Record::new(&owner, class, ttl, rec.data());
        same("Record<&N,&D>", "compose", &rec_into(&inner, RecOp::Compose, e)?, 0)?;
        same("Record<&N,&D>", "compose_canonical", &rec_into(&inner, RecOp::Canonical, e)?, 1)?;
        same("&Record<&N,&D>", "compose_record", &trait_into(&&inner, e)?, 0)?;
        static_same(route, "Record<&N,&D>", &inner, e)?;
    }
    let d = rec.into_data();

    // (N, Class, u32, D)
    let tup = (owner.clone(), class, HOLDER_TTL, d);
    same("(N,Class,u32,D)", "compose_record", &trait_into(&tup, e)?, 0)?;
    same("&(N,Class,u32,D)", "compose_record", &trait_into(&&tup, e)?, 0)?;
    let rec: Record<VN, D> = Record::from(tup);
    same("Record::from((N,Class,u32,D))", "compose_canonical", &rec_into(&rec, RecOp::Canonical, e)?, 1)?;
    let d = rec.into_data();

    // (N, Class, Ttl, D)
    let tup = (owner.clone(), class, ttl, d);
    same("(N,Class,Ttl,D)", "compose_record", &trait_into(&tup, e)?, 0)?;
    same("&(N,Class,Ttl,D)", "compose_record", &trait_into(&&tup, e)?, 0)?;
    static_same(route, "(N,Class,Ttl,D)", &tup, e)?;
    let rec: Record<VN, D> = Record::from(tup);
    same("Record::from((N,Class,Ttl,D))", "compose", &rec_into(&rec, RecOp::Compose, e)?, 0)?;
    let d = rec.into_data();

    // (N, u32, D): class IN
    let tup = (owner.clone(), HOLDER_TTL, d);
    same("(N,u32,D)", "compose_record", &trait_into(&tup, e)?, 2)?;
    same("&(N,u32,D)", "compose_record", &trait_into(&&tup, e)?, 2)?;
    let rec: Record<VN, D> = Record::from(tup);
    same("Record::from((N,u32,D))", "compose", &rec_into(&rec, RecOp::Compose, e)?, 2)?;
    let d = rec.into_data();

    // (N, Ttl, D): class IN
    let tup = (owner, ttl, d);
    same("(N,Ttl,D)", "compose_record", &trait_into(&tup, e)?, 2)?;
    same("&(N,Ttl,D)", "compose_record", &trait_into(&&tup, e)?, 2)?;
    let (_, _, d) = tup;
    Ok((d, n))
}

fn compose_record_static<T: domain::base::record::ComposeRecord + ?Sized>(t: &T, cap: usize) -> Result<Vec<u8>, String> {
    let mut out = StaticCompressor::new(Vec::with_capacity(cap));
    <T as domain::base::record::ComposeRecord>::compose_record(t, &mut out).map_err(|_| "append".to_string())?;
    Ok(out.into_target())
}

/// All holders of one representation `D` of the value.
fn holder_routes<D: ComposeRecordData + Clone>(level: &str, d: &D, e: &HoldExpect, containers: bool) -> Result<u64, String> {
    let mut n = 0;
    n += probe(&format!("{level}/T"), d, e)?;
    n += probe::<&D>(&format!("{level}/&T"), &d, e)?;
    n += probe::<&&D>(&format!("{level}/&&T"), &&d, e)?;
    n += record_routes(&format!("{level}/by-reference"), d, e, !containers)?.1;
    if containers {
        n += record_routes(&format!("{level}/by-value"), d.clone(), e, false)?.1;
        n += record_routes(&format!("{level}/by-reference-to-reference"), &d, e, false)?.1;
    }
    Ok(n)
}

/// Run `$body` with `$x` bound to a reference to the payload of the enum.
macro_rules! with_inner {
    ($e:expr, $x:ident => $body:expr, $none:expr) => {
        match $e {
            Rd::A($x) => $body,
            Rd::Cname($x) => $body,
            Rd::Hinfo($x) => $body,
            Rd::Mb($x) => $body,
            Rd::Md($x) => $body,
            Rd::Mf($x) => $body,
            Rd::Mg($x) => $body,
            Rd::Minfo($x) => $body,
            Rd::Mr($x) => $body,
            Rd::Mx($x) => $body,
            Rd::Ns($x) => $body,
            Rd::Ptr($x) => $body,
            Rd::Soa($x) => $body,
            Rd::Txt($x) => $body,
            Rd::Null($x) => $body,
            Rd::Aaaa($x) => $body,
            Rd::Caa($x) => $body,
            Rd::Cdnskey($x) => $body,
            Rd::Cds($x) => $body,
            Rd::Dname($x) => $body,
            Rd::Dnskey($x) => $body,
            Rd::Rrsig($x) => $body,
            Rd::Nsec($x) => $body,
            Rd::Ds($x) => $body,
            Rd::Ipseckey($x) => $body,
            Rd::Naptr($x) => $body,
            Rd::Nsec3($x) => $body,
            Rd::Nsec3param($x) => $body,
            Rd::Openpgpkey($x) => $body,
            Rd::Rp($x) => $body,
            Rd::Srv($x) => $body,
            Rd::Sshfp($x) => $body,
            Rd::Svcb($x) => $body,
            Rd::Https($x) => $body,
            Rd::Tlsa($x) => $body,
            Rd::Tsig($x) => $body,
            Rd::Zonemd($x) => $body,
            Rd::Opt($x) => $body,
            Rd::Unknown($x) => $body,
            _ => $none,
        }
    };
}

fn check_holders(env: &Env, v: &Value, c: &Vec<u8>, canon: &Vec<u8>, lc: &mut Local) {
    let t = type_label(v.mnemonic);
    let case = || env.value_case(v);
    // (the record around RDATA close to 65535 octets is longer than a message
    // may be; composing it into a plain octets target is defined all the same)
    // Route sets. Core (every representation of every value, both tiers):
    // T / &T / &&T and Record<N,&T>::compose / compose_canonical. Containers
    // (records by value / of && / all tuples / From / compressing target):
    // thorough tier: every representation of every value; quick tier: the
    // AllRecordData and concrete-type representations of values with RDATA
    // up to 512 octets (the containers are generic over the data type: what
    // they do with it does not depend on the representation).
    let all = !env.ctx.quick();
    let full = all || c.len() <= 512;
    let levels: &mut [(&str, u64)] = &mut [("enum-all", 0), ("enum-zone", 0), ("concrete", 0), ("parsed", 0), ("opt-slice", 0)];
    let r = guard(|| -> Result<(), String> {
        let rec_static = if full {
            let owned = Record::new(Name::from_octets(HOLDER_OWNER.to_vec()).map_err(|e| e.to_string())?, Class::from_int(HOLDER_CLASS), Ttl::from_secs(HOLDER_TTL), v.data.clone());
            compose_record_static(&owned, c.len() + 40)?
        } else {
            Vec::new()
        };
        let e = HoldExpect {
            rtype: v.rtype,
            rdlen: (v.data.rdlen(false), v.data.rdlen(true)),
            plain: c,
            canon,
            lowered: lowercase_names(&v.wire, &v.names),
            rec: [
                holder_record(HOLDER_OWNER, v.rtype, HOLDER_CLASS, c),
                holder_record(HOLDER_OWNER_LOWER, v.rtype, HOLDER_CLASS, canon),
                holder_record(HOLDER_OWNER, v.rtype, 1, c),
            ],
            rec_static,
            full,
            buf: std::cell::RefCell::new(Vec::with_capacity(c.len() + 40)),
        };
        levels[0].1 = holder_routes("AllRecordData", &v.data, &e, full)?;
        let z: Result<rgen::ZRd, Rd> = v.data.clone().into();
        if let Ok(z) = z {
            levels[1].1 = holder_routes("ZoneRecordData", &z, &e, all)?;
        }
        levels[2].1 = with_inner!(&v.data, x => holder_routes("concrete-type", x, &e, full)?, 0);
        // the value as the parser hands it out (octets and names borrowed)
        let mut parser = Parser::from_ref(c.as_slice());
        let parsed = PRd::parse_any_rdata(Rtype::from_int(v.rtype), &mut parser).map_err(|e| format!("parsed|parse_any_rdata|rejected: {e}"))?;
        levels[3].1 = holder_routes("parsed-AllRecordData", &parsed, &e, all)?;
        // OPT held as an unsized slice and as a borrowed view
        if let Rd::Opt(o) = &v.data {
            let s: &Opt<[u8]> = Opt::from_slice(c.as_slice()).map_err(|e| format!("Opt<[u8]>|from_slice|rejected: {e}"))?;
            levels[4].1 += probe::<Opt<[u8]>>("Opt<[u8]>/T", s, &e)?;
            let view = o.for_slice_ref();
            levels[4].1 += holder_routes("Opt::for_slice_ref", &view, &e, full)?;
            let view = s.for_slice_ref();
            levels[4].1 += probe("Opt<[u8]>::for_slice_ref/T", &view, &e)?;
        }
        Ok(())
    });
    lc.ev();
    match r {
        Ok(Ok(())) => {
            lc.inc(format!("{}:holders-ok", v.mnemonic));
            if full {
                lc.inc(format!("{}:holders-full", v.mnemonic));
            }
            for (level, n) in levels.iter() {
                if *n > 0 {
                    lc.add(format!("{}:holder-routes[{level}]", v.mnemonic), *n);
                    lc.add(format!("{}:holder-routes", v.mnemonic), *n);
                }
            }
            if levels[2].1 == 0 {
                lc.inc(format!("{}:holders-concrete-type-not-dispatched", v.mnemonic));
            }
        }
        Ok(Err(e)) => env.viol(format!("C05|{t}|holder|{}", e.split(": ").next().unwrap_or("")), format!("{}: {e}", v.desc), case()),
        Err(e) => env.viol(format!("C05|{t}|holder|panic|{}", panic_class(&e)), format!("{}: {e}", v.desc), case()),
    }
}

//------------ constructor anomalies ---------------------------------------------

fn why_class(why: &str) -> String {
    if why.starts_with("RDATA of") {
        "rdata>65535".into()
    } else if why.contains("longer than 255") {
        format!("{}>255-octets", why.split(' ').next().unwrap_or("field").split('(').next().unwrap_or("field"))
    } else if why.contains("longer than 65535") {
        "field>65535".into()
    } else {
        why.chars().take(40).collect()
    }
}

fn handle_event(env: &Env, ev: Event, lc: &mut Local) {
    match ev {
        Event::Value(v) => check_value(env, &v, lc),
        Event::Refused { mnemonic, representable, error, .. } => {
            lc.inc(format!("{mnemonic}:refused"));
            if representable {
                lc.inc(format!("{mnemonic}:refused-though-representable[{}]", err_class(&error)));
            }
        }
        Event::CtorPanic { mnemonic, index, desc, msg, representable } => {
            if representable {
                env.viol(
                    format!("C05|{}|constructor|panic|{}", type_label(mnemonic), panic_class(&msg)),
                    format!("constructor panicked on the wire-representable {desc}: {msg}"),
                    json!({"kind": "value", "type": mnemonic, "tier": tier_name(env.tier), "index": index, "desc": desc}),
                );
            } else {
                lc.inc(format!("{mnemonic}:refused"));
                lc.inc(format!("{mnemonic}:refused-by-documented-panic"));
            }
        }
        Event::AcceptedUnrepresentable { mnemonic, rtype: _, index, desc, why, data } => {
            lc.ev();
            lc.inc(format!("{mnemonic}:accepted-unrepresentable"));
            // what happens when it is used?
            let rl = guard(|| data.rdlen(false));
            let cl = guard(|| {
                let mut t = Vec::new();
                data.compose_len_rdata(&mut t).map(|_| t.len()).map_err(|_| ())
            });
            let t = type_label(mnemonic);
            env.viol(
                format!("C05|{t}|constructor|accepted-should-reject|{}", why_class(&why)),
                format!(
                    "the safe constructor accepts {desc} although it has no wire representation ({why}); rdlen(false) -> {}; compose_len_rdata -> {}",
                    match rl { Ok(x) => format!("{x:?}"), Err(e) => format!("PANIC {e}") },
                    match cl { Ok(x) => format!("{x:?}"), Err(e) => format!("PANIC {e}") },
                ),
                json!({"kind": "value", "type": mnemonic, "tier": tier_name(env.tier), "index": index, "desc": desc}),
            );
        }
    }
}

//------------ EDNS options ---------------------------------------------------------

fn opt_variant<O, N>(o: &AllOptData<O, N>) -> &'static str {
    match o {
        AllOptData::Dau(_) => "Dau",
        AllOptData::Dhu(_) => "Dhu",
        AllOptData::N3u(_) => "N3u",
        AllOptData::Chain(_) => "Chain",
        AllOptData::Cookie(_) => "Cookie",
        AllOptData::Expire(_) => "Expire",
        AllOptData::ExtendedError(_) => "ExtendedError",
        AllOptData::TcpKeepalive(_) => "TcpKeepalive",
        AllOptData::KeyTag(_) => "KeyTag",
        AllOptData::Nsid(_) => "Nsid",
        AllOptData::Padding(_) => "Padding",
        AllOptData::ClientSubnet(_) => "ClientSubnet",
        AllOptData::Other(_) => "Other",
        _ => "?",
    }
}

fn compose_option_vec<D: ComposeOptData>(d: &D) -> Result<(u16, Vec<u8>), String> {
    guard(|| {
        let mut t = Vec::new();
        let l = d.compose_len();
        d.compose_option(&mut t).map(|_| (l, t)).map_err(|_| "append error".to_string())
    })
    .and_then(|r| r)
}

/// Read all options of an Opt back through AllOptData; returns
/// (variant, code, recomposed data) per option.
fn opt_value_eq<O, N, O2, N2>(p: &AllOptData<O, N>, v: &AllOptData<O2, N2>) -> bool
where
    O: AsRef<[u8]>,
    O2: AsRef<[u8]>,
    N: domain::base::name::ToName,
    N2: domain::base::name::ToName,
{
    use AllOptData as A;
    match (p, v) {
        (A::Dau(a), A::Dau(b)) => a == b,
        (A::Dhu(a), A::Dhu(b)) => a == b,
        (A::N3u(a), A::N3u(b)) => a == b,
        (A::Chain(a), A::Chain(b)) => a == b,
        (A::Cookie(a), A::Cookie(b)) => a == b,
        (A::Expire(a), A::Expire(b)) => a == b,
        (A::ExtendedError(a), A::ExtendedError(b)) => a == b && b == a,
        (A::TcpKeepalive(a), A::TcpKeepalive(b)) => a == b,
        (A::KeyTag(a), A::KeyTag(b)) => a.as_slice() == b.as_slice(),
        (A::Nsid(a), A::Nsid(b)) => a.as_slice() == b.as_slice(),
        (A::Padding(a), A::Padding(b)) => a.as_slice() == b.as_slice(),
        (A::ClientSubnet(a), A::ClientSubnet(b)) => a == b,
        (A::Other(a), A::Other(b)) => a.code() == b.code() && a.as_slice() == b.as_slice(),
        _ => false,
    }
}

fn read_options<O: octseq::Octets>(opt: &Opt<O>, orig: &rgen::OptVal) -> Result<Result<Vec<(&'static str, u16, Vec<u8>, bool)>, String>, String> {
    guard(|| {
        let mut out = Vec::new();
        for item in opt.iter::<AllOptData<_, _>>().take(100_000) {
            let item = item.map_err(|e| e.to_string())?;
            let mut t = Vec::new();
            item.compose_option(&mut t).map_err(|_| "append".to_string())?;
            if item.compose_len() as usize != t.len() {
                return Err(format!("compose_len {} but {} octets written on re-compose", item.compose_len(), t.len()));
            }
            let eq = opt_value_eq(&item, orig);
            out.push((opt_variant(&item), item.code().to_int(), t, eq));
        }
        Ok(out)
    })
}

fn check_options(env: &Env, lc: &mut Local) {
    let items = rgen::opt_items(env.tier);
    for (idx, it) in items.iter().enumerate() {
        let case = || json!({"kind": "option", "tier": tier_name(env.tier), "index": idx, "tag": it.tag, "code": it.code, "reference_data_len": it.data.len(), "reference_data_head": hex(&it.data[..it.data.len().min(64)])});
        let cls: String = it.tag.split(':').next().unwrap_or("").trim_end_matches(char::is_numeric).to_string();
        let cls = if cls.starts_with("code") { "unknown".to_string() } else { cls.trim_end_matches("(from_octets)").trim_end_matches(char::is_numeric).to_string() };
        lc.inc(format!("OPTION-{cls}:candidates"));
        let val = match &it.val {
            None => {
                let e = it.refused.clone().unwrap_or_default();
                lc.inc(format!("OPTION-{cls}:refused"));
                if e.starts_with("PANIC") {
                    lc.inc(format!("OPTION-{cls}:refused-by-documented-panic"));
                }
                continue;
            }
            Some(v) => v,
        };
        lc.ev();
        if it.unrepresentable {
            env.viol(format!("C05|OPT|option-{cls}|constructor|accepted-should-reject|data>65535"), format!("option {} accepted with {} octets of data", it.tag, it.data.len()), case());
            continue;
        }
        lc.inc(format!("OPTION-{cls}:generated"));
        // a. compose == reference
        let (l, d) = match compose_option_vec(val) {
            Ok(x) => x,
            Err(e) => {
                env.viol(format!("C05|OPT|option-{cls}|compose_option|panic|{}", panic_class(&e)), format!("{}: {e}", it.tag), case());
                continue;
            }
        };
        if d != it.data {
            env.viol(format!("C05|OPT|option-{cls}|compose_option|differs-from-rfc-reference-encoding"), format!("{}: {}", it.tag, first_diff(&d, &it.data)), case());
            continue;
        }
        if l as usize != d.len() {
            env.viol(format!("C05|OPT|option-{cls}|compose_len|advertised!=written"), format!("{}: compose_len {l}, wrote {}", it.tag, d.len()), case());
            continue;
        }
        let orig_variant = opt_variant(val);
        let expect_one = |got: &Result<Result<Vec<(&'static str, u16, Vec<u8>, bool)>, String>, String>, via: &str| -> bool {
            match got {
                Err(e) => {
                    env.viol(format!("C05|OPT|option-{cls}|read-back|panic|{}", panic_class(e)), format!("[{via}] {}: {e}", it.tag), case());
                    false
                }
                Ok(Err(e)) => {
                    env.viol(format!("C05|OPT|option-{cls}|parse(compose(v))|rejected"), format!("[{via}] the option parser rejects what compose_option wrote for the constructor-accepted {}: {e}", it.tag), case());
                    false
                }
                Ok(Ok(list)) => {
                    if list.len() != 1 {
                        env.viol(format!("C05|OPT|option-{cls}|read-back|count!=1"), format!("[{via}] {}: {} options read back", it.tag, list.len()), case());
                        false
                    } else if list[0].0 != orig_variant || list[0].1 != it.code {
                        env.viol(format!("C05|OPT|option-{cls}|read-back|variant-changed"), format!("[{via}] {}: pushed {orig_variant}/{} read {}/{}", it.tag, it.code, list[0].0, list[0].1), case());
                        false
                    } else if list[0].2 != it.data {
                        env.viol(format!("C05|OPT|option-{cls}|parse(compose(v))|not-equal"), format!("[{via}] {}: read-back option re-composes differently: {}", it.tag, first_diff(&list[0].2, &it.data)), case());
                        false
                    } else if !list[0].3 {
                        env.viol(format!("C05|OPT|option-{cls}|parse(compose(v))|not-equal-by-library-eq"), format!("[{via}] {}: the option read back is not equal to the pushed one although it re-composes identically", it.tag), case());
                        false
                    } else {
                        true
                    }
                }
            }
        };
        // b. Opt::push + iter
        if 4 + it.data.len() <= 65535 {
            lc.ev();
            let built = guard(|| {
                let mut o = Opt::<Vec<u8>>::empty();
                o.push(val).map(|_| o).map_err(|e| e.to_string())
            });
            match built {
                Err(e) => env.viol(format!("C05|OPT|option-{cls}|Opt::push|panic|{}", panic_class(&e)), format!("{}: {e}", it.tag), case()),
                Ok(Err(e)) => env.viol(format!("C05|OPT|option-{cls}|Opt::push|refused"), format!("{}: {e}", it.tag), case()),
                Ok(Ok(o)) => {
                    let mut expect = it.code.to_be_bytes().to_vec();
                    expect.extend_from_slice(&(it.data.len() as u16).to_be_bytes());
                    expect.extend_from_slice(&it.data);
                    let c = compose_vec(&o).unwrap_or_default();
                    if c != expect {
                        env.viol(format!("C05|OPT|option-{cls}|Opt::push|octets-differ-from-reference"), format!("{}: {}", it.tag, first_diff(&c, &expect)), case());
                    } else if expect_one(&read_options(&o, val), "Opt::push") {
                        // also through the stand-alone record data parser
                        match parse_alone(41, &c) {
                            Ok(Ok((AllRecordData::Opt(p), 0))) => {
                                if expect_one(&read_options(&p, val), "parse_any_rdata") {
                                    lc.inc(format!("OPTION-{cls}:roundtripped"));
                                    let mut key = vec![0xFF, 41];
                                    key.extend_from_slice(&c);
                                    lc.distinct.push(fnv(&key));
                                }
                            }
                            Ok(Ok(_)) => env.viol(format!("C05|OPT|option-{cls}|parse_any_rdata|not-opt-or-octets-left"), it.tag.clone(), case()),
                            Ok(Err(e)) => env.viol(format!("C05|OPT|option-{cls}|parse_any_rdata|rejected|{}", err_class(&e)), format!("{}: {e}", it.tag), case()),
                            Err(e) => env.viol(format!("C05|OPT|option-{cls}|parse_any_rdata|panic|{}", panic_class(&e)), format!("{}: {e}", it.tag), case()),
                        }
                    }
                }
            }
        }
        // c. OptBuilder inside a message
        if 12 + 11 + 4 + it.data.len() <= 65535 {
            lc.ev();
            let built = guard(|| {
                let mut a = MessageBuilder::new_vec().additional();
                a.opt(|o| o.push(val)).map(|_| a.finish()).map_err(|e| e.to_string())
            });
            match built {
                Err(e) => env.viol(format!("C05|OPT|option-{cls}|OptBuilder|panic|{}", panic_class(&e)), format!("{}: {e}", it.tag), case()),
                Ok(Err(e)) => env.viol(format!("C05|OPT|option-{cls}|OptBuilder|refused"), format!("{}: {e}", it.tag), case()),
                Ok(Ok(msg)) => {
                    let ok = match w::read_message(&msg) {
                        Ok(raw) if raw.end == msg.len() && raw.sections[2].len() == 1 && raw.sections[2][0].rtype == 41 => {
                            let rd = &raw.sections[2][0].rdata;
                            rd.len() == 4 + it.data.len() && rd[..2] == it.code.to_be_bytes() && rd[2..4] == (it.data.len() as u16).to_be_bytes() && rd[4..] == it.data[..]
                        }
                        _ => false,
                    };
                    if !ok {
                        env.viol(format!("C05|OPT|option-{cls}|OptBuilder|message-differs-from-reference"), format!("{}: message {}", it.tag, hex(&msg[..msg.len().min(80)])), case());
                    } else {
                        let got = guard(|| -> Result<Vec<(&'static str, u16, Vec<u8>, bool)>, String> {
                            let m = Message::from_octets(msg.as_slice()).map_err(|e| e.to_string())?;
                            let rec = m.opt().ok_or("Message::opt() is None")?;
                            read_options(rec.opt(), val).and_then(|r| r)
                        });
                        if expect_one(&got, "OptBuilder+Message::opt") {
                            lc.inc(format!("OPTION-{cls}:message-roundtrips"));
                        }
                    }
                }
            }
        }
    }
}


//------------ option byte menus ----------------------------------------------------

fn option_class(code: u16) -> &'static str {
    match code {
        3 => "nsid",
        5 => "dau",
        6 => "dhu",
        7 => "n3u",
        8 => "subnet",
        9 => "expire",
        10 => "cookie",
        11 => "keepalive",
        12 => "padding",
        13 => "chain",
        14 => "keytag",
        15 => "ede",
        _ => "unknown",
    }
}

/// Independent split of OPT RDATA into (code, data); None if malformed.
fn split_options(rd: &[u8]) -> Option<Vec<(u16, Vec<u8>)>> {
    let mut out = Vec::new();
    let mut p = 0;
    while p < rd.len() {
        let code = w::u16_at(rd, p).ok()?;
        let len = w::u16_at(rd, p + 2).ok()? as usize;
        let data = rd.get(p + 4..p + 4 + len)?;
        out.push((code, data.to_vec()));
        p += 4 + len;
    }
    Some(out)
}

/// OPTION-DATA menus per option code: every internal length short / exact /
/// long, texts of length 0 / 1 / many, text that is not UTF-8.
fn option_byte_menu() -> Vec<(u16, Vec<u8>)> {
    let mut v: Vec<(u16, Vec<u8>)> = Vec::new();
    let mut add = |code: u16, datas: Vec<Vec<u8>>| {
        for d in datas {
            v.push((code, d));
        }
    };
    add(3, vec![vec![], vec![0], b"ns".to_vec(), vec![0xff; 255]]);
    for code in [5u16, 6, 7] {
        add(code, vec![vec![], vec![8], vec![8, 13], vec![8, 13, 14], vec![0; 255]]);
    }
    add(
        8,
        vec![
            vec![0, 1, 0, 0],
            vec![0, 1, 24, 0, 192, 0, 2],
            vec![0, 1, 24, 0, 192, 0, 2, 0],
            vec![0, 1, 24, 0, 192, 0],
            vec![0, 1, 23, 0, 192, 0, 3],
            vec![0, 1, 23, 0, 192, 0, 2],
            vec![0, 1, 1, 0, 0x80],
            vec![0, 1, 32, 32, 192, 0, 2, 1],
            vec![0, 1, 33, 0, 192, 0, 2, 1, 0],
            vec![0, 1, 0, 255],
            vec![0, 1, 0, 0, 0],
            vec![0, 2, 0, 0],
            vec![0, 2, 56, 0, 0x20, 1, 0xd, 0xb8, 0, 0, 1],
            vec![0, 2, 56, 0, 0x20, 1, 0xd, 0xb8, 0, 0],
            cat(&[&[0, 2, 128, 64], &[0x20; 16]]),
            cat(&[&[0, 2, 129, 0], &[0x20; 17]]),
            vec![0, 0, 0, 0],
            vec![0, 3, 8, 0, 1],
            vec![0, 1, 24],
            vec![],
        ],
    );
    add(9, vec![vec![], vec![0, 0, 0, 1], vec![0xff; 4], vec![0, 0, 0], vec![0; 5]]);
    add(10, [0usize, 7, 8, 9, 15, 16, 24, 39, 40, 41].iter().map(|n| rgen::fill(*n, 3)).collect());
    add(11, vec![vec![], vec![0, 1], vec![0xff, 0xff], vec![0], vec![0, 1, 0]]);
    add(12, vec![vec![], vec![0], vec![0; 300], vec![1, 2, 3]]);
    let n255 = rgen::name_specs()[3].wire();
    let mut n256 = n255.clone();
    n256.insert(0, 1);
    n256.insert(1, b'x');
    add(
        13,
        vec![
            vec![0],
            vec![1, b'a', 0],
            vec![1, b'A', 1, b'b', 0],
            n255,
            n256,
            vec![1, b'a'],
            vec![0xC0, 12],
            vec![1, b'a', 0, 0],
            vec![],
            vec![0x40, 0],
        ],
    );
    add(14, vec![vec![], vec![0, 1], vec![0, 1, 0xff, 0xff], vec![0, 1, 0], vec![1]]);
    add(
        15,
        vec![
            vec![],
            vec![0],
            vec![0, 1],
            vec![0xff, 0xff],
            vec![0, 1, b'x'],
            cat(&[&[0, 18], b"prohibited: many octets of text"]),
            cat(&[&[0, 1], "\u{e9}\u{20ac}".as_bytes()]),
            vec![0, 1, 0xff, 0xfe],
            vec![0, 1, 0xc3],
            vec![0, 1, b'o', b'k', 0x80],
            cat(&[&[0, 1], &[0x80; 255]]),
            cat(&[&[0, 1], &[b't'; 300]]),
            vec![0, 1, 0],
        ],
    );
    for code in [0u16, 4, 16, 65001, 65535] {
        add(code, vec![vec![], vec![7], vec![1, 2, 3]]);
    }
    v
}

/// Option-level treatment of OPT RDATA the parser accepted: every option
/// read back through AllOptData must advertise the length it writes,
/// re-compose to the octets it was parsed from, survive Opt::push and
/// OptBuilder with a consistent option header, and parse back equal.
fn check_option_bytes(env: &Env, rd: &[u8], origin: &str, lc: &mut Local) {
    let reference = match split_options(rd) {
        Some(r) => r,
        None => return,
    };
    let case = || json!({"kind": "option-bytes", "origin": origin, "opt_rdata": hex(rd)});
    lc.ev();
    let opt = match guard(|| Opt::from_octets(rd).map_err(|e| e.to_string())) {
        Ok(Ok(o)) => o,
        Ok(Err(_)) => return,
        Err(e) => {
            env.viol(format!("C05|OPT|option-bytes|Opt::from_octets|panic|{}", panic_class(&e)), e, case());
            return;
        }
    };
    let items = guard(|| opt.iter::<AllOptData<_, _>>().take(100_000).collect::<Vec<_>>());
    let items = match items {
        Ok(i) => i,
        Err(e) => {
            env.viol(format!("C05|OPT|option-bytes|iter|panic|{}", panic_class(&e)), format!("OPT RDATA {}: {e}", hex(rd)), case());
            return;
        }
    };
    let mut all_ok = true;
    let mut rebuilt_all = Opt::<Vec<u8>>::empty();
    for (k, item) in items.iter().enumerate() {
        let (code, data) = match reference.get(k) {
            Some(r) => r,
            None => {
                env.viol("C05|OPT|option-bytes|iter|more-options-than-present".into(), format!("OPT RDATA {}", hex(rd)), case());
                return;
            }
        };
        let cls = option_class(*code);
        lc.inc(format!("OPTBYTES-{cls}:cases"));
        let item = match item {
            Ok(i) => i,
            Err(_) => {
                lc.inc(format!("OPTBYTES-{cls}:rejected"));
                all_ok = false;
                // the iterator stops after an error
                break;
            }
        };
        lc.inc(format!("OPTBYTES-{cls}:accepted"));
        lc.ev();
        if item.code().to_int() != *code {
            env.viol(format!("C05|OPT|option-bytes-{cls}|code-changed"), format!("OPT RDATA {}: option {k} code {} read as {}", hex(rd), code, item.code().to_int()), case());
            continue;
        }
        // compose_len == octets written, re-compose == the octets parsed
        let (l, d) = match compose_option_vec(item) {
            Ok(x) => x,
            Err(e) => {
                env.viol(format!("C05|OPT|option-bytes-{cls}|compose_option|panic|{}", panic_class(&e)), format!("option {code} data {}: {e}", hex(data)), case());
                continue;
            }
        };
        if l as usize != d.len() {
            env.viol(
                format!("C05|OPT|option-bytes-{cls}|compose_len|advertised!=written"),
                format!("option {code} parsed from data {}: compose_len() = {l} but compose_option() writes {} octets", hex(data), d.len()),
                case(),
            );
            continue;
        }
        if &d != data {
            env.viol(
                format!("C05|OPT|option-bytes-{cls}|compose(parse(b))|differs-from-the-octets-parsed"),
                format!("option {code} data {} re-composes to {}", hex(data), hex(&d)),
                case(),
            );
            continue;
        }
        // Opt::push: header consistent, parses back equal
        let built = guard(|| {
            let mut o = Opt::<Vec<u8>>::empty();
            o.push(item).map(|_| o).map_err(|e| e.to_string())
        });
        let built = match built {
            Ok(Ok(o)) => o,
            Ok(Err(e)) => {
                env.viol(format!("C05|OPT|option-bytes-{cls}|Opt::push|refused"), format!("option {code} data {}: {e}", hex(data)), case());
                continue;
            }
            Err(e) => {
                env.viol(format!("C05|OPT|option-bytes-{cls}|Opt::push|panic|{}", panic_class(&e)), format!("option {code} data {}: {e}", hex(data)), case());
                continue;
            }
        };
        let bo = compose_vec(&built).unwrap_or_default();
        if split_options(&bo) != Some(vec![(*code, data.clone())]) {
            env.viol(
                format!("C05|OPT|option-bytes-{cls}|Opt::push|option-header!=octets-that-follow"),
                format!("option {code} parsed from data {} pushed into an empty Opt gives {}", hex(data), hex(&bo)),
                case(),
            );
            continue;
        }
        let back = guard(|| {
            let o2 = Opt::from_octets(bo.as_slice()).map_err(|e| e.to_string())?;
            let mut it = o2.iter::<AllOptData<_, _>>();
            let first = it.next().ok_or("no option")?.map_err(|e| e.to_string())?;
            if it.next().is_some() {
                return Err("more than one option".to_string());
            }
            Ok(opt_value_eq(&first, item) && opt_value_eq(item, &first) && opt_variant(&first) == opt_variant(item))
        });
        match back {
            Ok(Ok(true)) => {}
            Ok(Ok(false)) => {
                env.viol(format!("C05|OPT|option-bytes-{cls}|parse(compose(parse(b)))|not-equal"), format!("option {code} data {}", hex(data)), case());
                continue;
            }
            Ok(Err(e)) => {
                env.viol(format!("C05|OPT|option-bytes-{cls}|parse(compose(parse(b)))|rejected|{}", err_class(&e)), format!("option {code} data {}: {e}", hex(data)), case());
                continue;
            }
            Err(e) => {
                env.viol(format!("C05|OPT|option-bytes-{cls}|parse(compose(parse(b)))|panic|{}", panic_class(&e)), format!("option {code} data {}: {e}", hex(data)), case());
                continue;
            }
        }
        // OptBuilder inside a message
        let msg = guard(|| {
            let mut a = MessageBuilder::new_vec().additional();
            a.opt(|o| o.push(item)).map(|_| a.finish()).map_err(|e| e.to_string())
        });
        match msg {
            Ok(Ok(m)) => {
                let ok = match w::read_message(&m) {
                    Ok(raw) => raw.end == m.len() && raw.sections[2].len() == 1 && raw.sections[2][0].rtype == 41 && raw.sections[2][0].rdata == bo,
                    Err(_) => false,
                };
                if !ok {
                    env.viol(
                        format!("C05|OPT|option-bytes-{cls}|OptBuilder|rdlength-or-option-header!=octets-that-follow"),
                        format!("option {code} parsed from data {}: message {}", hex(data), hex(&m[..m.len().min(96)])),
                        case(),
                    );
                    continue;
                }
            }
            Ok(Err(e)) => {
                env.viol(format!("C05|OPT|option-bytes-{cls}|OptBuilder|refused"), format!("option {code} data {}: {e}", hex(data)), case());
                continue;
            }
            Err(e) => {
                env.viol(format!("C05|OPT|option-bytes-{cls}|OptBuilder|panic|{}", panic_class(&e)), format!("option {code} data {}: {e}", hex(data)), case());
                continue;
            }
        }
        let _ = guard(|| rebuilt_all.push(item).is_ok());
        lc.inc(format!("OPTBYTES-{cls}:roundtripped"));
        let mut key = vec![0xFD];
        key.extend_from_slice(&code.to_be_bytes());
        key.extend_from_slice(data);
        lc.distinct.push(fnv(&key));
    }
    // all options accepted: pushing them all again reproduces the RDATA
    if all_ok && items.len() == reference.len() && !items.is_empty() {
        lc.ev();
        let bo = compose_vec(&rebuilt_all).unwrap_or_default();
        if bo != rd && lc_no_violation_yet(&bo, rd) {
            env.viol(
                "C05|OPT|option-bytes|rebuild-all-options|differs-from-the-octets-parsed".into(),
                format!("OPT RDATA {} rebuilt option by option gives {}", hex(rd), hex(&bo)),
                case(),
            );
        }
    }
}

/// The whole-RDATA rebuild is only meaningful when every single option made
/// it into the rebuilt Opt (a per-option violation skips the push).
fn lc_no_violation_yet(rebuilt: &[u8], original: &[u8]) -> bool {
    split_options(rebuilt).map(|r| r.len()) == split_options(original).map(|r| r.len())
}

fn run_option_bytes(env: &Env, lc: &mut Local) -> u64 {
    let menu = option_byte_menu();
    let mut n = 0;
    let enc = |code: u16, d: &[u8]| {
        let mut o = code.to_be_bytes().to_vec();
        o.extend_from_slice(&(d.len() as u16).to_be_bytes());
        o.extend_from_slice(d);
        o
    };
    for (code, data) in &menu {
        check_option_bytes(env, &enc(*code, data), "menu", lc);
        n += 1;
    }
    // pairs: every EDE variant before and after an NSID option, and every
    // option followed by padding
    for (code, data) in &menu {
        let one = enc(*code, data);
        let other = if *code == 15 { enc(3, b"ns") } else { enc(12, &[0, 0]) };
        check_option_bytes(env, &cat(&[&one, &other]), "menu-pair", lc);
        check_option_bytes(env, &cat(&[&other, &one]), "menu-pair", lc);
        n += 2;
    }
    n
}

//------------ byte grammar ----------------------------------------------------------

#[derive(Clone, Copy, Debug)]
enum F {
    U8,
    U16,
    U32,
    U48,
    Name,
    /// octets with one-octet length
    L8,
    /// octets with two-octet length
    L16,
    /// rest of the RDATA, opaque
    Rest,
    Bitmap,
    A4,
    A6,
    Lit(&'static [u8]),
    SvcParams,
    Options,
    /// nothing or one garbage octet
    Trail,
}

const QNAME_POS: usize = 12;
const OWNER_POS: usize = 19;

fn cat(parts: &[&[u8]]) -> Vec<u8> {
    parts.iter().flat_map(|p| p.iter().cloned()).collect()
}

fn variants(f: F, full: bool) -> Vec<Vec<u8>> {
    let ptr = |t: usize| vec![0xC0 | (t >> 8) as u8, t as u8];
    match f {
        F::U8 => vec![vec![0], vec![2]],
        F::U16 => vec![vec![0, 1], vec![255, 255]],
        F::U32 => vec![vec![0, 0, 0, 1], vec![0x80, 0, 0, 0]],
        F::U48 => vec![vec![0, 0, 0, 0, 0, 1]],
        F::Name => {
            let mut v = vec![vec![1, b'b', 0], ptr(QNAME_POS), vec![0], vec![1, b'B', 0], ptr(OWNER_POS)];
            if full {
                v.extend([vec![1], vec![0xC0, 0xFF], vec![2, b'x', b'y', 0xC0, QNAME_POS as u8], vec![0x40, 0]]);
            } else {
                v.push(vec![1]);
            }
            v
        }
        F::L8 => {
            let mut v = vec![vec![0], vec![2, b'A', b'b'], vec![3, b'A', b'b'], vec![1, b'A', b'b']];
            if full {
                v.push(cat(&[&[255], &[b'z'; 255]]));
            }
            v
        }
        F::L16 => vec![vec![0, 0], vec![0, 2, 7, 7], vec![0, 3, 7, 7], vec![0, 1, 7, 7]],
        F::Rest => vec![vec![], vec![7], vec![1, 2, 3], vec![9; 12]],
        F::Bitmap => vec![
            vec![],
            vec![0, 1, 0x40],
            vec![0, 1, 0x40, 1, 2, 0, 1],
            vec![0, 0],
            vec![0, 2, 0x40],
            vec![0, 1, 0x40, 0, 1, 0x40],
            vec![1, 1, 0x40, 0, 1, 0x40],
            cat(&[&[0, 33], &[1; 33]]),
            cat(&[&[255, 32], &[0xff; 32]]),
            vec![0, 1, 0],
            vec![0],
        ],
        F::A4 => vec![vec![192, 0, 2, 1]],
        F::A6 => vec![vec![0x20; 16]],
        F::Lit(b) => vec![b.to_vec()],
        F::SvcParams => vec![
            vec![],
            vec![0, 1, 0, 3, 2, b'h', b'2'],
            vec![0, 3, 0, 2, 1, 187],
            vec![0, 1, 0, 3, 2, b'h', b'2', 0, 3, 0, 2, 1, 187],
            vec![0, 3, 0, 2, 1, 187, 0, 1, 0, 3, 2, b'h', b'2'],
            vec![0, 1, 0, 3, 2, b'h', b'2', 0, 1, 0, 3, 2, b'h', b'2'],
            vec![0, 1, 0, 9, 2, b'h'],
            vec![0, 1, 0, 3, 5, b'h', b'2'],
            vec![0, 1, 0, 1, 0],
            vec![0, 0, 0, 2, 0, 1, 0, 1, 0, 3, 2, b'h', b'2'],
            vec![0, 0, 0, 3, 0, 1, 0],
            vec![0, 0, 0, 0],
            vec![0, 2, 0, 0],
            vec![0, 2, 0, 1, 1],
            vec![0, 3, 0, 1, 1],
            vec![0, 3, 0, 3, 1, 2, 3],
            vec![0, 4, 0, 4, 1, 2, 3, 4],
            vec![0, 4, 0, 5, 1, 2, 3, 4, 5],
            vec![0, 4, 0, 0],
            vec![0, 5, 0, 0],
            vec![0, 5, 0, 2, 1, 2],
            cat(&[&[0, 6, 0, 16], &[3; 16]]),
            vec![0, 6, 0, 4, 1, 2, 3, 4],
            vec![0, 7, 0, 1, b'/'],
            vec![0, 8, 0, 0],
            vec![0, 8, 0, 1, 1],
            vec![0, 9, 0, 2, 0, 29],
            vec![0, 9, 0, 3, 0, 29, 0],
            vec![0, 1],
            vec![0, 1, 0],
            vec![0xff, 0xff, 0, 0],
            vec![0xff, 0xff, 0, 1, 9],
            vec![0xff, 0, 0, 0, 0xff, 0xff, 0, 0],
        ],
        F::Options => vec![
            vec![],
            vec![0, 3, 0, 0],
            vec![0, 3, 0, 2, b'n', b's'],
            vec![0, 3, 0, 9, 1],
            vec![0, 3, 0],
            vec![0, 5, 0, 0],
            vec![0, 5, 0, 1, 8],
            vec![0, 5, 0, 2, 8, 13],
            vec![0, 6, 0, 1, 2],
            vec![0, 7, 0, 3, 1, 2, 3],
            vec![0, 8, 0, 4, 0, 1, 0, 0],
            vec![0, 8, 0, 7, 0, 1, 24, 0, 192, 0, 2],
            vec![0, 8, 0, 7, 0, 1, 23, 0, 192, 0, 3],
            vec![0, 8, 0, 8, 0, 1, 24, 0, 192, 0, 2, 0],
            vec![0, 8, 0, 6, 0, 1, 24, 0, 192, 0],
            vec![0, 8, 0, 4, 0, 3, 0, 0],
            vec![0, 8, 0, 5, 0, 2, 8, 0, 0x20],
            vec![0, 8, 0, 3, 0, 1, 0],
            vec![0, 9, 0, 0],
            vec![0, 9, 0, 4, 0, 0, 0, 1],
            vec![0, 9, 0, 3, 0, 0, 0],
            vec![0, 9, 0, 5, 0, 0, 0, 0, 0],
            vec![0, 10, 0, 8, 1, 2, 3, 4, 5, 6, 7, 8],
            vec![0, 10, 0, 7, 1, 2, 3, 4, 5, 6, 7],
            cat(&[&[0, 10, 0, 16], &[5; 16]]),
            cat(&[&[0, 10, 0, 15], &[5; 15]]),
            cat(&[&[0, 10, 0, 40], &[5; 40]]),
            cat(&[&[0, 10, 0, 41], &[5; 41]]),
            vec![0, 11, 0, 0],
            vec![0, 11, 0, 2, 0, 1],
            vec![0, 11, 0, 1, 0],
            vec![0, 11, 0, 3, 0, 1, 0],
            vec![0, 12, 0, 0],
            vec![0, 12, 0, 3, 0, 0, 0],
            vec![0, 13, 0, 1, 0],
            vec![0, 13, 0, 3, 1, b'a', 0],
            vec![0, 13, 0, 2, 1, b'a'],
            vec![0, 13, 0, 2, 0xC0, 12],
            vec![0, 13, 0, 4, 1, b'a', 0, 0],
            vec![0, 14, 0, 0],
            vec![0, 14, 0, 2, 0, 1],
            vec![0, 14, 0, 3, 0, 1, 0],
            vec![0, 15, 0, 2, 0, 1],
            vec![0, 15, 0, 1, 0],
            vec![0, 15, 0, 4, 0, 1, b'o', b'k'],
            vec![0, 15, 0, 4, 0, 1, 0xff, 0xfe],
            vec![0, 3, 0, 1, 1, 0, 12, 0, 1, 0],
            vec![0xff, 0xff, 0, 0],
            vec![0xff, 0xff, 0, 2, 1, 2],
        ],
        F::Trail => vec![vec![], vec![0xEE]],
    }
}

/// The RDATA grammars: (type, field list). Several grammars per type where
/// the layout depends on a discriminator (IPSECKEY gateway type).
fn grammars() -> Vec<(u16, Vec<F>)> {
    use F::*;
    let mut g: Vec<(u16, Vec<F>)> = vec![
        (1, vec![A4, Trail]),
        (1, vec![Lit(&[1, 2, 3])]),
        (28, vec![A6, Trail]),
        (28, vec![Lit(&[0; 15])]),
        (6, vec![Name, Name, U32, U32, U32, U32, U32, Trail]),
        (6, vec![Name, Name, U32, U32, U32, U32, Lit(&[0, 0, 0])]),
        (15, vec![U16, Name, Trail]),
        (15, vec![Lit(&[0])]),
        (14, vec![Name, Name, Trail]),
        (17, vec![Name, Name, Trail]),
        (16, vec![L8, L8, Trail]),
        (16, vec![]),
        (13, vec![L8, L8, Trail]),
        (10, vec![Rest]),
        (33, vec![U16, U16, U16, Name, Trail]),
        (35, vec![U16, U16, L8, L8, L8, Name, Trail]),
        (257, vec![U8, L8, Rest]),
        (257, vec![U8, Lit(&[3, b'a', b'-', b'b']), Rest]),
        (43, vec![U16, U8, U8, Rest]),
        (59, vec![U16, U8, U8, Rest]),
        (48, vec![U16, U8, U8, Rest]),
        (60, vec![U16, U8, U8, Rest]),
        (43, vec![Lit(&[0, 1, 8])]),
        (48, vec![Lit(&[1, 1, 3])]),
        (59, vec![Lit(&[0, 1, 8])]),
        (60, vec![Lit(&[1, 1, 3])]),
        (46, vec![U16, U8, U8, U32, U32, U32, U16, Name, Rest]),
        (46, vec![Lit(&[0; 17])]),
        (47, vec![Name, Bitmap]),
        (50, vec![U8, U8, U16, L8, L8, Bitmap]),
        (51, vec![U8, U8, U16, L8, Trail]),
        (64, vec![U16, Name, SvcParams]),
        (65, vec![U16, Name, SvcParams]),
        (52, vec![U8, U8, U8, Rest]),
        (52, vec![Lit(&[3, 1])]),
        (44, vec![U8, U8, Rest]),
        (44, vec![Lit(&[1])]),
        (45, vec![U8, Lit(&[0]), U8, Rest]),
        (45, vec![U8, Lit(&[1]), U8, A4, Rest]),
        (45, vec![U8, Lit(&[2]), U8, A6, Rest]),
        (45, vec![U8, Lit(&[3]), U8, Name, Rest]),
        (45, vec![U8, Lit(&[4]), U8, Rest]),
        (45, vec![U8, Lit(&[1]), U8, Lit(&[192, 0])]),
        (45, vec![U8, Lit(&[2]), U8, Lit(&[0x20; 15])]),
        (45, vec![U8, U8]),
        (61, vec![Rest]),
        (63, vec![U32, U8, U8, Rest]),
        (63, vec![U32, U8, U8, Lit(&[4; 11])]),
        (63, vec![U32, U8, U8, Lit(&[4; 13])]),
        (250, vec![Name, U48, U16, L16, U16, U16, L16, Trail]),
        (250, vec![Name, Lit(&[0, 0, 0, 0, 0])]),
        (41, vec![Options]),
        (41, vec![Options, Options]),
        (65280, vec![Rest]),
        (65280, vec![Name]),
        (99, vec![L8, Trail]),
    ];
    for t in [2u16, 3, 4, 5, 7, 8, 9, 12, 39] {
        g.push((t, vec![Name, Trail]));
    }
    g
}

/// header, question "b. A IN", one answer: owner -> pointer to the qname.
fn wrap_message(rtype: u16, rdata: &[u8]) -> Vec<u8> {
    let mut m = vec![0x12, 0x34, 0x84, 0, 0, 1, 0, 1, 0, 0, 0, 0];
    m.extend_from_slice(&[1, b'b', 0, 0, 1, 0, 1]);
    debug_assert_eq!(m.len(), OWNER_POS);
    m.extend_from_slice(&[0xC0, QNAME_POS as u8]);
    m.extend_from_slice(&rtype.to_be_bytes());
    m.extend_from_slice(&[0, 1, 0, 0, 0, 60]);
    m.extend_from_slice(&(rdata.len() as u16).to_be_bytes());
    m.extend_from_slice(rdata);
    m
}

fn rtype_label(rtype: u16) -> String {
    if matches!(rtype, 65280 | 99) {
        "UNKNOWN".into()
    } else {
        Rtype::from_int(rtype).to_string()
    }
}

fn check_bytes(env: &Env, rtype: u16, b: &[u8], lc: &mut Local) {
    let t = rtype_label(rtype);
    let msg = wrap_message(rtype, b);
    let case = || json!({"kind": "bytes", "rtype": rtype, "rdata": hex(b), "message": hex(&msg)});
    lc.ev();
    lc.inc(format!("BYTES-{t}:cases"));
    // parse(b)
    let m = match guard(|| Message::from_octets(msg.as_slice()).map_err(|e| e.to_string())) {
        Ok(Ok(m)) => m,
        Ok(Err(e)) => {
            env.viol(format!("C05|{t}|bytes|harness-message-rejected"), e, case());
            return;
        }
        Err(e) => {
            env.viol(format!("C05|{t}|bytes|Message::from_octets|panic|{}", panic_class(&e)), e, case());
            return;
        }
    };
    let parsed = guard(|| -> Result<Rd, String> {
        let rec = m.answer().map_err(|e| e.to_string())?.next().ok_or("no record")?.map_err(|e| e.to_string())?;
        let rec = rec.to_any_record::<PRd>().map_err(|e| e.to_string())?;
        // flatten into owned octets for later comparison
        use domain::base::name::FlattenInto;
        rec.into_data().try_flatten_into().map_err(|_: std::convert::Infallible| String::new())
    });
    let p: Rd = match parsed {
        Err(e) => {
            env.viol(format!("C05|{t}|bytes|parse|panic|{}", panic_class(&e)), format!("parsing RDATA {} panicked: {e}", hex(b)), case());
            return;
        }
        Ok(Err(_)) => {
            lc.inc(format!("BYTES-{t}:rejected"));
            return;
        }
        Ok(Ok(p)) => p,
    };
    lc.inc(format!("BYTES-{t}:accepted"));
    if rtype == 41 {
        check_option_bytes(env, b, "rdata-grammar", lc);
    }
    // compose(parse(b))
    let b2 = match compose_vec(&p) {
        Ok(x) => x,
        Err(e) => {
            env.viol(format!("C05|{t}|bytes|compose(parse(b))|panic|{}", panic_class(&e)), format!("RDATA {}: {e}", hex(b)), case());
            return;
        }
    };
    match guard(|| p.rdlen(false)) {
        Ok(Some(n)) if n as usize != b2.len() => {
            env.viol(format!("C05|{t}|bytes|rdlen(false)|advertised!=written"), format!("RDATA {}: rdlen {n}, wrote {}", hex(b), b2.len()), case());
            return;
        }
        Err(e) => {
            env.viol(format!("C05|{t}|bytes|rdlen|panic|{}", panic_class(&e)), format!("RDATA {}: {e}", hex(b)), case());
            return;
        }
        _ => {}
    }
    if let Err(e) = compose_canonical_vec(&p) {
        env.viol(format!("C05|{t}|bytes|compose_canonical_rdata|panic|{}", panic_class(&e)), format!("RDATA {}: {e}", hex(b)), case());
        return;
    }
    // parse(compose(parse(b))) == parse(b)
    match parse_alone(rtype, &b2) {
        Err(e) => env.viol(format!("C05|{t}|bytes|parse(compose(parse(b)))|panic|{}", panic_class(&e)), format!("RDATA {}: {e}", hex(b)), case()),
        Ok(Err(e)) => env.viol(
            format!("C05|{t}|bytes|parse(compose(parse(b)))|rejected|{}", err_class(&e)),
            format!("RDATA {} is accepted, re-composes to {} which the parser rejects: {e}", hex(b), hex(&b2)),
            case(),
        ),
        Ok(Ok((p2, remaining))) => {
            let eq = guard(|| (p2 == p, p == p2));
            if remaining != 0 {
                env.viol(format!("C05|{t}|bytes|parse(compose(parse(b)))|octets-left-unparsed"), format!("RDATA {} -> {}", hex(b), hex(&b2)), case());
            } else if eq != Ok((true, true)) {
                env.viol(format!("C05|{t}|bytes|parse(compose(parse(b)))|not-equal"), format!("RDATA {} -> {}: {eq:?}; {:?} vs {:?}", hex(b), hex(&b2), p, p2), case());
            } else {
                match compose_vec(&p2) {
                    Ok(b3) if b3 == b2 => {
                        lc.inc(format!("BYTES-{t}:roundtripped"));
                        let mut key = vec![0xFE];
                        key.extend_from_slice(&rtype.to_be_bytes());
                        key.extend_from_slice(b);
                        lc.distinct.push(fnv(&key));
                    }
                    Ok(b3) => env.viol(format!("C05|{t}|bytes|compose-not-idempotent"), format!("RDATA {} -> {} -> {}", hex(b), hex(&b2), hex(&b3)), case()),
                    Err(e) => env.viol(format!("C05|{t}|bytes|compose(p2)|panic|{}", panic_class(&e)), e, case()),
                }
            }
        }
    }
    // and through a compressing message
    lc.ev();
    match build_message(&p, Target::Static, &[vec![1, b'b', 0]]) {
        Err(e) => env.viol(format!("C05|{t}|bytes|message-push|panic|{}", panic_class(&e)), format!("RDATA {}: {e}", hex(b)), case()),
        Ok(Err(e)) => env.viol(format!("C05|{t}|bytes|message-push|refused"), format!("RDATA {}: {e}", hex(b)), case()),
        Ok(Ok(msg2)) => {
            let r = guard(|| -> Result<bool, String> {
                let raw = w::read_message(&msg2)?;
                if raw.end != msg2.len() {
                    return Err("RDLENGTH != octets that follow".into());
                }
                let m = Message::from_octets(msg2.as_slice()).map_err(|e| e.to_string())?;
                let last = m.answer().map_err(|e| e.to_string())?.last().ok_or("no record")?.map_err(|e| e.to_string())?;
                let rec = last.to_any_record::<PRd>().map_err(|e| e.to_string())?;
                Ok(rec.data() == &p)
            });
            match r {
                Ok(Ok(true)) => lc.inc(format!("BYTES-{t}:message-roundtrips")),
                Ok(Ok(false)) => env.viol(format!("C05|{t}|bytes|message-read|not-equal"), format!("RDATA {}", hex(b)), case()),
                Ok(Err(e)) => env.viol(format!("C05|{t}|bytes|message-read|rejected|{}", err_class(&e)), format!("RDATA {}: {e}", hex(b)), case()),
                Err(e) => env.viol(format!("C05|{t}|bytes|message-read|panic|{}", panic_class(&e)), format!("RDATA {}: {e}", hex(b)), case()),
            }
        }
    }
}

fn run_grammar(env: &Env, rtype: u16, fields: &[F], lc: &mut Local) -> u64 {
    let full = env.tier == Tier::Thorough;
    let menus: Vec<Vec<Vec<u8>>> = fields.iter().map(|f| variants(*f, full)).collect();
    let sizes: Vec<usize> = menus.iter().map(|m| m.len()).collect();
    let mut n = 0;
    if sizes.is_empty() {
        check_bytes(env, rtype, &[], lc);
        return 1;
    }
    product(&sizes, |idx| {
        let b: Vec<u8> = idx.iter().enumerate().flat_map(|(f, &k)| menus[f][k].iter().cloned()).collect();
        check_bytes(env, rtype, &b, lc);
        n += 1;
    });
    n
}



//------------ constructor variants and the over-long parse path ---------------------------

/// The second (slice / Bytes / builder) constructors of the length-limited
/// building blocks must accept exactly what `from_octets` accepts (the
/// documented limit, checked here independently) and hold the same octets.
fn check_ctor_variants(env: &Env, lc: &mut Local) -> u64 {
    use domain::base::charstr::{CharStr, CharStrBuilder};
    use domain::rdata::caa::{CaaFlags, CaaTag};
    use domain::rdata::nsec3::{Nsec3Salt, OwnerHash};
    use domain::rdata::rfc1035::{Null, Txt};
    use domain::rdata::svcb::SvcParams;
    use octseq::builder::OctetsBuilder;
    let mut n = 0;
    let report = |what: &str, detail: String| {
        env.viol(format!("C05|ctor-variants|{what}"), detail.clone(), json!({"kind": "ctor-variants", "what": what, "detail": detail}));
    };
    for len in [0usize, 1, 2, 254, 255, 256, 300] {
        n += 1;
        lc.ev();
        lc.inc("CTOR-VARIANTS:cases");
        let data = rgen::fill_alpha(len);
        let fits = len <= 255;
        let r = guard(|| -> Result<(), String> {
            // CharStr
            let a = CharStr::from_octets(data.clone());
            let b = CharStr::from_slice(&data);
            if a.is_ok() != fits || b.is_ok() != fits {
                return Err(format!("CharStr|from_octets/from_slice acceptance at {len} octets: {} / {}", a.is_ok(), b.is_ok()));
            }
            // the builder, fed in two pieces
            let mut bld = CharStrBuilder::new_vec();
            let (h1, h2) = data.split_at(len / 2);
            let r1 = bld.append_slice(h1);
            let before = bld.len();
            let r2 = bld.append_slice(h2);
            if (r1.is_ok() && r2.is_ok()) != fits {
                return Err(format!("CharStrBuilder|append acceptance at {len} octets"));
            }
            if r2.is_err() && bld.len() != before {
                return Err("CharStrBuilder|failed append changed the content".into());
            }
            let fb = CharStrBuilder::from_builder(data.clone());
            if fb.is_ok() != fits {
                return Err(format!("CharStrBuilder|from_builder acceptance at {len} octets"));
            }
            if len == 0 && CharStr::<Vec<u8>>::empty().as_slice() != b"" {
                return Err("CharStr|empty() not empty".into());
            }
            if let (Ok(a), Ok(b)) = (a, b) {
                let built = bld.finish();
                let mut reference = vec![len as u8];
                reference.extend_from_slice(&data);
                for (what, got, cl) in [
                    ("from_octets", { let mut t = Vec::new(); a.compose(&mut t).map_err(|_| "append")?; t }, a.compose_len()),
                    ("from_slice", { let mut t = Vec::new(); b.compose(&mut t).map_err(|_| "append")?; t }, b.compose_len()),
                    ("builder", { let mut t = Vec::new(); built.compose(&mut t).map_err(|_| "append")?; t }, built.compose_len()),
                ] {
                    if got != reference || cl as usize != reference.len() {
                        return Err(format!("CharStr|{what}: compose differs from <len><octets> at {len} octets"));
                    }
                }
                let mut p = Parser::from_ref(reference.as_slice());
                let p1 = CharStr::parse(&mut p).map_err(|e| format!("CharStr|parse rejects own compose: {e}"))?;
                let mut p = Parser::from_ref(reference.as_slice());
                let p2 = CharStr::parse_slice(&mut p).map_err(|e| format!("CharStr|parse_slice rejects own compose: {e}"))?;
                if p1.as_slice() != data || p2.as_slice() != data || p.remaining() != 0 || !(p1 == a) {
                    return Err("CharStr|parse/parse_slice value differs".into());
                }
                if a.len() != len || a.is_empty() != (len == 0) || a.iter().collect::<Vec<u8>>() != data || a.for_slice().as_slice() != data {
                    return Err("CharStr|len/is_empty/iter/for_slice differ".into());
                }
                let again = a.clone().into_builder().finish();
                if again.as_slice() != data || a.clone().into_octets() != data {
                    return Err("CharStr|into_builder/into_octets differ".into());
                }
            }
            // CAA tag, NSEC3 salt and owner hash: 255-octet limit
            let t1 = CaaTag::from_octets(data.clone()).is_ok();
            let t2 = CaaTag::from_slice(&data).is_ok();
            if t1 != fits || t2 != fits {
                return Err(format!("CaaTag|from_octets/from_slice acceptance at {len} octets: {t1} / {t2}"));
            }
            let s1 = Nsec3Salt::from_octets(data.clone());
            let s2 = Nsec3Salt::from_slice(&data);
            let s3 = Nsec3Salt::from_bytes(bytes::Bytes::from(data.clone()));
            if s1.is_ok() != fits || s2.is_ok() != fits || s3.is_ok() != fits {
                return Err(format!("Nsec3Salt|from_octets/from_slice/from_bytes acceptance at {len} octets"));
            }
            if let (Ok(s1), Ok(s2), Ok(s3)) = (s1, s2, s3) {
                if s1.as_slice() != data || s2.as_slice() != data || s3.as_slice() != data || s1.into_octets() != data {
                    return Err("Nsec3Salt|octets differ".into());
                }
            }
            if len == 0 && Nsec3Salt::<Vec<u8>>::empty().as_slice() != b"" {
                return Err("Nsec3Salt|empty() not empty".into());
            }
            let h1 = OwnerHash::from_octets(data.clone());
            let h2 = OwnerHash::from_slice(&data);
            let h3 = OwnerHash::from_bytes(bytes::Bytes::from(data.clone()));
            if h1.is_ok() != fits || h2.is_ok() != fits || h3.is_ok() != fits {
                return Err(format!("OwnerHash|from_octets/from_slice/from_bytes acceptance at {len} octets"));
            }
            if let (Ok(h1), Ok(h2), Ok(h3)) = (h1, h2, h3) {
                if h1.as_slice() != data || h2.as_slice() != data || h3.as_slice() != data || h1.into_octets() != data {
                    return Err("OwnerHash|octets differ".into());
                }
            }
            Ok(())
        });
        match r {
            Ok(Ok(())) => lc.inc("CTOR-VARIANTS:agree"),
            Ok(Err(e)) => report(e.split(':').next().unwrap_or(""), e.clone()),
            Err(e) => report(&format!("panic|{}", panic_class(&e)), e.clone()),
        }
    }
    // whole-RDATA wrappers: from_slice must decide like from_octets, whose
    // decision is checked against an independent validity predicate
    let txt_valid = |b: &[u8]| -> bool {
        if b.is_empty() || b.len() > 65535 {
            return false;
        }
        let mut p = 0;
        while p < b.len() {
            p += 1 + b[p] as usize;
        }
        p == b.len()
    };
    let opt_valid = |b: &[u8]| b.len() <= 65535 && split_options(b).is_some();
    let svc_valid = |b: &[u8]| -> bool {
        let mut p = 0;
        let mut last: Option<u16> = None;
        while p < b.len() {
            if p + 4 > b.len() {
                return false;
            }
            let k = u16::from_be_bytes([b[p], b[p + 1]]);
            let l = u16::from_be_bytes([b[p + 2], b[p + 3]]) as usize;
            if last.map(|x| k <= x).unwrap_or(false) || p + 4 + l > b.len() {
                return false;
            }
            last = Some(k);
            p += 4 + l;
        }
        true
    };
    let inputs: Vec<Vec<u8>> = vec![
        vec![],
        vec![0],
        vec![1, b'a'],
        vec![2, b'a'],
        vec![1, b'a', 0],
        vec![0, 3, 0, 0],
        vec![0, 3, 0, 1, 9],
        vec![0, 3, 0, 2, 9],
        vec![0, 3, 0],
        vec![0, 1, 0, 0, 0, 3, 0, 2, 1, 187],
        vec![0, 3, 0, 2, 1, 187, 0, 1, 0, 0],
        vec![0, 1, 0, 0, 0, 1, 0, 0],
        vec![0; 65535],
        vec![0; 65536],
    ];
    for b in &inputs {
        n += 1;
        lc.ev();
        lc.inc("CTOR-VARIANTS:cases");
        let r = guard(|| -> Result<(), String> {
            let (a1, a2) = (Txt::from_octets(b.clone()).is_ok(), Txt::from_slice(b).is_ok());
            if a1 != txt_valid(b) || a2 != a1 {
                return Err(format!("Txt|from_octets/from_slice acceptance {a1}/{a2}, reference {}: {} octets {}", txt_valid(b), b.len(), hex(&b[..b.len().min(12)])));
            }
            if a1 {
                let x = Txt::from_slice(b).map_err(|e| e.to_string())?;
                if x.len() != b.len() || x.iter_charstrs().count() != Txt::from_octets(b.clone()).map_err(|e| e.to_string())?.iter_charstrs().count() {
                    return Err("Txt|from_slice value differs from from_octets".into());
                }
            }
            let (n1, n2) = (Null::from_octets(b.clone()).is_ok(), Null::from_slice(b).is_ok());
            if n1 != (b.len() <= 65535) || n2 != n1 {
                return Err(format!("Null|from_octets/from_slice acceptance {n1}/{n2} at {} octets", b.len()));
            }
            if n1 && Null::from_slice(b).map_err(|e| e.to_string())?.data() != &b[..] {
                return Err("Null|from_slice data differs".into());
            }
            let (o1, o2) = (Opt::from_octets(b.clone()).is_ok(), Opt::from_slice(b).is_ok());
            if o1 != opt_valid(b) || o2 != o1 {
                return Err(format!("Opt|from_octets/from_slice acceptance {o1}/{o2}, reference {}: {} octets {}", opt_valid(b), b.len(), hex(&b[..b.len().min(12)])));
            }
            let (s1, s2) = (SvcParams::from_octets(b.clone()).is_ok(), SvcParams::from_slice(b).is_ok());
            if s1 != svc_valid(b) || s2 != s1 {
                return Err(format!("SvcParams|from_octets/from_slice acceptance {s1}/{s2}, reference {}: {} octets {}", svc_valid(b), b.len(), hex(&b[..b.len().min(12)])));
            }
            if s1 && SvcParams::from_slice(b).map_err(|_| "SvcParams|from_slice".to_string())?.as_slice() != &b[..] {
                return Err("SvcParams|from_slice octets differ".into());
            }
            Ok(())
        });
        match r {
            Ok(Ok(())) => lc.inc("CTOR-VARIANTS:agree"),
            Ok(Err(e)) => report(e.split(':').next().unwrap_or(""), e.clone()),
            Err(e) => report(&format!("panic|{}", panic_class(&e)), e.clone()),
        }
    }
    // small fixed constructors
    n += 1;
    lc.ev();
    let r = guard(|| -> Result<(), String> {
        if CaaFlags::critical().bits() != 0x80 || CaaFlags::default().bits() != 0 {
            return Err("CaaFlags|critical()/default() bits".into());
        }
        let d = domain::rdata::Nsec3param::<Vec<u8>>::default();
        let mut t = Vec::new();
        d.compose_rdata(&mut t).map_err(|_| "append")?;
        // RFC 9276 §3.1: SHA-1 (1), flags 0, 0 iterations, empty salt
        if t != [1, 0, 0, 0, 0] {
            return Err(format!("Nsec3param|default() composes to {}", hex(&t)));
        }
        let mut b = domain::rdata::dnssec::RtypeBitmap::<Vec<u8>>::builder();
        b.add(Rtype::from_int(1)).map_err(|_| "append")?;
        let mut b2 = domain::rdata::dnssec::RtypeBitmapBuilder::with_builder(Vec::<u8>::new());
        b2.add(Rtype::from_int(1)).map_err(|_| "append")?;
        let mut b3 = domain::rdata::dnssec::RtypeBitmapBuilder::<Vec<u8>>::default();
        b3.add(Rtype::from_int(1)).map_err(|_| "append")?;
        for bm in [b.finalize(), b2.finalize(), b3.finalize()] {
            if bm.as_slice() != [0, 1, 0x40] || bm.as_octets() != &vec![0, 1, 0x40] {
                return Err("RtypeBitmap|builder()/with_builder()/default() differ".into());
            }
        }
        Ok(())
    });
    match r {
        Ok(Ok(())) => lc.inc("CTOR-VARIANTS:agree"),
        Ok(Err(e)) => report(e.split(':').next().unwrap_or(""), e.clone()),
        Err(e) => report(&format!("panic|{}", panic_class(&e)), e.clone()),
    }
    // over-long input to the stand-alone parsers that check for it: must be
    // an error (LongRecordData -> ParseError), never a value
    for rtype in [10u16, 16, 43, 48, 59, 60, 46, 250, 64, 65, 41] {
        n += 1;
        lc.ev();
        lc.inc("CTOR-VARIANTS:cases");
        let big = vec![0u8; 65536];
        match parse_alone(rtype, &big) {
            Ok(Err(_)) => lc.inc("CTOR-VARIANTS:agree"),
            Ok(Ok(_)) => report(&format!("{}|parse|accepts-65536-octets-of-rdata", rtype_label(rtype)), format!("type {rtype}: 65536 zero octets parsed into a value")),
            Err(e) => report(&format!("{}|parse|panic|{}", rtype_label(rtype), panic_class(&e)), e),
        }
    }
    n
}

//------------ hand-built name layouts ------------------------------------------------

/// Shapes an embedded (or owner) name can take inside a message. The
/// library's own compressors only ever write "labels, then one pointer to a
/// flat tail"; a peer may write any of these.
const NAME_SHAPES: &[&str] = &[
    "flat",
    "labels+ptr>flat",
    "ptr>flat",
    "ptr>(labels+ptr>flat)",
    "labels+ptr>(labels+ptr>flat)",
    "ptr>(labels+ptr>(labels+ptr>flat))",
    "ptr>ptr>(labels+ptr>(labels+ptr>flat))",
    "ptr>ptr>flat",
];

/// Message prefix written by hand: header (QD=1, AN=5), question "b. A IN"
/// at 12, and four NS records whose RDATA provide the landmarks
///   L1: 3 "Web" ptr(12)            = Web.b.
///   L2: 1 "x"   ptr(L1)            = x.Web.b.
///   L3: ptr(L2)                    (bare pointer)
///   L4: ptr(12)                    (bare pointer)
/// Returns (octets, [L1, L2, L3, L4]).
fn layout_prefix() -> (Vec<u8>, [usize; 4]) {
    let mut m = vec![0x43, 0x21, 0x84, 0, 0, 1, 0, 5, 0, 0, 0, 0];
    m.extend_from_slice(&[1, b'b', 0, 0, 1, 0, 1]);
    let mut marks = [0usize; 4];
    let ptr = |t: usize| [0xC0 | (t >> 8) as u8, t as u8];
    for k in 0..4 {
        m.extend_from_slice(&ptr(QNAME_POS));
        m.extend_from_slice(&[0, 2, 0, 1, 0, 0, 0, 60]);
        let rd: Vec<u8> = match k {
            0 => cat(&[&[3, b'W', b'e', b'b'], &ptr(QNAME_POS)]),
            1 => cat(&[&[1, b'x'], &ptr(marks[0])]),
            2 => ptr(marks[1]).to_vec(),
            _ => ptr(QNAME_POS).to_vec(),
        };
        m.extend_from_slice(&(rd.len() as u16).to_be_bytes());
        marks[k] = m.len();
        m.extend_from_slice(&rd);
    }
    (m, marks)
}

/// (octets as written in the message, labels of the name) for a shape.
fn shaped_name(shape: usize, marks: &[usize; 4]) -> (Vec<u8>, Vec<Vec<u8>>) {
    let ptr = |t: usize| vec![0xC0 | (t >> 8) as u8, t as u8];
    let l = |s: &[&[u8]]| s.iter().map(|x| x.to_vec()).collect::<Vec<_>>();
    match shape {
        0 => (vec![2, b'F', b'l', 0], l(&[b"Fl"])),
        1 => (cat(&[&[1, b'A'], &ptr(QNAME_POS)]), l(&[b"A", b"b"])),
        2 => (ptr(QNAME_POS), l(&[b"b"])),
        3 => (ptr(marks[0]), l(&[b"Web", b"b"])),
        4 => (cat(&[&[1, b'Y'], &ptr(marks[0])]), l(&[b"Y", b"Web", b"b"])),
        5 => (ptr(marks[1]), l(&[b"x", b"Web", b"b"])),
        6 => (ptr(marks[2]), l(&[b"x", b"Web", b"b"])),
        _ => (ptr(marks[3]), l(&[b"b"])),
    }
}

/// RDATA templates of every name-bearing type: `None` is a name slot.
fn layout_templates() -> Vec<(u16, Vec<Option<Vec<u8>>>)> {
    let b = |x: &[u8]| Some(x.to_vec());
    let mut t: Vec<(u16, Vec<Option<Vec<u8>>>)> = Vec::new();
    for rt in [2u16, 3, 4, 5, 7, 8, 9, 12, 39] {
        t.push((rt, vec![None]));
    }
    t.push((15, vec![b(&[0, 10]), None]));
    t.push((6, vec![None, None, b(&[0, 0, 0, 1, 0, 0, 0, 2, 0, 0, 0, 3, 0, 0, 0, 4, 0, 0, 0, 5])]));
    t.push((14, vec![None, None]));
    t.push((17, vec![None, None]));
    t.push((33, vec![b(&[0, 1, 0, 2, 0, 80]), None]));
    t.push((35, vec![b(&[0, 1, 0, 2, 1, b'U', 3, b's', b'i', b'p', 0]), None]));
    t.push((46, vec![b(&[0, 1, 8, 2, 0, 0, 14, 16, 0, 0, 0, 2, 0, 0, 0, 1, 0x12, 0x34]), None, b(&[9, 8, 7])]));
    t.push((47, vec![None, b(&[0, 1, 0x40])]));
    t.push((64, vec![b(&[0, 1]), None, b(&[0, 1, 0, 3, 2, b'h', b'2'])]));
    t.push((65, vec![b(&[0, 0]), None]));
    t.push((45, vec![b(&[10, 3, 2]), None, b(&[1, 2])]));
    t.push((250, vec![None, b(&[0, 0, 0, 0, 0, 1, 1, 44, 0, 2, 7, 7, 0x12, 0x34, 0, 0, 0, 0])]));
    t
}

struct LayoutObs {
    composed: Vec<u8>,
    canonical: Vec<u8>,
    rdlen: Option<u16>,
    eq_ref: Result<(bool, bool), String>,
    flat_composed: Vec<u8>,
    flat_eq: bool,
    owner: Vec<u8>,
}

/// One hand-built message: the record under test is the last answer; its
/// owner and every embedded name take the given shapes.
///
/// `core`: the message isolates one name shape (NS target or A owner); a
/// failure is then a property of the parsed-name machinery shared by all
/// types and is reported per shape, not per type. Returns false on failure.
fn check_layout(env: &Env, rtype: u16, tmpl: &[Option<Vec<u8>>], owner_shape: usize, shapes: &[usize], core: bool, lc: &mut Local) -> bool {
    let t = if core {
        format!("name-layout-core|shape={}", NAME_SHAPES[shapes.first().cloned().unwrap_or(owner_shape)])
    } else {
        rtype_label(rtype)
    };
    let (mut msg, marks) = layout_prefix();
    // independent writer: record under test
    let (owner_wire, owner_labels) = shaped_name(owner_shape, &marks);
    msg.extend_from_slice(&owner_wire);
    msg.extend_from_slice(&rtype.to_be_bytes());
    msg.extend_from_slice(&[0, 1, 0, 0, 14, 16]);
    let mut rd = Vec::new();
    let mut reference = Vec::new();
    let mut spans = Vec::new();
    let mut k = 0;
    for part in tmpl {
        match part {
            Some(b) => {
                rd.extend_from_slice(b);
                reference.extend_from_slice(b);
            }
            None => {
                let (wire, labels) = shaped_name(shapes[k], &marks);
                k += 1;
                rd.extend_from_slice(&wire);
                let flat = w::to_wire(&labels);
                spans.push((reference.len(), flat.len()));
                reference.extend_from_slice(&flat);
            }
        }
    }
    msg.extend_from_slice(&(rd.len() as u16).to_be_bytes());
    msg.extend_from_slice(&rd);
    let shape_txt = format!("owner={} names=[{}]", NAME_SHAPES[owner_shape], shapes.iter().map(|s| NAME_SHAPES[*s]).collect::<Vec<_>>().join(", "));
    let case = || json!({"kind": "layout", "rtype": rtype, "owner_shape": owner_shape, "shapes": shapes, "message": hex(&msg), "reference_rdata": hex(&reference), "shapes_text": shape_txt, "core": core});
    lc.ev();
    lc.inc(format!("LAYOUT-{t}:cases"));
    // the layout itself must be a valid message for the independent reader
    match w::read_message(&msg) {
        Ok(raw) if raw.end == msg.len() && raw.sections[0].len() == 5 && raw.sections[0][4].owner == owner_labels => {}
        other => {
            env.viol("C05|name-layout|harness-layout-invalid".into(), format!("{shape_txt}: {:?}", other.map(|r| r.end)), case());
            return false;
        }
    }
    let expect_canon = if CANONICAL_LOWERCASE.contains(&rtype) { lowercase_names(&reference, &spans) } else { reference.clone() };
    let obs = guard(|| -> Result<LayoutObs, String> {
        let m = Message::from_octets(msg.as_slice()).map_err(|e| format!("from_octets: {e}"))?;
        let last = m.answer().map_err(|e| format!("answer: {e}"))?.last().ok_or("no record")?.map_err(|e| format!("record: {e}"))?;
        let rec = last.to_any_record::<PRd>().map_err(|e| format!("REJECTED: {e}"))?;
        let p = rec.data();
        let mut composed = Vec::new();
        p.compose_rdata(&mut composed).map_err(|_| "append")?;
        let mut canonical = Vec::new();
        p.compose_canonical_rdata(&mut canonical).map_err(|_| "append")?;
        let rdlen = p.rdlen(false);
        let mut parser = Parser::from_ref(reference.as_slice());
        let eq_ref = match PRd::parse_any_rdata(Rtype::from_int(rtype), &mut parser) {
            Ok(pr) => Ok((p == &pr, &pr == p)),
            Err(e) => Err(e.to_string()),
        };
        use domain::base::name::{FlattenInto, ToName};
        let flat: Rd = p.clone().try_flatten_into().map_err(|_: std::convert::Infallible| String::new())?;
        let mut flat_composed = Vec::new();
        flat.compose_rdata(&mut flat_composed).map_err(|_| "append")?;
        let flat_eq = &flat == p && p == &flat;
        let owner: Name<Vec<u8>> = rec.owner().to_name();
        Ok(LayoutObs { composed, canonical, rdlen, eq_ref, flat_composed, flat_eq, owner: owner.as_slice().to_vec() })
    });
    let o = match obs {
        Err(e) => {
            env.viol(format!("C05|{t}|name-layout|panic|{}", panic_class(&e)), format!("{shape_txt}: {e}"), case());
            return false;
        }
        Ok(Err(e)) if e.starts_with("REJECTED") => {
            lc.inc(format!("LAYOUT-{t}:rejected"));
            // RFC 3597 §4: receivers MUST decompress names in the RFC 1035 types
            if MAY_COMPRESS.contains(&rtype) {
                env.viol(format!("C05|{t}|name-layout|parse|valid-compressed-names-rejected"), format!("{shape_txt}: {e}"), case());
                return false;
            }
            return true;
        }
        Ok(Err(e)) => {
            env.viol(format!("C05|{t}|name-layout|read|{}", err_class(&e)), format!("{shape_txt}: {e}"), case());
            return false;
        }
        Ok(Ok(o)) => o,
    };
    lc.inc(format!("LAYOUT-{t}:accepted"));
    let fail = |check: &str, what: String| {
        env.viol(format!("C05|{t}|name-layout|{check}"), format!("type {}: {shape_txt}: {what}", rtype_label(rtype)), case());
    };
    let mut ok = true;
    if o.composed != reference {
        fail("compose_rdata|differs-from-decompressed-reference", first_diff(&o.composed, &reference));
        ok = false;
    }
    if o.canonical != expect_canon {
        fail("compose_canonical_rdata|differs-from-decompressed-reference", first_diff(&o.canonical, &expect_canon));
        ok = false;
    }
    if let Some(n) = o.rdlen {
        if n as usize != reference.len() {
            fail("rdlen(false)|!=uncompressed-length", format!("rdlen {n}, uncompressed RDATA has {} octets", reference.len()));
            ok = false;
        }
    }
    match &o.eq_ref {
        Ok((true, true)) => {}
        Ok(x) => {
            fail("eq|parsed-from-message!=parsed-from-uncompressed-reference", format!("{x:?}"));
            ok = false;
        }
        Err(e) => {
            fail("reference-rdata-rejected", e.clone());
            ok = false;
        }
    }
    if o.flat_composed != reference || !o.flat_eq {
        fail("flatten(to_name)|differs-from-decompressed-reference", format!("eq={} {}", o.flat_eq, if o.flat_composed != reference { first_diff(&o.flat_composed, &reference) } else { String::new() }));
        ok = false;
    }
    if o.owner != w::to_wire(&owner_labels) {
        fail("owner.to_name|differs-from-decompressed-owner", first_diff(&o.owner, &w::to_wire(&owner_labels)));
        ok = false;
    }
    if ok {
        lc.inc(format!("LAYOUT-{t}:roundtripped"));
        let mut key = vec![0xFC, owner_shape as u8];
        key.extend_from_slice(&rtype.to_be_bytes());
        key.extend_from_slice(&rd);
        lc.distinct.push(fnv(&key));
    }
    ok
}

/// First the core: every shape alone as NS target and as owner of an A
/// record. Shapes that fail there taint every message containing them
/// (reported once per shape, the per-type messages are skipped). Then every
/// template x every shape of every name slot (owner flat), plus every owner
/// shape with all names in the same shape.
fn run_layouts(env: &Env, lc: &mut Local) -> u64 {
    let mut n = 0;
    let ns = NAME_SHAPES.len();
    let mut bad = vec![false; ns];
    for sh in 0..ns {
        let a = check_layout(env, 2, &[None], 0, &[sh], true, lc);
        let b = check_layout(env, 1, &[Some(vec![192, 0, 2, 1])], sh, &[], true, lc);
        bad[sh] = !(a && b);
        n += 2;
    }
    for (rtype, tmpl) in layout_templates() {
        let t = rtype_label(rtype);
        let slots = tmpl.iter().filter(|p| p.is_none()).count();
        product(&vec![ns; slots], |idx| {
            n += 1;
            if idx.iter().any(|s| bad[*s]) {
                lc.inc(format!("LAYOUT-{t}:skipped-shape-failed-in-core"));
                return;
            }
            check_layout(env, rtype, &tmpl, 0, idx, false, lc);
        });
        for os in 1..ns {
            n += 1;
            if bad[os] {
                lc.inc(format!("LAYOUT-{t}:skipped-shape-failed-in-core"));
                continue;
            }
            check_layout(env, rtype, &tmpl, os, &vec![os; slots], false, lc);
        }
    }
    n
}

//------------ compose sequences with truncation ---------------------------------------
//
// Part 7. Everything above composes a value on a FRESH target, once. A
// compressing target has a memory (which names sit at which offsets), and the
// library itself truncates targets: a failed `push` (buffer full, push
// limit), a section `rewind()`, the error path of `compose_len_rdata`. After
// a truncation the memory must describe the octets that are still there and
// nothing else, or the next record data composed at the same place gets a
// pointer into octets that now mean something different.
//
// Alphabet: a family of related names (suffix, same leading labels, longer,
// case variant, unrelated) x every name-bearing type x 2-3 compose steps x
// cut positions between the steps x three compressors x {Vec, bounded buffer
// on which the first attempt fails inside the RDATA} x {raw target driven
// with compose_len_rdata / truncate, MessageBuilder driven with push /
// rewind / push limit}.
//
// Oracle (independent reader `mc::wire`): for every record that is still
// complete at the end, RDLENGTH == octets written, literal RDATA octets ==
// reference, every embedded name decompresses (pointers strictly backwards
// into the final buffer) to the name of the value composed there, names are
// compressed only in RFC 3597 §4 types; then the library's own parser must
// return a value equal to the composed one.

#[derive(Clone, Debug)]
struct Bounded {
    v: Vec<u8>,
    cap: std::cell::Cell<usize>,
}

impl OctetsBuilder for Bounded {
    type AppendError = ShortBuf;
    fn append_slice(&mut self, slice: &[u8]) -> Result<(), ShortBuf> {
        if self.v.len() + slice.len() > self.cap.get() {
            Err(ShortBuf)
        } else {
            self.v.extend_from_slice(slice);
            Ok(())
        }
    }
}
impl Truncate for Bounded {
    fn truncate(&mut self, len: usize) {
        self.v.truncate(len)
    }
}
impl AsRef<[u8]> for Bounded {
    fn as_ref(&self) -> &[u8] {
        &self.v
    }
}
impl AsMut<[u8]> for Bounded {
    fn as_mut(&mut self) -> &mut [u8] {
        &mut self.v
    }
}
impl Composer for Bounded {}

trait SeqTarget: Composer + Clone + Sized {
    const COMP: &'static str;
    const BUF: &'static str;
    fn fresh() -> Self;
    fn set_cap(&self, cap: usize);
}

macro_rules! seq_targets {
    ($($c:ident => $n:literal),*) => {$(
        impl SeqTarget for $c<Vec<u8>> {
            const COMP: &'static str = $n;
            const BUF: &'static str = "Vec";
            fn fresh() -> Self { $c::new(Vec::new()) }
            fn set_cap(&self, _cap: usize) {}
        }
        impl SeqTarget for $c<Bounded> {
            const COMP: &'static str = $n;
            const BUF: &'static str = "Bounded";
            fn fresh() -> Self { $c::new(Bounded { v: Vec::new(), cap: std::cell::Cell::new(usize::MAX) }) }
            fn set_cap(&self, cap: usize) { self.as_target().cap.set(cap) }
        }
    )*};
}
seq_targets!(StaticCompressor => "Static", TreeCompressor => "Tree", HashCompressor => "Hash");

enum SeqPart {
    Lit(Vec<u8>),
    Nm(usize),
}

struct SeqVal {
    rtype: u16,
    parts: Vec<SeqPart>,
    /// offset of the first embedded name inside the (uncompressed) RDATA
    first_name_off: usize,
    data: Rd,
    desc: String,
}

struct SeqTable {
    /// (presentation, labels, library name)
    fam: Vec<(&'static str, Vec<Vec<u8>>, VN)>,
    vals: Vec<SeqVal>,
    /// question / owner menu: indices into `fam` (None: no question, owner root)
    questions: Vec<Option<usize>>,
    /// values that make the history (first steps)
    first: Vec<usize>,
    /// first steps that fail on the bounded buffer
    first_fail: Vec<usize>,
    /// records pushed before the first step and kept (builder route, thorough)
    kept_before: Vec<usize>,
    /// values composed last
    second: Vec<usize>,
    /// values composed last after a failed attempt
    second_after_fail: Vec<usize>,
    /// values for three-step sequences, per step
    triple: [Vec<usize>; 2],
}

fn seq_table(tier: Tier) -> Result<SeqTable, String> {
    let full = tier == Tier::Thorough;
    let mut names: Vec<(&'static str, Vec<&[u8]>)> = vec![
        ("x.", vec![b"x"]),
        ("a.", vec![b"a"]),
        ("a.x.", vec![b"a", b"x"]),
        ("x.a.", vec![b"x", b"a"]),
        ("b.a.x.", vec![b"b", b"a", b"x"]),
        ("A.X.", vec![b"A", b"X"]),
        ("y.", vec![b"y"]),
    ];
    if full {
        names.push(("X.", vec![b"X"]));
        names.push(("x.x.", vec![b"x", b"x"]));
        names.push(("c.b.a.x.", vec![b"c", b"b", b"a", b"x"]));
    }
    let mut fam = Vec::new();
    for (p, l) in names {
        let labels: Vec<Vec<u8>> = l.iter().map(|x| x.to_vec()).collect();
        let n = Name::from_octets(w::to_wire(&labels)).map_err(|e| format!("family name {p}: {e}"))?;
        fam.push((p, labels, n));
    }
    let nf = fam.len();
    let mut vals = Vec::new();
    let mut first = Vec::new();
    let mut first_fail = Vec::new();
    let mut kept_before = Vec::new();
    let mut second = Vec::new();
    let mut second_after_fail = Vec::new();
    let mut triple = [Vec::new(), Vec::new()];
    for (rtype, tmpl) in layout_templates() {
        let slots = tmpl.iter().filter(|p| p.is_none()).count();
        let mut combos: Vec<(Vec<usize>, bool)> = Vec::new(); // (names, in the restricted pair menu)
        product(&vec![nf; slots], |idx| {
            let restricted = slots < 2 || idx[1] == idx[0] || idx[1] == (idx[0] + 1) % nf;
            if full || restricted {
                combos.push((idx.to_vec(), restricted));
            }
        });
        for (idx, restricted) in combos {
            let mut parts = Vec::new();
            let mut reference = Vec::new();
            let mut first_name_off = None;
            let mut k = 0;
            for p in &tmpl {
                match p {
                    Some(b) => {
                        reference.extend_from_slice(b);
                        parts.push(SeqPart::Lit(b.clone()));
                    }
                    None => {
                        first_name_off.get_or_insert(reference.len());
                        reference.extend_from_slice(&w::to_wire(&fam[idx[k]].1));
                        parts.push(SeqPart::Nm(idx[k]));
                        k += 1;
                    }
                }
            }
            let desc = format!("{}({})", rtype_label(rtype), idx.iter().map(|i| fam[*i].0).collect::<Vec<_>>().join(" "));
            let data = guard(|| -> Result<Rd, String> {
                use domain::base::name::FlattenInto;
                let mut p = Parser::from_ref(reference.as_slice());
                let d = PRd::parse_any_rdata(Rtype::from_int(rtype), &mut p).map_err(|e| e.to_string())?;
                if p.remaining() != 0 {
                    return Err("octets left".into());
                }
                d.try_flatten_into().map_err(|_: std::convert::Infallible| String::new())
            })
            .and_then(|r| r)
            .map_err(|e| format!("{desc}: {e}"))?;
            let vi = vals.len();
            vals.push(SeqVal { rtype, parts, first_name_off: first_name_off.unwrap_or(0), data, desc });
            let history_type = full || matches!(rtype, 2 | 15 | 6 | 33);
            if history_type && restricted {
                first.push(vi);
            }
            if matches!(rtype, 2 | 15 | 6 | 33 | 14) && restricted && (full || rtype != 14) {
                first_fail.push(vi);
            }
            if (rtype == 2 && idx[0] == 4) || (rtype == 15 && idx[0] == 3) {
                kept_before.push(vi);
            }
            second.push(vi);
            if restricted && (MAY_COMPRESS.contains(&rtype) || rtype == 33) {
                second_after_fail.push(vi);
            }
            if rtype == 2 {
                triple[0].push(vi);
            }
            if rtype == 15 {
                triple[1].push(vi);
            }
        }
    }
    let mut questions = vec![None, Some(0), Some(1)];
    if full {
        questions.push(Some(2));
    }
    Ok(SeqTable { fam, vals, questions, first, first_fail, kept_before, second, second_after_fail, triple })
}

#[derive(Clone, Copy, Debug, PartialEq, Eq)]
enum Cut {
    /// back to the start of the previous record
    RecStart,
    /// back to the RDLENGTH field of the previous record
    RdataStart,
    /// behind the first label of the first name in the previous RDATA
    AfterFirstLabel,
    /// behind the length octet of that label
    InsideFirstLabel,
}

#[derive(Clone, Copy, Debug, PartialEq, Eq)]
enum CapAt {
    /// room for RDLENGTH, for nothing of the RDATA
    RdlengthOnly,
    /// room up to and including the first label of the first name
    FirstLabel,
    /// one octet short of the complete RDATA
    AllButLast,
    /// RDLENGTH position + n (thorough: every n)
    Plus(usize),
}

#[derive(Clone, Copy, Debug, PartialEq, Eq)]
enum Fail {
    Cap(CapAt),
    /// MessageBuilder::set_push_limit at the end of the record
    Limit,
}

#[derive(Clone, Copy, Debug, PartialEq, Eq)]
enum Op {
    Rec { val: usize, fail: Option<Fail> },
    Cut(Cut),
    /// AnswerBuilder::rewind
    Rewind,
}

fn history_class(ops: &[Op]) -> &'static str {
    if ops.iter().any(|o| matches!(o, Op::Cut(Cut::AfterFirstLabel | Cut::InsideFirstLabel))) {
        "cut-inside-a-name"
    } else if ops.iter().any(|o| matches!(o, Op::Rec { fail: Some(_), .. })) {
        "after-failed-attempt"
    } else if ops.iter().any(|o| matches!(o, Op::Cut(_) | Op::Rewind)) {
        "after-truncation-to-record-or-rdata-start"
    } else {
        "append-only"
    }
}

struct SeqRec {
    rec_start: usize,
    rdlen_pos: usize,
    end: usize,
    val: usize,
}

/// Independent reading of one RDATA (RDLENGTH at `rdlen_pos`, written up to
/// `end`). Ok(true): at least one name was compressed.
fn seq_verify(buf: &[u8], rdlen_pos: usize, end: usize, v: &SeqVal, tbl: &SeqTable) -> Result<bool, (&'static str, String)> {
    let rdlen = w::u16_at(buf, rdlen_pos).map_err(|e| ("rdlength-missing", e))? as usize;
    if rdlen_pos + 2 + rdlen != end {
        return Err(("rdlength!=octets-written", format!("RDLENGTH {rdlen}, {} octets written", end as i64 - rdlen_pos as i64 - 2)));
    }
    let buf = &buf[..end];
    let mut pos = rdlen_pos + 2;
    let mut compressed = false;
    for part in &v.parts {
        match part {
            SeqPart::Lit(b) => {
                if buf.get(pos..pos + b.len()) != Some(b.as_slice()) {
                    return Err(("fixed-rdata-octets-differ", format!("at offset {pos}")));
                }
                pos += b.len();
            }
            SeqPart::Nm(i) => {
                let mut ptrs = Vec::new();
                let (labels, next) = w::read_name(buf, pos, &mut ptrs).map_err(|e| ("embedded-name-does-not-decompress-to-the-name-composed", format!("name at offset {pos}: {e}")))?;
                let expect = &tbl.fam[*i].1;
                if ptrs.is_empty() {
                    if &labels != expect {
                        return Err(("embedded-name-differs", format!("uncompressed name at offset {pos}")));
                    }
                } else {
                    compressed = true;
                    if !w::labels_eq_ci(&labels, expect) {
                        return Err((
                            "embedded-name-does-not-decompress-to-the-name-composed",
                            format!("name at offset {pos} (pointers {ptrs:?}) reads {:?}, composed {}", labels.iter().map(|l| String::from_utf8_lossy(l).into_owned()).collect::<Vec<_>>().join("."), tbl.fam[*i].0),
                        ));
                    }
                }
                pos = next;
            }
        }
    }
    if pos != end {
        return Err(("rdata-longer-than-its-fields", format!("fields end at {pos}, RDATA at {end}")));
    }
    Ok(compressed)
}

/// The library's parser on the same octets.
fn seq_lib_parse(buf: &[u8], rdlen_pos: usize, end: usize, v: &SeqVal) -> Result<Result<(), &'static str>, String> {
    guard(|| {
        let mut p = Parser::from_ref(&buf[..end]);
        p.advance(rdlen_pos + 2).map_err(|_| "rejected")?;
        let mut sub = p.parse_parser(end - rdlen_pos - 2).map_err(|_| "rejected")?;
        let d = PRd::parse_any_rdata(Rtype::from_int(v.rtype), &mut sub).map_err(|_| "rejected")?;
        if sub.remaining() != 0 {
            return Err("octets-left");
        }
        if !(d == v.data && v.data == d) {
            return Err("not-equal");
        }
        Ok(())
    })
}

struct SeqCase<'a> {
    tbl: &'a SeqTable,
    route: &'static str,
    comp: &'static str,
    buf: &'static str,
    q: Option<usize>,
    ops: &'a [Op],
}

impl SeqCase<'_> {
    fn ops_text(&self) -> Vec<String> {
        self.ops
            .iter()
            .map(|o| match o {
                Op::Rec { val, fail: None } => format!("compose {}", self.tbl.vals[*val].desc),
                Op::Rec { val, fail: Some(f) } => format!("compose {} (fails: {f:?})", self.tbl.vals[*val].desc),
                Op::Cut(c) => format!("truncate to {c:?} of the previous record"),
                Op::Rewind => "rewind()".to_string(),
            })
            .collect()
    }
    fn json(&self, octets: &[u8]) -> J {
        json!({"kind": "sequence", "route": self.route, "compressor": self.comp, "buffer": self.buf,
               "question_and_owner": self.q.map(|i| self.tbl.fam[i].0).unwrap_or("(no question, owner root)"),
               "ops": self.ops_text(), "octets": hex(&octets[..octets.len().min(512)])})
    }
    fn sig(&self, check: &str) -> String {
        format!("C05|compose-sequence|{}|{}|{}|{check}", self.comp, self.route, history_class(self.ops))
    }
    fn text(&self, what: &str) -> String {
        format!("[{} over {}, {}; question/owner {}] {}: {what}", self.comp, self.buf, self.route, self.q.map(|i| self.tbl.fam[i].0).unwrap_or("-"), self.ops_text().join("; "))
    }
}

/// Check every complete record of the final buffer. `recs`: (RDLENGTH
/// position, end, value).
fn seq_check_records(env: &Env, c: &SeqCase, octets: &[u8], recs: &[(usize, usize, usize)], lc: &mut Local) -> bool {
    let key = format!("SEQ-{}/{}/{}", c.comp, c.buf, c.route);
    for &(rdlen_pos, end, val) in recs {
        let v = &c.tbl.vals[val];
        match seq_verify(octets, rdlen_pos, end, v, c.tbl) {
            Err((class, what)) => {
                env.viol(c.sig(class), c.text(&format!("record data {} at {rdlen_pos}: {what}", v.desc)), c.json(octets));
                return false;
            }
            Ok(compressed) => {
                if compressed {
                    lc.inc(format!("{key}:compressed"));
                    if !MAY_COMPRESS.contains(&v.rtype) {
                        env.viol(c.sig("name-compressed-in-type-outside-rfc3597-4-well-known-list"), c.text(&format!("record data {} at {rdlen_pos}", v.desc)), c.json(octets));
                        return false;
                    }
                }
            }
        }
        match seq_lib_parse(octets, rdlen_pos, end, v) {
            Err(e) => {
                env.viol(c.sig(&format!("library-parse|panic|{}", panic_class(&e))), c.text(&format!("record data {} at {rdlen_pos}: {e}", v.desc)), c.json(octets));
                return false;
            }
            Ok(Err(class)) => {
                env.viol(c.sig(&format!("library-parse|{class}")), c.text(&format!("record data {} at {rdlen_pos}", v.desc)), c.json(octets));
                return false;
            }
            Ok(Ok(())) => {}
        }
    }
    true
}

fn cap_for(cap: CapAt, buf: &[u8], rdlen_pos: usize, fn_pos: usize, end: usize) -> Option<usize> {
    let c = match cap {
        CapAt::RdlengthOnly => rdlen_pos + 2,
        CapAt::FirstLabel => {
            let b = *buf.get(fn_pos)? as usize;
            if b == 0 || b >= 64 {
                return None;
            }
            fn_pos + 1 + b
        }
        CapAt::AllButLast => end.checked_sub(1)?,
        CapAt::Plus(n) => rdlen_pos + n,
    };
    // the attempt has to fail, and has to fail inside the record data
    if c >= rdlen_pos && c < end {
        Some(c)
    } else {
        None
    }
}

const SEQ_FIXED: [u8; 8] = [0, 0, 0, 1, 0, 0, 14, 16];

/// Raw route: the harness plays the message builder on the bare target:
/// header octets, a question, then records written as owner
/// (`append_compressed_name`) + type/class/TTL + `compose_len_rdata`, with
/// `Truncate::truncate` between them. Returns false if the case was not
/// applicable (cut or capacity position does not exist for these values).
fn seq_raw<T: SeqTarget>(env: &Env, tbl: &SeqTable, q: Option<usize>, ops: &[Op], lc: &mut Local) -> bool {
    let c = SeqCase { tbl, route: "raw-target", comp: T::COMP, buf: T::BUF, q, ops };
    let key = format!("SEQ-{}/{}/{}", c.comp, c.buf, c.route);
    let owner: VN = q.map(|i| tbl.fam[i].2.clone()).unwrap_or_else(|| Name::from_octets(vec![0u8]).unwrap());
    let owner_labels: Vec<Vec<u8>> = q.map(|i| tbl.fam[i].1.clone()).unwrap_or_default();
    // Err(None): not applicable; Err(Some): violation (class, text, octets)
    let run = guard(|| -> Result<(Vec<u8>, Vec<SeqRec>), Option<(String, String, Vec<u8>)>> {
        let mut t = T::fresh();
        let bad = |class: &str, what: String, t: &T| Some((class.to_string(), what, t.as_ref().to_vec()));
        if t.append_slice(&[0u8; 12]).is_err() {
            return Err(bad("append-refused-without-capacity-limit", "header".into(), &t));
        }
        if q.is_some() {
            if t.append_compressed_name(&owner).is_err() || t.append_slice(&[0, 1, 0, 1]).is_err() {
                return Err(bad("append-refused-without-capacity-limit", "question".into(), &t));
            }
        }
        let mut recs: Vec<SeqRec> = Vec::new();
        // (rec_start, rdlen_pos, position of the first name) of the last attempt
        let mut last: Option<(usize, usize, usize)> = None;
        let mut reuse_header = false;
        for op in ops {
            match *op {
                Op::Rec { val, fail } => {
                    let v = &tbl.vals[val];
                    let (rec_start, rdlen_pos);
                    if let (true, Some(l)) = (reuse_header, last) {
                        rec_start = l.0;
                        rdlen_pos = t.as_ref().len();
                        t.as_mut()[rdlen_pos - 8..rdlen_pos - 6].copy_from_slice(&v.rtype.to_be_bytes());
                    } else {
                        rec_start = t.as_ref().len();
                        let mut fixed = SEQ_FIXED;
                        fixed[..2].copy_from_slice(&v.rtype.to_be_bytes());
                        if t.append_compressed_name(&owner).is_err() || t.append_slice(&fixed).is_err() {
                            return Err(bad("append-refused-without-capacity-limit", "owner and fixed fields".into(), &t));
                        }
                        rdlen_pos = t.as_ref().len();
                    }
                    reuse_header = false;
                    let fn_pos = rdlen_pos + 2 + v.first_name_off;
                    last = Some((rec_start, rdlen_pos, fn_pos));
                    match fail {
                        None => {
                            if v.data.compose_len_rdata(&mut t).is_err() {
                                return Err(bad("compose_len_rdata-refused-without-capacity-limit", v.desc.clone(), &t));
                            }
                            recs.push(SeqRec { rec_start, rdlen_pos, end: t.as_ref().len(), val });
                        }
                        Some(Fail::Cap(cap)) => {
                            // where would the record data end?
                            let mut dry = t.clone();
                            if v.data.compose_len_rdata(&mut dry).is_err() {
                                return Err(bad("compose_len_rdata-refused-without-capacity-limit", v.desc.clone(), &t));
                            }
                            let cap = cap_for(cap, dry.as_ref(), rdlen_pos, fn_pos, dry.as_ref().len()).ok_or(None)?;
                            t.set_cap(cap);
                            let r = v.data.compose_len_rdata(&mut t);
                            t.set_cap(usize::MAX);
                            if r.is_ok() {
                                return Err(bad("compose_len_rdata-succeeds-on-a-target-too-small-for-the-same-data", format!("{} with capacity {cap}", v.desc), &t));
                            }
                            if t.as_ref().len() > cap {
                                return Err(bad("target-longer-than-its-capacity", format!("{} with capacity {cap}", v.desc), &t));
                            }
                        }
                        Some(Fail::Limit) => return Err(None),
                    }
                }
                Op::Cut(cut) => {
                    let (rec_start, rdlen_pos, fn_pos) = last.ok_or(None)?;
                    let len = t.as_ref().len();
                    let to = match cut {
                        Cut::RecStart => rec_start,
                        Cut::RdataStart => rdlen_pos,
                        Cut::AfterFirstLabel | Cut::InsideFirstLabel => {
                            let b = *t.as_ref().get(fn_pos).ok_or(None)? as usize;
                            if b == 0 {
                                return Err(None);
                            }
                            if b < 64 && cut == Cut::AfterFirstLabel {
                                fn_pos + 1 + b
                            } else {
                                fn_pos + 1
                            }
                        }
                    };
                    if to > len {
                        return Err(None);
                    }
                    t.truncate(to);
                    if t.as_ref().len() != to {
                        return Err(bad("truncate-leaves-other-length", format!("truncate({to}) leaves {}", t.as_ref().len()), &t));
                    }
                    recs.retain(|r| r.end <= to);
                    reuse_header = cut == Cut::RdataStart;
                }
                Op::Rewind => return Err(None),
            }
        }
        Ok((t.as_ref().to_vec(), recs))
    });
    match run {
        Err(e) => {
            lc.ev();
            lc.inc(format!("{key}:cases"));
            env.viol(c.sig(&format!("panic|{}", panic_class(&e))), c.text(&e), c.json(&[]));
            true
        }
        Ok(Err(None)) => {
            lc.inc(format!("{key}:not-applicable"));
            false
        }
        Ok(Err(Some((class, what, octets)))) => {
            lc.ev();
            lc.inc(format!("{key}:cases"));
            env.viol(c.sig(&class), c.text(&what), c.json(&octets));
            true
        }
        Ok(Ok((octets, recs))) => {
            lc.ev();
            lc.inc(format!("{key}:cases"));
            // owners of the surviving records
            for r in &recs {
                let mut ptrs = Vec::new();
                match w::read_name(&octets[..r.end], r.rec_start, &mut ptrs) {
                    Ok((labels, next)) if next + 8 == r.rdlen_pos && w::labels_eq_ci(&labels, &owner_labels) => {}
                    other => {
                        env.viol(c.sig("owner-decompresses-to-other-name"), c.text(&format!("owner at {}: {:?}", r.rec_start, other.map(|x| x.1))), c.json(&octets));
                        return true;
                    }
                }
            }
            let list: Vec<(usize, usize, usize)> = recs.iter().map(|r| (r.rdlen_pos, r.end, r.val)).collect();
            if seq_check_records(env, &c, &octets, &list, lc) {
                lc.inc(format!("{key}:roundtripped"));
                let mut k = octets;
                k.extend_from_slice(c.comp.as_bytes());
                k.push(0xF7);
                lc.distinct.push(fnv(&k));
            }
            true
        }
    }
}

/// Builder route: the same sequences through MessageBuilder: push, failed
/// push (buffer full / push limit), rewind of the answer section.
fn seq_builder<T: SeqTarget>(env: &Env, tbl: &SeqTable, q: Option<usize>, ops: &[Op], lc: &mut Local) -> bool {
    let c = SeqCase { tbl, route: "message-builder", comp: T::COMP, buf: T::BUF, q, ops };
    let key = format!("SEQ-{}/{}/{}", c.comp, c.buf, c.route);
    let owner: VN = q.map(|i| tbl.fam[i].2.clone()).unwrap_or_else(|| Name::from_octets(vec![0u8]).unwrap());
    let owner_labels: Vec<Vec<u8>> = q.map(|i| tbl.fam[i].1.clone()).unwrap_or_default();
    let run = guard(|| -> Result<(Vec<u8>, Vec<usize>), Option<(String, String, Vec<u8>)>> {
        let bad = |class: &str, what: String, o: &[u8]| Some((class.to_string(), what, o.to_vec()));
        let mb = MessageBuilder::from_target(T::fresh()).map_err(|_| bad("push-refused-without-limit", "header".into(), &[]))?;
        let mut qb = mb.question();
        if q.is_some() {
            qb.push((&owner, Rtype::A)).map_err(|_| bad("push-refused-without-limit", "question".into(), &[]))?;
        }
        let mut a = qb.answer();
        let mut kept: Vec<usize> = Vec::new();
        for op in ops {
            match *op {
                Op::Rec { val, fail } => {
                    let v = &tbl.vals[val];
                    let rec = Record::new(&owner, Class::IN, Ttl::from_secs(3600), &v.data);
                    match fail {
                        None => {
                            if a.push(&rec).is_err() {
                                return Err(bad("push-refused-without-limit", v.desc.clone(), a.as_slice()));
                            }
                            kept.push(val);
                        }
                        Some(f) => {
                            let before = a.as_slice().len();
                            let mut dry = a.clone();
                            if dry.push(&rec).is_err() {
                                return Err(bad("push-refused-without-limit", v.desc.clone(), a.as_slice()));
                            }
                            let d = dry.as_slice();
                            let mut ptrs = Vec::new();
                            let (_, next) = w::read_name(d, before, &mut ptrs).map_err(|e| bad("owner-unreadable", e, d))?;
                            let rdlen_pos = next + 8;
                            match f {
                                Fail::Limit => a.set_push_limit(d.len()),
                                Fail::Cap(cap) => {
                                    let cap = cap_for(cap, d, rdlen_pos, rdlen_pos + 2 + v.first_name_off, d.len()).ok_or(None)?;
                                    a.as_target().set_cap(cap);
                                }
                            }
                            let r = a.push(&rec);
                            a.clear_push_limit();
                            a.as_target().set_cap(usize::MAX);
                            if r.is_ok() {
                                return Err(bad("push-succeeds-beyond-limit", v.desc.clone(), a.as_slice()));
                            }
                            if a.as_slice().len() != before {
                                return Err(bad("failed-push-leaves-octets", format!("{}: {} octets before, {} after", v.desc, before, a.as_slice().len()), a.as_slice()));
                            }
                        }
                    }
                }
                Op::Rewind => {
                    a.rewind();
                    kept.clear();
                }
                Op::Cut(_) => return Err(None),
            }
        }
        Ok((a.finish().as_ref().to_vec(), kept))
    });
    lc_count_builder(env, &c, &key, run, &owner_labels, lc)
}

fn lc_count_builder(env: &Env, c: &SeqCase, key: &str, run: Result<Result<(Vec<u8>, Vec<usize>), Option<(String, String, Vec<u8>)>>, String>, owner_labels: &[Vec<u8>], lc: &mut Local) -> bool {
    let (octets, kept) = match run {
        Err(e) => {
            lc.ev();
            lc.inc(format!("{key}:cases"));
            env.viol(c.sig(&format!("panic|{}", panic_class(&e))), c.text(&e), c.json(&[]));
            return true;
        }
        Ok(Err(None)) => {
            lc.inc(format!("{key}:not-applicable"));
            return false;
        }
        Ok(Err(Some((class, what, octets)))) => {
            lc.ev();
            lc.inc(format!("{key}:cases"));
            env.viol(c.sig(&class), c.text(&what), c.json(&octets));
            return true;
        }
        Ok(Ok(x)) => x,
    };
    lc.ev();
    lc.inc(format!("{key}:cases"));
    let raw = match w::read_message(&octets) {
        Ok(r) => r,
        Err(e) => {
            env.viol(c.sig("independent-reader-rejects-message"), c.text(&e), c.json(&octets));
            return true;
        }
    };
    let structure_ok = raw.end == octets.len()
        && raw.questions.len() == c.q.is_some() as usize
        && raw.sections[0].len() == kept.len()
        && raw.sections[1].is_empty()
        && raw.sections[2].is_empty()
        && raw.sections[0].iter().zip(&kept).all(|(r, k)| r.rtype == c.tbl.vals[*k].rtype && r.class == 1 && r.ttl == 3600 && w::labels_eq_ci(&r.owner, owner_labels));
    if !structure_ok {
        env.viol(
            c.sig("message-structure-differs-from-pushed-records"),
            c.text(&format!("{} answers read, {} pushed and kept; message ends at {} of {}", raw.sections[0].len(), kept.len(), raw.end, octets.len())),
            c.json(&octets),
        );
        return true;
    }
    let list: Vec<(usize, usize, usize)> = raw.sections[0].iter().zip(&kept).map(|(r, k)| (r.rdata_pos - 2, r.rdata_pos + r.rdata.len(), *k)).collect();
    if !seq_check_records(env, c, &octets, &list, lc) {
        return true;
    }
    // the library reads the whole message
    let r = guard(|| -> Result<(), &'static str> {
        let m = Message::from_octets(octets.as_slice()).map_err(|_| "rejected")?;
        let mut n = 0;
        for rec in m.answer().map_err(|_| "rejected")? {
            let rec = rec.map_err(|_| "rejected")?.to_any_record::<PRd>().map_err(|_| "rejected")?;
            let v = &c.tbl.vals[*kept.get(n).ok_or("more-records")?];
            if !(rec.data() == &v.data && &v.data == rec.data()) {
                return Err("not-equal");
            }
            n += 1;
        }
        if n != kept.len() {
            return Err("fewer-records");
        }
        Ok(())
    });
    match r {
        Err(e) => env.viol(c.sig(&format!("library-message-read|panic|{}", panic_class(&e))), c.text(&e), c.json(&octets)),
        Ok(Err(class)) => env.viol(c.sig(&format!("library-message-read|{class}")), c.text(""), c.json(&octets)),
        Ok(Ok(())) => {
            lc.inc(format!("{key}:roundtripped"));
            let mut k = octets;
            k.extend_from_slice(c.comp.as_bytes());
            k.push(0xF8);
            lc.distinct.push(fnv(&k));
        }
    }
    true
}

/// Cut positions between two steps. All of them are positions the library
/// itself truncates to (failed push and rewind: a record start; error path of
/// `compose_len_rdata`: the RDATA start), i.e. between complete names.
///
/// Cuts INSIDE a name (behind the first label of the first embedded name,
/// behind its length octet) are not in the menu: no library path truncates
/// there, and what is left is not a sequence of complete names any more, so
/// the property does not say what composing after it has to yield. On the
/// unchanged library Tree- and HashCompressor keep the entry of a name whose
/// start survives such a cut and later point to it (StaticCompressor, which
/// re-reads the buffer, does not). `C05_SEQ_CUT_INSIDE_NAMES=1` adds them
/// (signature class `cut-inside-a-name`).
fn seq_cuts(full: bool) -> Vec<Option<Cut>> {
    let mut cuts = vec![None, Some(Cut::RecStart), Some(Cut::RdataStart)];
    if std::env::var_os("C05_SEQ_CUT_INSIDE_NAMES").is_some() {
        cuts.push(Some(Cut::AfterFirstLabel));
        if full {
            cuts.push(Some(Cut::InsideFirstLabel));
        }
    }
    cuts
}

/// The sequences of one (route, compressor, buffer, question, first value).
fn seq_task<T: SeqTarget>(env: &Env, tbl: &SeqTable, builder: bool, bounded: bool, q: Option<usize>, v1: usize, lc: &mut Local) -> u64 {
    let full = env.tier == Tier::Thorough;
    let mut n = 0u64;
    let mut go = |ops: &[Op], lc: &mut Local| {
        let applicable = if builder { seq_builder::<T>(env, tbl, q, ops, lc) } else { seq_raw::<T>(env, tbl, q, ops, lc) };
        n += applicable as u64;
    };
    let mut caps = vec![CapAt::RdlengthOnly, CapAt::FirstLabel, CapAt::AllButLast];
    if full {
        caps = (0..40).map(CapAt::Plus).collect();
    }
    match (builder, bounded) {
        (false, false) => {
            let cuts = seq_cuts(full);
            for cut in &cuts {
                for &v2 in &tbl.second {
                    let mut ops = vec![Op::Rec { val: v1, fail: None }];
                    ops.extend(cut.map(Op::Cut));
                    ops.push(Op::Rec { val: v2, fail: None });
                    go(&ops, lc);
                }
            }
        }
        (false, true) => {
            // what the caller does after the failed attempt: nothing (the
            // target as the error path left it), or what the message builder
            // does (back to the record start), or back to the RDLENGTH field
            let mut posts = vec![None, Some(Cut::RecStart)];
            if full {
                posts.push(Some(Cut::RdataStart));
            }
            for cap in &caps {
                for post in &posts {
                    for &v2 in &tbl.second_after_fail {
                        let mut ops = vec![Op::Rec { val: v1, fail: Some(Fail::Cap(*cap)) }];
                        ops.extend(post.map(Op::Cut));
                        ops.push(Op::Rec { val: v2, fail: None });
                        go(&ops, lc);
                    }
                }
            }
        }
        (true, false) => {
            for &v2 in &tbl.second {
                go(&[Op::Rec { val: v1, fail: None }, Op::Rewind, Op::Rec { val: v2, fail: None }], lc);
                go(&[Op::Rec { val: v1, fail: Some(Fail::Limit) }, Op::Rec { val: v2, fail: None }], lc);
            }
            if full {
                for &v2 in &tbl.second_after_fail {
                    for &v0 in &tbl.kept_before {
                        go(&[Op::Rec { val: v0, fail: None }, Op::Rec { val: v1, fail: Some(Fail::Limit) }, Op::Rec { val: v2, fail: None }], lc);
                        go(&[Op::Rec { val: v0, fail: None }, Op::Rec { val: v1, fail: None }, Op::Rewind, Op::Rec { val: v2, fail: None }], lc);
                    }
                }
            }
        }
        (true, true) => {
            for cap in &caps {
                for &v2 in &tbl.second_after_fail {
                    go(&[Op::Rec { val: v1, fail: Some(Fail::Cap(*cap)) }, Op::Rec { val: v2, fail: None }], lc);
                }
            }
        }
    }
    n
}

/// Three steps with a cut after each of the first two (raw target over Vec):
/// NS / MX / NS and MX / NS / MX over the whole family.
fn seq_task_triple<T: SeqTarget>(env: &Env, tbl: &SeqTable, q: Option<usize>, flip: usize, v1: usize, lc: &mut Local) -> u64 {
    let full = env.tier == Tier::Thorough;
    let cuts = seq_cuts(full);
    let mut n = 0;
    for &v2 in &tbl.triple[1 - flip] {
        for &v3 in &tbl.triple[flip] {
            for c1 in &cuts {
                for c2 in &cuts {
                    let mut ops = vec![Op::Rec { val: v1, fail: None }];
                    ops.extend(c1.map(Op::Cut));
                    ops.push(Op::Rec { val: v2, fail: None });
                    ops.extend(c2.map(Op::Cut));
                    ops.push(Op::Rec { val: v3, fail: None });
                    n += seq_raw::<T>(env, tbl, q, &ops, lc) as u64;
                }
            }
        }
    }
    n
}

#[derive(Clone, Copy)]
struct SeqTask {
    comp: usize,
    builder: bool,
    bounded: bool,
    triple: Option<usize>,
    q: Option<usize>,
    v1: usize,
}

fn seq_tasks(tbl: &SeqTable) -> Vec<SeqTask> {
    let mut tasks = Vec::new();
    for comp in 0..3 {
        for builder in [false, true] {
            for bounded in [false, true] {
                for &q in &tbl.questions {
                    for &v1 in if bounded { &tbl.first_fail } else { &tbl.first } {
                        tasks.push(SeqTask { comp, builder, bounded, triple: None, q, v1 });
                    }
                }
            }
        }
        for &q in tbl.questions.iter().filter(|q| q.is_some()) {
            for flip in 0..2 {
                for &v1 in &tbl.triple[flip] {
                    tasks.push(SeqTask { comp, builder: false, bounded: false, triple: Some(flip), q, v1 });
                }
            }
        }
    }
    tasks
}

fn seq_run_task(env: &Env, tbl: &SeqTable, t: &SeqTask, lc: &mut Local) -> u64 {
    macro_rules! with {
        ($c:ident) => {
            match (t.triple, t.bounded) {
                (Some(flip), _) => seq_task_triple::<$c<Vec<u8>>>(env, tbl, t.q, flip, t.v1, lc),
                (None, false) => seq_task::<$c<Vec<u8>>>(env, tbl, t.builder, false, t.q, t.v1, lc),
                (None, true) => seq_task::<$c<Bounded>>(env, tbl, t.builder, true, t.q, t.v1, lc),
            }
        };
    }
    match t.comp {
        0 => with!(StaticCompressor),
        1 => with!(TreeCompressor),
        _ => with!(HashCompressor),
    }
}

//------------ main ------------------------------------------------------------------

fn tier_from(s: &str) -> Tier {
    match s {
        "thorough" => Tier::Thorough,
        "compact" => Tier::Compact,
        _ => Tier::Quick,
    }
}

fn replay(env: &Env, path: &str) {
    let text = std::fs::read_to_string(path).expect("replay file");
    let j: J = serde_json::from_str(&text).expect("json");
    let case = &j["case"];
    let mut lc = Local::default();
    println!("replaying {}", case);
    match case["kind"].as_str() {
        Some("value") => {
            let (mn, idx) = (case["type"].as_str().unwrap_or(""), case["index"].as_u64().unwrap_or(0));
            let tier = tier_from(case["tier"].as_str().unwrap_or("quick"));
            let env2 = Env { ctx: env.ctx.clone(), stats: Stats::new(), tier };
            for g in rgen::generators().into_iter().filter(|g| g.mnemonic == mn) {
                // one shard per candidate index: only `idx` is constructed
                g.run(tier, idx as usize, usize::MAX, &mut |ev| {
                    if let Event::Value(v) = &ev {
                        println!("value: {}\n  data: {:?}\n  reference rdata ({} octets): {}", v.desc, v.data, v.wire.len(), hex(&v.wire[..v.wire.len().min(128)]));
                    }
                    handle_event(&env2, ev, &mut lc);
                });
            }
        }
        Some("ctor-variants") => {
            // few cases: re-run all of them
            check_ctor_variants(env, &mut lc);
        }
        Some("layout") => {
            let rtype = case["rtype"].as_u64().unwrap_or(0) as u16;
            let shapes: Vec<usize> = case["shapes"].as_array().map(|a| a.iter().map(|x| x.as_u64().unwrap_or(0) as usize).collect()).unwrap_or_default();
            let os = case["owner_shape"].as_u64().unwrap_or(0) as usize;
            let tmpl = if rtype == 1 { vec![Some(vec![192, 0, 2, 1])] } else { layout_templates().into_iter().find(|t| t.0 == rtype).map(|t| t.1).unwrap_or_default() };
            check_layout(env, rtype, &tmpl, os, &shapes, case["core"].as_bool().unwrap_or(false), &mut lc);
        }
        Some("sequence") => {
            // cheap: re-run all of them
            match seq_table(env.tier) {
                Ok(tbl) => {
                    for t in seq_tasks(&tbl) {
                        seq_run_task(env, &tbl, &t, &mut lc);
                    }
                }
                Err(e) => println!("sequence table: {e}"),
            }
        }
        Some("bytes") => {
            let rtype = case["rtype"].as_u64().unwrap_or(0) as u16;
            check_bytes(env, rtype, &unhex(case["rdata"].as_str().unwrap_or("")), &mut lc);
        }
        Some("option-bytes") => {
            check_option_bytes(env, &unhex(case["opt_rdata"].as_str().unwrap_or("")), "replay", &mut lc);
        }
        Some("option") => {
            let tier = tier_from(case["tier"].as_str().unwrap_or("quick"));
            let env2 = Env { ctx: env.ctx.clone(), stats: Stats::new(), tier };
            // options are few: re-run all of them
            check_options(&env2, &mut lc);
        }
        _ => println!("unknown replay kind"),
    }
    println!("counters: {:?}", lc.c);
    flush(&env.ctx, vec![take_vbuf()]);
}

fn main() {
    let ctx = Ctx::new("C05", "exploration");
    let tier = if ctx.quick() { Tier::Quick } else { Tier::Thorough };
    let env = Env { ctx: ctx.clone(), stats: Stats::new(), tier };
    if let Some(path) = ctx.replay.clone() {
        replay(&env, &path);
        ctx.finish(json!({"evaluations": 1, "distinct_nontrivial": 0, "rule": "replay", "samples": [], "exhaustive": false}), &["replay of a single case"]);
    }
    let wd = Watchdog::start(ctx.clone(), std::time::Duration::from_secs(120), |d| {
        format!("C05|{}|hang", d["type"].as_str().unwrap_or("?"))
    });

    // 1. values
    let gens = rgen::generators();
    let mut tasks: Vec<(usize, usize, usize)> = Vec::new();
    for (gi, g) in gens.iter().enumerate() {
        let n = match g.mnemonic {
            "RRSIG" | "TSIG" | "SOA" => 256,
            "NAPTR" | "NSEC3" | "SVCB" | "HTTPS" | "SRV" | "IPSECKEY" => 32,
            _ => 8,
        };
        for s in 0..n {
            tasks.push((gi, s, n));
        }
    }
    let merged = std::sync::Mutex::new(Local::default());
    let cands = std::sync::Mutex::new(BTreeMap::<&'static str, u64>::new());
    let vbufs: Vec<VBuf> = tasks.par_iter().map(|&(gi, shard, n)| {
        let g = &gens[gi];
        let mut lc = Local::default();
        let _ = take_vbuf();
        let total = g.run(tier, shard, n, &mut |ev| {
            wd.enter(|| match &ev {
                Event::Value(v) => json!({"kind": "value", "type": v.mnemonic, "tier": tier_name(tier), "index": v.index, "desc": v.desc}),
                _ => json!({"type": g.mnemonic}),
            });
            handle_event(&env, ev, &mut lc);
            wd.leave();
        });
        cands.lock().unwrap().insert(g.mnemonic, total);
        let mut m = merged.lock().unwrap();
        for (k, v) in lc.c {
            *m.c.entry(k).or_insert(0) += v;
        }
        m.evals += lc.evals;
        env.stats.distinct_many(lc.distinct);
        drop(m);
        take_vbuf()
    }).collect();
    flush(&ctx, vbufs);
    // samples: candidate 1 of every type, taken serially (deterministic)
    for g in &gens {
        g.run(tier, 1, usize::MAX, &mut |ev| {
            if let Event::Value(v) = ev {
                env.stats.sample(64, || json!({"value": v.desc, "rdata_len": v.wire.len(), "rdata_head": hex(&v.wire[..v.wire.len().min(24)])}));
            }
        });
    }

    // 2. options: values, then option byte menus
    let option_byte_cases;
    {
        let mut lc = Local::default();
        wd.enter(|| json!({"type": "OPTIONS"}));
        check_options(&env, &mut lc);
        option_byte_cases = run_option_bytes(&env, &mut lc);
        wd.leave();
        let mut m = merged.lock().unwrap();
        for (k, v) in lc.c {
            *m.c.entry(k).or_insert(0) += v;
        }
        m.evals += lc.evals;
        env.stats.distinct_many(lc.distinct);
        drop(m);
        flush(&ctx, vec![take_vbuf()]);
    }

    // 3. byte grammars
    let grams = grammars();
    let byte_cases = std::sync::atomic::AtomicU64::new(0);
    let vbufs: Vec<VBuf> = grams.par_iter().map(|(rtype, fields)| {
        let mut lc = Local::default();
        let _ = take_vbuf();
        wd.enter(|| json!({"type": format!("BYTES-{rtype}")}));
        let n = run_grammar(&env, *rtype, fields, &mut lc);
        wd.leave();
        byte_cases.fetch_add(n, std::sync::atomic::Ordering::Relaxed);
        let mut m = merged.lock().unwrap();
        for (k, v) in lc.c {
            *m.c.entry(k).or_insert(0) += v;
        }
        m.evals += lc.evals;
        env.stats.distinct_many(lc.distinct);
        drop(m);
        take_vbuf()
    }).collect();
    flush(&ctx, vbufs);

    // 4. hand-built name layouts
    let layout_cases;
    let ctor_variant_cases;
    {
        let mut lc = Local::default();
        wd.enter(|| json!({"type": "LAYOUTS"}));
        layout_cases = run_layouts(&env, &mut lc);
        ctor_variant_cases = check_ctor_variants(&env, &mut lc);
        wd.leave();
        let mut m = merged.lock().unwrap();
        for (k, v) in lc.c {
            *m.c.entry(k).or_insert(0) += v;
        }
        m.evals += lc.evals;
        env.stats.distinct_many(lc.distinct);
        drop(m);
        flush(&ctx, vec![take_vbuf()]);
    }

    // 5. compose sequences with truncation
    let sequence_cases = std::sync::atomic::AtomicU64::new(0);
    let mut sequence_menu = json!(null);
    match seq_table(tier) {
        Err(e) => {
            ctx.violation("C05|compose-sequence|harness-value-table-invalid", &e, json!({"kind": "sequence"}));
        }
        Ok(tbl) => {
            let tasks = seq_tasks(&tbl);
            sequence_menu = json!({
                "name_family": tbl.fam.iter().map(|f| f.0).collect::<Vec<_>>(),
                "question_and_owner": tbl.questions.iter().map(|q| q.map(|i| tbl.fam[i].0).unwrap_or("(none, owner root)")).collect::<Vec<_>>(),
                "values": tbl.vals.len(),
                "first_step_values": tbl.first.len(),
                "first_step_values_failing_on_bounded_buffer": tbl.first_fail.len(),
                "last_step_values": tbl.second.len(),
                "last_step_values_after_failed_attempt": tbl.second_after_fail.len(),
                "tasks": tasks.len(),
            });
            let vbufs: Vec<VBuf> = tasks.par_iter().map(|t| {
                let mut lc = Local::default();
                let _ = take_vbuf();
                wd.enter(|| json!({"type": "SEQUENCES"}));
                let n = seq_run_task(&env, &tbl, t, &mut lc);
                wd.leave();
                sequence_cases.fetch_add(n, std::sync::atomic::Ordering::Relaxed);
                let mut m = merged.lock().unwrap();
                for (k, v) in lc.c {
                    *m.c.entry(k).or_insert(0) += v;
                }
                m.evals += lc.evals;
                env.stats.distinct_many(lc.distinct);
                drop(m);
                take_vbuf()
            }).collect();
            flush(&ctx, vbufs);
        }
    }

    // report
    let m = merged.into_inner().unwrap();
    let mut per_type: BTreeMap<String, BTreeMap<String, u64>> = BTreeMap::new();
    for (k, v) in &m.c {
        let (t, what) = k.split_once(':').unwrap_or((k.as_str(), ""));
        per_type.entry(t.to_string()).or_default().insert(what.to_string(), *v);
    }
    for (t, n) in cands.into_inner().unwrap() {
        per_type.entry(t.to_string()).or_default().insert("candidates".into(), n);
    }
    let sum = |suffix: &str| -> u64 {
        m.c.iter().filter(|(k, _)| k.ends_with(suffix) && !k.starts_with("BYTES-") && !k.starts_with("OPTION-") && !k.starts_with("OPTBYTES-") && !k.starts_with("LAYOUT-") && !k.starts_with("SEQ-") && !k.starts_with("CTOR-VARIANTS")).map(|(_, v)| *v).sum()
    };
    let sum_in = |prefix: &str, suffix: &str| -> u64 { m.c.iter().filter(|(k, _)| k.ends_with(suffix) && k.starts_with(prefix)).map(|(_, v)| *v).sum() };
    println!("{:<12} {:>9} {:>9} {:>9} {:>12} {:>9}", "type", "cand", "generated", "refused", "roundtripped", "msg-rt");
    for (t, c) in &per_type {
        let g = |k: &str| c.get(k).cloned().unwrap_or(0);
        println!("{:<12} {:>9} {:>9} {:>9} {:>12} {:>9}", t, g("candidates") + g("cases"), g("generated") + g("accepted"), g("refused") + g("rejected"), g("roundtripped"), g("message-roundtrips"));
    }
    let holders = json!({
                "what": "every value that completed the round trip, held as T / &T / &&T (blanket impls of RecordData and ComposeRecordData for references), inside Record<N,D> and Record<&N,&D> (compose, compose_canonical, ComposeRecord for the record and for &record), inside the four ComposeRecord tuples and references to them, through the From impls from tuples to Record; D by value, by reference (and, full set, by reference to a reference); for T = AllRecordData, ZoneRecordData, the concrete type, the parsed AllRecordData<&[u8], ParsedName>, and for OPT the unsized Opt<[u8]> and the for_slice_ref view. Every route must report the rtype and rdlen of the direct call, write the octets of the direct call (length-prefixed forms: RDLENGTH + those octets) and, for the canonical routes, the harness's canonical expectation; records = owner (mixed case; lower-cased in the canonical form) + type + class + TTL + RDLENGTH + RDATA; on a compressing target the same octets as Record<Name, AllRecordData>",
                "route_sets": "core (both tiers, every representation of every value): T / &T / &&T and Record<N,&T>::compose / compose_canonical; containers (records holding D by value and &&D, &Record, the four tuples and references to them, From, compressing target): thorough tier everywhere, quick tier for the AllRecordData and concrete-type representations of values with RDATA up to 512 octets",
                "values_with_container_routes": sum(":holders-full"),
                "values_ok": sum(":holders-ok"),
                "routes_checked": sum(":holder-routes"),
                "routes_enum_all": sum(":holder-routes[enum-all]"),
                "routes_enum_zone": sum(":holder-routes[enum-zone]"),
                "routes_concrete_type": sum(":holder-routes[concrete]"),
                "routes_parsed": sum(":holder-routes[parsed]"),
                "routes_opt_slice": sum(":holder-routes[opt-slice]"),
                "values_concrete_type_not_dispatched": sum(":holders-concrete-type-not-dispatched"),
            });
    ctx.finish(
        json!({
            "evaluations": m.evals,
            "distinct_nontrivial": env.stats.distinct_count(),
            "rule": "distinct (type, reference RDATA) of non-empty values that completed the stand-alone round trip, plus distinct option encodings that round-tripped, plus distinct (type, RDATA octets) of grammar strings the parser accepted and that round-tripped, plus distinct parsed option (code, data) and distinct hand-built layout messages (owner shape, type, RDATA) that passed every check, plus distinct (compressor, final target octets) of compose sequences that passed every check; hashed with FNV-1a over type and octets",
            "exhaustive": true,
            "tier_menus": tier_name(tier),
            "values_generated": sum(":generated"),
            "values_refused_by_constructor": sum(":refused"),
            "values_roundtripped": sum(":roundtripped"),
            "message_roundtrips": sum(":message-roundtrips"),
            "constructor_variant_cases": ctor_variant_cases,
            "constructor_variant_agree": m.c.get("CTOR-VARIANTS:agree").cloned().unwrap_or(0),
            "values_conversions_ok": sum(":conversions-ok"),
            "values_typed_entry_points_ok": sum(":typed-ok"),
            "name_layout_messages": layout_cases,
            "name_layout_accepted": sum_in("LAYOUT-", ":accepted"),
            "name_layout_rejected": sum_in("LAYOUT-", ":rejected"),
            "name_layout_roundtripped": sum_in("LAYOUT-", ":roundtripped"),
            "name_layout_shapes": NAME_SHAPES,
            "compose_sequences": {
                "what": "2-3 compose steps on ONE compressing target with truncations between them: Static/Tree/Hash compressor over Vec and over a bounded buffer on which the first attempt fails inside the RDATA; raw target (append_compressed_name + compose_len_rdata + Truncate::truncate back to the record start / the RDLENGTH field / behind the first label of the first embedded name; after a failed attempt also the target as the error path left it) and MessageBuilder (push, push failing on buffer capacity, push failing on the push limit, rewind of the answer section); values: every name-bearing type over a family of related names (suffix, same leading labels, longer, case variant, unrelated), question/owner from the same family. Every record still complete at the end: RDLENGTH == octets written, fixed octets == reference, every embedded name decompresses in the final buffer (pointers strictly backwards) to the name composed, compression only in RFC 3597 section 4 types, the library's parser returns an equal value; builder route: the whole message read by the independent reader and by Message holds exactly the kept records",
                "menu": sequence_menu,
                "sequences": sequence_cases.load(std::sync::atomic::Ordering::Relaxed),
                "sequences_roundtripped": sum_in("SEQ-", ":roundtripped"),
                "sequences_with_compressed_rdata_name": sum_in("SEQ-", ":compressed"),
                "sequences_not_applicable": sum_in("SEQ-", ":not-applicable"),
            },
            "byte_grammar_cases": byte_cases.load(std::sync::atomic::Ordering::Relaxed),
            "byte_grammar_accepted": sum_in("BYTES-", ":accepted"),
            "byte_grammar_rejected": sum_in("BYTES-", ":rejected"),
            "byte_grammar_roundtripped": sum_in("BYTES-", ":roundtripped"),
            "option_byte_menu_rdatas": option_byte_cases,
            "option_bytes_options_seen": sum_in("OPTBYTES-", ":cases"),
            "option_bytes_accepted": sum_in("OPTBYTES-", ":accepted"),
            "option_bytes_rejected": sum_in("OPTBYTES-", ":rejected"),
            "option_bytes_roundtripped": sum_in("OPTBYTES-", ":roundtripped"),
            "options_generated": sum_in("OPTION-", ":generated"),
            "options_refused_by_constructor": sum_in("OPTION-", ":refused"),
            "options_roundtripped": sum_in("OPTION-", ":roundtripped"),
            "values_accepted_without_wire_representation": sum(":accepted-unrepresentable"),
            "values_zone_dispatch_roundtripped": sum(":zone-roundtripped"),
            "holders": holders,
            "per_type": per_type,
            "canonical_lowercase_table": CANONICAL_LOWERCASE,
            "may_compress_table": MAY_COMPRESS,
            "samples": env.stats.samples(),
        }),
        &[
            "values off the per-field boundary menus are not covered (DESIGN C05 L.)",
            "the reference encodings are written in mc::rgen from the RFC layouts; the library's Eq is used in addition to, not instead of, octet comparison",
            "messages above 65535 octets are not built: values whose RDATA leaves no room for header and owner are checked stand-alone only (counted as message-skipped-over-65535)",
            "ClientSubnet prefixes above the address length are clamped by the constructor; the reference clamps identically (RFC 7871 gives no encoding for them)",
        ],
    );
}
