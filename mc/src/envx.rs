//! Deviation-bounded, stateless explorer over environment choice sequences.
//!
//! The harness body asks `Chooser::choose(n)` at every point where the
//! environment (mock peer, timer, service) has `n` possible answers; answer
//! 0 is the default ("deliver intact, in order"). `explore` enumerates every
//! choice sequence with at most `bound` non-default answers, exactly once,
//! running each execution to completion on a fresh instance of the real
//! code. A replayed prefix that meets a different menu size than recorded is
//! a machinery error (exit 2), never a verdict.

use rayon::prelude::*;
use std::sync::atomic::{AtomicU64, Ordering};

#[derive(Clone, Debug, Default)]
pub struct Chooser {
    prefix: Vec<(u32, u32)>,
    pub trace: Vec<(u32, u32)>,
    pub labels: Vec<&'static str>,
}

impl Chooser {
    pub fn new(prefix: Vec<(u32, u32)>) -> Self {
        Chooser { prefix, trace: Vec::new(), labels: Vec::new() }
    }
    pub fn from_choices(choices: &[u32]) -> Self {
        // menu size 0 = unknown (replay from file: do not verify the menu)
        Chooser::new(choices.iter().map(|c| (*c, 0)).collect())
    }
    /// Pick one of `n` alternatives (n >= 1).
    pub fn choose(&mut self, n: usize, label: &'static str) -> usize {
        assert!(n >= 1);
        let i = self.trace.len();
        let c = if i < self.prefix.len() {
            let (c, m) = self.prefix[i];
            if m != 0 && m as usize != n {
                eprintln!(
                    "MACHINERY: replay divergence at choice {i} ({label}): recorded menu {m}, now {n}; trace {:?}",
                    self.trace
                );
                std::process::exit(2);
            }
            if c as usize >= n {
                eprintln!("MACHINERY: replay choice {c} out of range {n} at {i} ({label})");
                std::process::exit(2);
            }
            c
        } else {
            0
        };
        self.trace.push((c, n as u32));
        self.labels.push(label);
        c as usize
    }
    pub fn choices(&self) -> Vec<u32> {
        self.trace.iter().map(|x| x.0).collect()
    }
    pub fn deviations(&self) -> usize {
        self.trace.iter().filter(|x| x.0 != 0).count()
    }
    pub fn describe(&self) -> Vec<String> {
        self.trace
            .iter()
            .zip(self.labels.iter())
            .map(|((c, n), l)| format!("{l}={c}/{n}"))
            .collect()
    }
}

pub struct ExploreStats {
    pub executions: u64,
    pub per_bound: Vec<u64>,
    pub choice_points: u64,
    pub max_trace: usize,
}

/// Enumerate all executions with <= `bound` deviations. `run` executes the
/// harness body with the given chooser and checks its oracle itself.
pub fn explore<F>(bound: usize, max_execs: u64, run: F) -> (ExploreStats, bool)
where
    F: Fn(&mut Chooser) + Sync,
{
    let mut level: Vec<Vec<(u32, u32)>> = vec![Vec::new()];
    let mut per_bound = Vec::new();
    let total = AtomicU64::new(0);
    let points = AtomicU64::new(0);
    let maxlen = AtomicU64::new(0);
    let mut capped = false;
    for d in 0..=bound {
        if level.is_empty() {
            per_bound.push(0);
            continue;
        }
        if total.load(Ordering::Relaxed) + level.len() as u64 > max_execs {
            capped = true;
            break;
        }
        let next: Vec<Vec<(u32, u32)>> = level
            .par_iter()
            .flat_map_iter(|prefix| {
                let mut ch = Chooser::new(prefix.clone());
                run(&mut ch);
                total.fetch_add(1, Ordering::Relaxed);
                points.fetch_add(ch.trace.len() as u64, Ordering::Relaxed);
                maxlen.fetch_max(ch.trace.len() as u64, Ordering::Relaxed);
                let mut out = Vec::new();
                if d < bound {
                    for i in prefix.len()..ch.trace.len() {
                        let n = ch.trace[i].1;
                        for alt in 1..n {
                            let mut p: Vec<(u32, u32)> = ch.trace[..i].to_vec();
                            p.push((alt, n));
                            out.push(p);
                        }
                    }
                }
                out.into_iter()
            })
            .collect();
        per_bound.push(level.len() as u64);
        level = next;
    }
    (
        ExploreStats {
            executions: total.load(Ordering::Relaxed),
            per_bound,
            choice_points: points.load(Ordering::Relaxed),
            max_trace: maxlen.load(Ordering::Relaxed) as usize,
        },
        capped,
    )
}
