//! Independent, deliberately boring wire-format helpers used as oracles.
//! Nothing here calls into `domain`.

#[derive(Clone, Debug, PartialEq, Eq)]
pub struct RawRecord {
    pub owner: Vec<Vec<u8>>, // labels without root
    pub rtype: u16,
    pub class: u16,
    pub ttl: u32,
    pub rdata_pos: usize,
    pub rdata: Vec<u8>,
}

#[derive(Clone, Debug, PartialEq, Eq)]
pub struct RawQuestion {
    pub qname: Vec<Vec<u8>>,
    pub qtype: u16,
    pub qclass: u16,
}

#[derive(Clone, Debug, PartialEq, Eq, Default)]
pub struct RawMessage {
    pub id: u16,
    pub flags: u16,
    pub counts: [u16; 4],
    pub questions: Vec<RawQuestion>,
    pub sections: [Vec<RawRecord>; 3],
    pub end: usize,
    /// every compression pointer seen: (position of pointer, target)
    pub pointers: Vec<(usize, usize)>,
}

/// Decompress a name at `pos`. Returns (labels, position after the name in
/// the original stream). Pointers must point strictly backwards (RFC 1035
/// "prior occurrence"); total wire length must be <= 255.
pub fn read_name(
    msg: &[u8],
    mut pos: usize,
    ptrs: &mut Vec<(usize, usize)>,
) -> Result<(Vec<Vec<u8>>, usize), String> {
    let mut labels = Vec::new();
    let mut after = None;
    let mut total = 0usize;
    let mut hops = 0;
    loop {
        let l = *msg.get(pos).ok_or("name: short")? as usize;
        if l == 0 {
            total += 1;
            if total > 255 {
                return Err("name: too long".into());
            }
            return Ok((labels, after.unwrap_or(pos + 1)));
        } else if l & 0xC0 == 0xC0 {
            let l2 = *msg.get(pos + 1).ok_or("name: short ptr")? as usize;
            let target = ((l & 0x3F) << 8) | l2;
            ptrs.push((pos, target));
            if after.is_none() {
                after = Some(pos + 2);
            }
            if target >= pos {
                return Err(format!("name: pointer {target} not backwards from {pos}"));
            }
            hops += 1;
            if hops > 128 {
                return Err("name: too many pointers".into());
            }
            pos = target;
        } else if l & 0xC0 != 0 {
            return Err(format!("name: bad label type {l:#x}"));
        } else {
            let lab = msg.get(pos + 1..pos + 1 + l).ok_or("name: short label")?;
            total += 1 + l;
            if total > 254 {
                return Err("name: too long".into());
            }
            labels.push(lab.to_vec());
            pos += 1 + l;
        }
    }
}

pub fn u16_at(m: &[u8], p: usize) -> Result<u16, String> {
    m.get(p..p + 2)
        .map(|b| u16::from_be_bytes([b[0], b[1]]))
        .ok_or_else(|| "short u16".to_string())
}
pub fn u32_at(m: &[u8], p: usize) -> Result<u32, String> {
    m.get(p..p + 4)
        .map(|b| u32::from_be_bytes([b[0], b[1], b[2], b[3]]))
        .ok_or_else(|| "short u32".to_string())
}

pub fn read_message(msg: &[u8]) -> Result<RawMessage, String> {
    if msg.len() < 12 {
        return Err("short header".into());
    }
    let mut m = RawMessage {
        id: u16_at(msg, 0)?,
        flags: u16_at(msg, 2)?,
        ..Default::default()
    };
    for i in 0..4 {
        m.counts[i] = u16_at(msg, 4 + 2 * i)?;
    }
    let mut pos = 12;
    for _ in 0..m.counts[0] {
        let (qname, p) = read_name(msg, pos, &mut m.pointers)?;
        let qtype = u16_at(msg, p)?;
        let qclass = u16_at(msg, p + 2)?;
        pos = p + 4;
        m.questions.push(RawQuestion { qname, qtype, qclass });
    }
    for s in 0..3 {
        for _ in 0..m.counts[s + 1] {
            let (owner, p) = read_name(msg, pos, &mut m.pointers)?;
            let rtype = u16_at(msg, p)?;
            let class = u16_at(msg, p + 2)?;
            let ttl = u32_at(msg, p + 4)?;
            let rdlen = u16_at(msg, p + 8)? as usize;
            let rdata = msg
                .get(p + 10..p + 10 + rdlen)
                .ok_or("short rdata")?
                .to_vec();
            m.sections[s].push(RawRecord {
                owner,
                rtype,
                class,
                ttl,
                rdata_pos: p + 10,
                rdata,
            });
            pos = p + 10 + rdlen;
        }
    }
    m.end = pos;
    Ok(m)
}

pub fn lower(l: &[u8]) -> Vec<u8> {
    l.iter().map(|b| b.to_ascii_lowercase()).collect()
}

pub fn labels_eq_ci(a: &[Vec<u8>], b: &[Vec<u8>]) -> bool {
    a.len() == b.len() && a.iter().zip(b).all(|(x, y)| lower(x) == lower(y))
}

/// Uncompressed wire form of a label list (absolute).
pub fn to_wire(labels: &[Vec<u8>]) -> Vec<u8> {
    let mut v = Vec::new();
    for l in labels {
        v.push(l.len() as u8);
        v.extend_from_slice(l);
    }
    v.push(0);
    v
}

/// Split uncompressed wire octets into labels; validates RFC limits.
/// `absolute`: must end with exactly one root label and nothing after it.
pub fn validate_name(octets: &[u8], absolute: bool) -> Result<Vec<Vec<u8>>, String> {
    let mut pos = 0;
    let mut labels = Vec::new();
    if absolute {
        if octets.len() > 255 {
            return Err(format!("absolute name of {} octets", octets.len()));
        }
    } else if octets.len() > 254 {
        return Err(format!("relative name of {} octets", octets.len()));
    }
    loop {
        if pos == octets.len() {
            if absolute {
                return Err("absolute name without root label".into());
            }
            return Ok(labels);
        }
        let l = octets[pos] as usize;
        if l == 0 {
            if !absolute {
                return Err(format!("relative name with root label at {pos}"));
            }
            if pos + 1 != octets.len() {
                return Err("octets after root label".into());
            }
            return Ok(labels);
        }
        if l > 63 {
            return Err(format!("label length octet {l} at {pos}"));
        }
        if pos + 1 + l > octets.len() {
            return Err(format!("label at {pos} overruns the name"));
        }
        labels.push(octets[pos + 1..pos + 1 + l].to_vec());
        pos += 1 + l;
    }
}

/// RFC 4034 6.1 canonical name order over label lists.
pub fn canonical_name_cmp(a: &[Vec<u8>], b: &[Vec<u8>]) -> std::cmp::Ordering {
    let mut ai = a.iter().rev();
    let mut bi = b.iter().rev();
    loop {
        match (ai.next(), bi.next()) {
            (None, None) => return std::cmp::Ordering::Equal,
            (None, Some(_)) => return std::cmp::Ordering::Less,
            (Some(_), None) => return std::cmp::Ordering::Greater,
            (Some(x), Some(y)) => {
                let c = lower(x).cmp(&lower(y));
                if c != std::cmp::Ordering::Equal {
                    return c;
                }
            }
        }
    }
}
