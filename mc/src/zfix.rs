//! Zone fixture shared by C08/C09/C10: a plain-data zone content model, an
//! independent RFC 1034 4.3.2 / RFC 4592 reference resolver, builders of the
//! real in-memory zone through its different interfaces, and observation of
//! answers through `Answer::to_message` + the independent wire reader.
use bytes::Bytes;
use domain::base::iana::{Class, Rcode, Rtype};
use domain::base::name::{Label, Name};
use domain::base::{Message, MessageBuilder, Record, Ttl};
use domain::rdata::{Cname, Ds, Ns, Soa, Txt, ZoneRecordData, A};
use domain::zonetree::types::{StoredName, StoredRecord, StoredRecordData, ZoneCut};
use domain::zonetree::{Answer, ReadableZone, Rrset, SharedRr, SharedRrset, WritableZoneNode, Zone, ZoneBuilder};
use std::collections::{BTreeMap, BTreeSet};
use std::sync::{Arc, Mutex};

/// A name relative to the apex, labels ordered from the apex downwards
/// ("b.a.z." under apex "z." is ["a","b"]).
pub type RelName = Vec<String>;

pub const APEX: &str = "z";

/// Record data identified symbolically.
#[derive(Clone, Debug, PartialEq, Eq, PartialOrd, Ord, Hash)]
pub enum Rd {
    A(u8),
    Txt(String),
    Cname,
    NsOut,   // NS ns.other.
    NsIn,    // NS d.c.z. (in bailiwick below cut c)
    NsBA,    // NS b.a.z. (in zone: below cut a, or ordinary data)
    Ds,
    Soa(u32),
}

impl Rd {
    pub fn rtype(&self) -> Rtype {
        match self {
            Rd::A(_) => Rtype::A,
            Rd::Txt(_) => Rtype::TXT,
            Rd::Cname => Rtype::CNAME,
            Rd::NsOut | Rd::NsIn | Rd::NsBA => Rtype::NS,
            Rd::Ds => Rtype::DS,
            Rd::Soa(_) => Rtype::SOA,
        }
    }
    pub fn data(&self) -> StoredRecordData {
        match self {
            Rd::A(k) => ZoneRecordData::A(A::from_octets(192, 0, 2, *k)),
            Rd::Txt(s) => ZoneRecordData::Txt(Txt::<Bytes>::build_from_slice(s.as_bytes()).unwrap()),
            Rd::Cname => ZoneRecordData::Cname(Cname::new(sname("tgt.example."))),
            Rd::NsOut => ZoneRecordData::Ns(Ns::new(sname("ns.other."))),
            Rd::NsIn => ZoneRecordData::Ns(Ns::new(sname("d.c.z."))),
            Rd::NsBA => ZoneRecordData::Ns(Ns::new(sname("b.a.z."))),
            Rd::Ds => ZoneRecordData::Ds(Ds::new(7, domain::base::iana::SecurityAlgorithm::ED25519, domain::base::iana::DigestAlgorithm::SHA256, Bytes::from_static(&[0xAB; 32])).unwrap()),
            Rd::Soa(serial) => ZoneRecordData::Soa(Soa::new(sname("ns.other."), sname("hm.other."), (*serial).into(), Ttl::from_secs(10), Ttl::from_secs(11), Ttl::from_secs(12), Ttl::from_secs(13))),
        }
    }
    /// Uncompressed, lower-case wire RDATA (what the independent reader normalises to).
    pub fn wire(&self) -> Vec<u8> {
        let n = |s: &str| crate::wire::to_wire(&s.trim_end_matches('.').split('.').map(|l| l.as_bytes().to_vec()).collect::<Vec<_>>());
        match self {
            Rd::A(k) => vec![192, 0, 2, *k],
            Rd::Txt(s) => {
                let mut v = vec![s.len() as u8];
                v.extend_from_slice(s.as_bytes());
                v
            }
            Rd::Cname => n("tgt.example."),
            Rd::NsOut => n("ns.other."),
            Rd::NsIn => n("d.c.z."),
            Rd::NsBA => n("b.a.z."),
            Rd::Ds => {
                let mut v = vec![0, 7, 15, 2];
                v.extend_from_slice(&[0xAB; 32]);
                v
            }
            Rd::Soa(serial) => {
                let mut v = n("ns.other.");
                v.extend(n("hm.other."));
                v.extend_from_slice(&serial.to_be_bytes());
                for k in [10u32, 11, 12, 13] {
                    v.extend_from_slice(&k.to_be_bytes());
                }
                v
            }
        }
    }
}

pub const TTL: u32 = 300;

pub fn sname(s: &str) -> StoredName {
    Name::<Bytes>::bytes_from_str(s).unwrap()
}

pub fn abs_name(rel: &RelName) -> StoredName {
    spelled_name(rel, fix_opts().owners)
}

// ---- optional fixture options (C08 parts S and N). Defaults = the behaviour
// every other user of this fixture sees: lower-case owners, apex stored as
// "z.", SOA TTL = TTL. The options are per thread and only in force inside
// `with_fix_opts`.

/// How the labels of an absolute name are spelled (ASCII case), by position
/// from the left; the apex label is the last one.
#[derive(Clone, Copy, Debug, PartialEq, Eq, PartialOrd, Ord, Hash, Default)]
pub enum Spelling {
    #[default]
    Lower,
    /// the apex labels upper-cased
    ApexUpper,
    /// the labels below the apex upper-cased
    RelUpper,
    AllUpper,
    /// 0x20-style mix: labels 0, 2, 4.. from the left upper-cased
    AltEven,
    /// labels 1, 3, .. from the left upper-cased
    AltOdd,
}

pub const SPELLINGS: [Spelling; 5] = [Spelling::ApexUpper, Spelling::RelUpper, Spelling::AllUpper, Spelling::AltEven, Spelling::AltOdd];

#[derive(Clone, Copy, Debug, PartialEq, Eq)]
pub struct FixOpts {
    /// spelling of every owner name the fixture hands to the library
    /// (`abs_name`, `record_of`, `node_for`, builders)
    pub owners: Spelling,
    /// the zone is created with the apex name "Z." instead of "z."
    pub zone_apex_upper: bool,
    /// TTL of SOA RRsets / records made by `rrset_of` / `record_of`
    pub soa_ttl: u32,
}

impl Default for FixOpts {
    fn default() -> Self {
        FixOpts { owners: Spelling::Lower, zone_apex_upper: false, soa_ttl: TTL }
    }
}

std::thread_local! {
    static FIX_OPTS: std::cell::Cell<FixOpts> = const { std::cell::Cell::new(FixOpts { owners: Spelling::Lower, zone_apex_upper: false, soa_ttl: TTL }) };
}

pub fn fix_opts() -> FixOpts {
    FIX_OPTS.with(|o| o.get())
}

/// Run `f` (on this thread) with the given fixture options; restored afterwards, also on unwind.
pub fn with_fix_opts<T>(o: FixOpts, f: impl FnOnce() -> T) -> T {
    struct Restore(FixOpts);
    impl Drop for Restore {
        fn drop(&mut self) {
            FIX_OPTS.with(|c| c.set(self.0));
        }
    }
    let _r = Restore(FIX_OPTS.with(|c| c.replace(o)));
    f()
}

/// Is label `i` (from the left) of an absolute name of `n` labels (apex last) upper-cased?
pub fn spelled_upper(sp: Spelling, i: usize, n: usize) -> bool {
    match sp {
        Spelling::Lower => false,
        Spelling::ApexUpper => i + 1 == n,
        Spelling::RelUpper => i + 1 < n,
        Spelling::AllUpper => true,
        Spelling::AltEven => i % 2 == 0,
        Spelling::AltOdd => i % 2 == 1,
    }
}

/// The octets of one label of a `RelName`. Labels are arbitrary octet
/// strings; a `RelName` label carries one octet per `char` (U+0000..U+00FF).
/// For the ASCII labels every older user of the fixture has this is `as_bytes()`.
pub fn label_octets(l: &str) -> Vec<u8> {
    l.chars().map(|c| c as u32 as u8).collect()
}

/// Inverse of `label_octets`.
pub fn octets_label(o: &[u8]) -> String {
    o.iter().map(|b| *b as char).collect()
}

/// A label that can be written as is in presentation format.
fn plain_label(l: &str) -> bool {
    !l.is_empty() && l.bytes().all(|b| b.is_ascii_alphanumeric() || b == b'*' || b == b'-' || b == b'_')
}

pub fn spelled_name(rel: &RelName, sp: Spelling) -> StoredName {
    let n = rel.len() + 1;
    if !rel.iter().all(|l| plain_label(l)) {
        // labels with arbitrary octets (C08 label-octet axis): straight from the wire form
        let mut w = Vec::new();
        for (i, l) in rel.iter().rev().map(|l| l.as_str()).chain(std::iter::once(APEX)).enumerate() {
            let mut o = label_octets(l);
            if spelled_upper(sp, i, n) {
                o.make_ascii_uppercase();
            }
            w.push(o.len() as u8);
            w.extend_from_slice(&o);
        }
        w.push(0);
        return Name::from_octets(Bytes::from(w)).expect("fixture: label list is not a valid name");
    }
    let mut s = String::new();
    for (i, l) in rel.iter().rev().map(|l| l.as_str()).chain(std::iter::once(APEX)).enumerate() {
        if spelled_upper(sp, i, n) {
            s.push_str(&l.to_ascii_uppercase());
        } else {
            s.push_str(l);
        }
        s.push('.');
    }
    // '*' is fine in from_str
    sname(&s)
}

/// The apex name the fixture creates zones with.
pub fn zone_apex() -> StoredName {
    sname(if fix_opts().zone_apex_upper { "Z." } else { "z." })
}

pub fn rel(s: &str) -> RelName {
    // "b.a" -> ["a","b"] ; "" -> []
    if s.is_empty() {
        return vec![];
    }
    s.split('.').rev().map(|x| x.to_string()).collect()
}

pub fn show(r: &RelName) -> String {
    if r.is_empty() {
        "@".into()
    } else {
        r.iter().rev().cloned().collect::<Vec<_>>().join(".")
    }
}

/// Zone content: name -> set of record data (the apex always has SOA + NS).
#[derive(Clone, Debug, PartialEq, Eq, PartialOrd, Ord, Hash, Default)]
pub struct Content {
    pub names: BTreeMap<RelName, BTreeSet<Rd>>,
}

impl Content {
    pub fn base(serial: u32) -> Content {
        let mut c = Content::default();
        c.names.entry(vec![]).or_default().insert(Rd::Soa(serial));
        c.names.entry(vec![]).or_default().insert(Rd::NsOut);
        c
    }
    pub fn add(&mut self, name: &str, rd: Rd) {
        self.names.entry(rel(name)).or_default().insert(rd);
    }
    pub fn soa(&self) -> Rd {
        self.names[&vec![]].iter().find(|r| matches!(r, Rd::Soa(_))).cloned().unwrap()
    }
    pub fn set_serial(&mut self, serial: u32) {
        let s = self.names.get_mut(&vec![]).unwrap();
        s.retain(|r| !matches!(r, Rd::Soa(_)));
        s.insert(Rd::Soa(serial));
    }
    pub fn records(&self) -> BTreeSet<(RelName, Rd)> {
        let mut v = BTreeSet::new();
        for (n, s) in &self.names {
            for r in s {
                v.insert((n.clone(), r.clone()));
            }
        }
        v
    }
    pub fn rrset(&self, name: &RelName, rtype: Rtype) -> Vec<Rd> {
        self.names.get(name).map(|s| s.iter().filter(|r| r.rtype() == rtype).cloned().collect()).unwrap_or_default()
    }
    pub fn has_data(&self, name: &RelName) -> bool {
        self.names.get(name).map(|s| !s.is_empty()).unwrap_or(false)
    }
    /// the name owns data or has a descendant that owns data
    pub fn exists(&self, name: &RelName) -> bool {
        self.names.iter().any(|(n, s)| !s.is_empty() && n.len() >= name.len() && n[..name.len()] == name[..])
    }
    pub fn is_cut(&self, name: &RelName) -> bool {
        !name.is_empty() && !self.rrset(name, Rtype::NS).is_empty()
    }
}

/// In-zone names the NS records of `cut` point to.
pub fn ns_targets(c: &Content, cut: &RelName) -> Vec<RelName> {
    let mut v = Vec::new();
    for r in c.rrset(cut, Rtype::NS) {
        match r {
            Rd::NsIn => v.push(rel("d.c")),
            Rd::NsBA => v.push(rel("b.a")),
            _ => {}
        }
    }
    v
}

// ------------------------------------------------------------- reference

#[derive(Clone, Debug, PartialEq, Eq, PartialOrd, Ord, Hash)]
pub enum Kind {
    Data,
    Cname,
    NoData,
    NxDomain,
    Referral,
}

/// What an answer looks like, as sets of (owner, type, rdata-wire).
#[derive(Clone, Debug, PartialEq, Eq, PartialOrd, Ord, Hash)]
pub struct Expected {
    pub kind: Kind,
    pub rcode: u8,
    pub aa: bool,
    pub answer: BTreeSet<(Vec<u8>, u16, Vec<u8>)>,
    pub authority: BTreeSet<(Vec<u8>, u16, Vec<u8>)>,
    /// additional must contain these ...
    pub additional_min: BTreeSet<(Vec<u8>, u16, Vec<u8>)>,
    /// ... and only these
    pub additional_max: BTreeSet<(Vec<u8>, u16, Vec<u8>)>,
    /// how the name relates to the content (for violation classes)
    pub qclass: &'static str,
}

fn owner_wire(rel: &RelName) -> Vec<u8> {
    let mut labels: Vec<Vec<u8>> = rel.iter().rev().map(|l| label_octets(l)).collect();
    labels.push(APEX.as_bytes().to_vec());
    crate::wire::to_wire(&labels)
}

fn set_of(owner: &RelName, rds: &[Rd]) -> BTreeSet<(Vec<u8>, u16, Vec<u8>)> {
    rds.iter().map(|r| (owner_wire(owner), r.rtype().to_int(), r.wire())).collect()
}

/// RFC 1034 4.3.2 + RFC 4592 over plain data.
pub fn resolve(c: &Content, qname: &RelName, qtype: Rtype) -> Expected {
    let soa_auth = set_of(&vec![], &[c.soa()]);
    let negative = |kind: Kind, qclass: &'static str| Expected {
        rcode: if kind == Kind::NxDomain { 3 } else { 0 },
        kind,
        aa: true,
        answer: BTreeSet::new(),
        authority: soa_auth.clone(),
        additional_min: BTreeSet::new(),
        additional_max: BTreeSet::new(),
        qclass,
    };
    // step: zone cuts on the way down (including at qname itself)
    for i in 1..=qname.len() {
        let anc: RelName = qname[..i].to_vec();
        if c.is_cut(&anc) {
            if i == qname.len() && qtype == Rtype::DS {
                // the parent is authoritative for DS at the cut
                let ds = c.rrset(&anc, Rtype::DS);
                if ds.is_empty() {
                    return negative(Kind::NoData, "at-cut-ds");
                }
                return Expected { kind: Kind::Data, rcode: 0, aa: true, answer: set_of(qname, &ds), authority: BTreeSet::new(), additional_min: BTreeSet::new(), additional_max: BTreeSet::new(), qclass: "at-cut-ds" };
            }
            let ns = c.rrset(&anc, Rtype::NS);
            let mut authority = set_of(&anc, &ns);
            authority.extend(set_of(&anc, &c.rrset(&anc, Rtype::DS)));
            // glue: every address record the zone holds for an in-zone NS
            // target, wherever it lives (RFC 1034 4.3.2 step 3b, RFC 9471)
            let mut glue_min = BTreeSet::new();
            for t in ns_targets(c, &anc) {
                glue_min.extend(set_of(&t, &c.rrset(&t, Rtype::A)));
            }
            return Expected { kind: Kind::Referral, rcode: 0, aa: false, answer: BTreeSet::new(), authority, additional_min: glue_min.clone(), additional_max: glue_min, qclass: if i == qname.len() { "at-cut" } else { "below-cut" } };
        }
    }
    let answer_at = |owner_data: &RelName, qclass: &'static str| -> Expected {
        let cname = c.rrset(owner_data, Rtype::CNAME);
        if !cname.is_empty() && qtype != Rtype::CNAME {
            return Expected { kind: Kind::Cname, rcode: 0, aa: true, answer: set_of(qname, &cname), authority: BTreeSet::new(), additional_min: BTreeSet::new(), additional_max: BTreeSet::new(), qclass };
        }
        let rr = c.rrset(owner_data, qtype);
        if rr.is_empty() {
            negative(Kind::NoData, qclass)
        } else {
            Expected { kind: if qtype == Rtype::CNAME { Kind::Cname } else { Kind::Data }, rcode: 0, aa: true, answer: set_of(qname, &rr), authority: BTreeSet::new(), additional_min: BTreeSet::new(), additional_max: BTreeSet::new(), qclass }
        }
    };
    if c.exists(qname) {
        return answer_at(qname, if c.has_data(qname) { "exact" } else { "ent" });
    }
    // closest encloser: longest existing ancestor
    let mut ce = qname.clone();
    while !c.exists(&ce) {
        ce.pop();
    }
    let mut wc = ce.clone();
    wc.push("*".into());
    if c.has_data(&wc) {
        return answer_at(&wc, "wildcard");
    }
    negative(Kind::NxDomain, "absent")
}

// --------------------------------------------------------- observation

#[derive(Clone, Debug, PartialEq, Eq, PartialOrd, Ord, Hash)]
pub struct Observed {
    pub rcode: u8,
    pub aa: bool,
    pub answer: BTreeSet<(Vec<u8>, u16, Vec<u8>)>,
    pub authority: BTreeSet<(Vec<u8>, u16, Vec<u8>)>,
    pub additional: BTreeSet<(Vec<u8>, u16, Vec<u8>)>,
    pub dup: bool,
}

impl Observed {
    pub fn kind(&self) -> Kind {
        if self.rcode == 3 {
            Kind::NxDomain
        } else if !self.answer.is_empty() {
            if self.answer.iter().any(|r| r.1 == 5) {
                Kind::Cname
            } else {
                Kind::Data
            }
        } else if self.authority.iter().any(|r| r.1 == 2) {
            Kind::Referral
        } else {
            Kind::NoData
        }
    }
}

pub fn norm_rdata(msg: &[u8], rtype: u16, pos: usize, rdata: &[u8]) -> Vec<u8> {
    let mut p = Vec::new();
    let nm = |at: usize, p: &mut Vec<(usize, usize)>| -> (Vec<u8>, usize) {
        let (l, after) = crate::wire::read_name(msg, at, p).expect("observe: name in rdata");
        (crate::wire::to_wire(&l.iter().map(|x| crate::wire::lower(x)).collect::<Vec<_>>()), after)
    };
    match rtype {
        2 | 5 => nm(pos, &mut p).0,
        6 => {
            let (n1, a1) = nm(pos, &mut p);
            let (n2, a2) = nm(a1, &mut p);
            let mut v = n1;
            v.extend(n2);
            v.extend_from_slice(&msg[a2..pos + rdata.len()]);
            v
        }
        _ => rdata.to_vec(),
    }
}

pub fn observe_answer(answer: &Answer, qname: &RelName, qtype: Rtype) -> Observed {
    let mut q = MessageBuilder::new_vec();
    q.header_mut().set_id(77);
    let mut q = q.question();
    q.push((abs_name(qname), qtype)).unwrap();
    let qmsg = q.into_message();
    let out = answer.to_message(&qmsg, MessageBuilder::new_vec());
    let octets = out.as_slice().to_vec();
    let raw = crate::wire::read_message(&octets).expect("observe: to_message output unreadable");
    let mut o = Observed { rcode: (raw.flags & 0xF) as u8, aa: raw.flags & 0x0400 != 0, answer: BTreeSet::new(), authority: BTreeSet::new(), additional: BTreeSet::new(), dup: false };
    for (i, sec) in raw.sections.iter().enumerate() {
        for r in sec {
            let mut labels: Vec<Vec<u8>> = r.owner.iter().map(|l| crate::wire::lower(l)).collect();
            let _ = &mut labels;
            let item = (crate::wire::to_wire(&labels), r.rtype, norm_rdata(&octets, r.rtype, r.rdata_pos, &r.rdata));
            let fresh = match i {
                0 => o.answer.insert(item),
                1 => o.authority.insert(item),
                _ => o.additional.insert(item),
            };
            if !fresh {
                o.dup = true;
            }
        }
    }
    let _ = Rcode::NOERROR;
    o
}

pub fn query(read: &dyn ReadableZone, qname: &RelName, qtype: Rtype) -> Observed {
    let a = read.query(abs_name(qname), qtype).expect("query: in zone");
    observe_answer(&a, qname, qtype)
}

/// Compare; Ok or a short mismatch description.
pub fn compare(e: &Expected, o: &Observed) -> Result<(), String> {
    if o.rcode != e.rcode {
        return Err(format!("rcode {} expected {}", o.rcode, e.rcode));
    }
    if o.answer != e.answer {
        return Err("answer section differs".into());
    }
    if o.authority != e.authority {
        return Err("authority section differs".into());
    }
    if !o.additional.is_superset(&e.additional_min) || !o.additional.is_subset(&e.additional_max) {
        return Err("additional section differs".into());
    }
    if o.aa != e.aa {
        return Err(format!("AA {} expected {}", o.aa, e.aa));
    }
    if o.dup {
        return Err("duplicate records in a section".into());
    }
    Ok(())
}

/// All records a reader's walk() enumerates, as (owner rel, Rd-wire) set; plus duplicates flag.
pub fn walk(read: &dyn ReadableZone) -> (BTreeSet<(Vec<u8>, u16, Vec<u8>)>, bool) {
    let out: Arc<Mutex<(BTreeSet<(Vec<u8>, u16, Vec<u8>)>, bool)>> = Arc::new(Mutex::new((BTreeSet::new(), false)));
    let o2 = out.clone();
    read.walk(Box::new(move |owner: StoredName, rrset: &SharedRrset, _at_cut: bool| {
        let mut g = o2.lock().unwrap();
        let ow: Vec<Vec<u8>> = owner.iter().filter(|l| !l.is_root()).map(|l| crate::wire::lower(l.as_slice())).collect();
        for d in rrset.data() {
            let mut buf = Vec::new();
            use domain::base::rdata::ComposeRecordData;
            d.compose_canonical_rdata(&mut buf).unwrap();
            let item = (crate::wire::to_wire(&ow), rrset.rtype().to_int(), buf);
            if !g.0.insert(item) {
                g.1 = true;
            }
        }
    }));
    let g = out.lock().unwrap();
    (g.0.clone(), g.1)
}

pub fn content_as_walk(c: &Content) -> BTreeSet<(Vec<u8>, u16, Vec<u8>)> {
    c.records().iter().map(|(n, r)| (owner_wire(n), r.rtype().to_int(), r.wire())).collect()
}

// -------------------------------------------------------------- builders

fn ttl_of(rd: &Rd) -> u32 {
    if matches!(rd, Rd::Soa(_)) {
        fix_opts().soa_ttl
    } else {
        TTL
    }
}

pub fn rrset_of(rds: &[Rd]) -> SharedRrset {
    let mut rs = Rrset::new(rds[0].rtype(), Ttl::from_secs(ttl_of(&rds[0])));
    for r in rds {
        rs.push_data(r.data());
    }
    rs.into_shared()
}

pub fn record_of(name: &RelName, rd: &Rd) -> StoredRecord {
    Record::new(abs_name(name), Class::IN, Ttl::from_secs(ttl_of(rd)), rd.data())
}

fn types_of(set: &BTreeSet<Rd>) -> Vec<Rtype> {
    let mut t: Vec<Rtype> = set.iter().map(|r| r.rtype()).collect();
    t.dedup();
    t
}

pub fn glue_for(c: &Content, cut: &RelName) -> Vec<StoredRecord> {
    let mut v = Vec::new();
    for t in ns_targets(c, cut) {
        for r in c.rrset(&t, Rtype::A) {
            v.push(record_of(&t, &r));
        }
    }
    v
}

/// History B: ZoneBuilder, with names inserted in the given order.
pub fn build_direct(c: &Content, reverse: bool) -> Zone {
    let mut b = ZoneBuilder::new(zone_apex(), Class::IN);
    let mut names: Vec<&RelName> = c.names.keys().collect();
    if reverse {
        names.reverse();
    }
    for n in names {
        let set = &c.names[n];
        if set.is_empty() {
            continue;
        }
        // names below a cut are glue/occluded: they live in the cut's glue list
        if (1..n.len()).any(|i| c.is_cut(&n[..i].to_vec())) {
            continue;
        }
        if c.is_cut(n) {
            let ns = rrset_of(&c.rrset(n, Rtype::NS));
            let ds = c.rrset(n, Rtype::DS);
            let ds = if ds.is_empty() { None } else { Some(rrset_of(&ds)) };
            b.insert_zone_cut(&abs_name(n), ns, ds, glue_for(c, n)).unwrap();
            continue;
        }
        let cn = c.rrset(n, Rtype::CNAME);
        if !cn.is_empty() {
            b.insert_cname(&abs_name(n), SharedRr::new(Ttl::from_secs(TTL), cn[0].data())).unwrap();
            continue;
        }
        for t in types_of(set) {
            b.insert_rrset(&abs_name(n), rrset_of(&c.rrset(n, t))).unwrap();
        }
    }
    b.build()
}

/// History P: records fed one by one to zonetree::parsed::Zonefile.
pub fn build_parsed(c: &Content) -> Result<Zone, String> {
    let mut zf = domain::zonetree::parsed::Zonefile::new(zone_apex(), Class::IN);
    // SOA first (as in a zone file), then the rest with NS/DS before other data
    let mut recs: Vec<(RelName, Rd)> = c.records().into_iter().collect();
    recs.sort_by_key(|(n, r)| (!matches!(r, Rd::Soa(_)), !matches!(r, Rd::NsOut | Rd::NsIn | Rd::NsBA | Rd::Ds), n.clone(), r.clone()));
    for (n, r) in recs {
        zf.insert(record_of(&n, &r)).map_err(|e| format!("parsed insert: {e}"))?;
    }
    Zone::try_from(zf).map_err(|e| format!("parsed into zone: {e}"))
}

pub fn rt() -> tokio::runtime::Runtime {
    tokio::runtime::Builder::new_current_thread().enable_all().build().unwrap()
}

/// Navigate/create the writable node for `name` below an opened apex node.
pub async fn node_for(apex: &dyn WritableZoneNode, name: &RelName) -> Option<Box<dyn WritableZoneNode>> {
    let mut cur: Option<Box<dyn WritableZoneNode>> = None;
    let sp = fix_opts().owners;
    for (k, l) in name.iter().enumerate() {
        // (label k from the apex downwards is label len-1-k from the left of the absolute name)
        let l = if spelled_upper(sp, name.len() - 1 - k, name.len() + 1) { l.to_ascii_uppercase() } else { l.clone() };
        let l = label_octets(&l);
        let label = Label::from_slice(&l).unwrap();
        let next = match &cur {
            None => apex.update_child(label).await.unwrap(),
            Some(n) => n.update_child(label).await.unwrap(),
        };
        cur = Some(next);
    }
    cur
}

/// Make the node `name` hold exactly `set` (of content `c`) through the write interface.
pub async fn write_name(apex: &dyn WritableZoneNode, c: &Content, old: Option<&Content>, name: &RelName) {
    write_name_opt(apex, c, old, name, false).await
}

/// `churn`: an RRset that is to be removed is first replaced by other data
/// and then removed, within the same version.
pub async fn write_name_opt(apex: &dyn WritableZoneNode, c: &Content, old: Option<&Content>, name: &RelName, churn: bool) {
    let set = c.names.get(name).cloned().unwrap_or_default();
    let oldset = old.and_then(|o| o.names.get(name).cloned()).unwrap_or_default();
    if set.is_empty() && oldset.is_empty() {
        return;
    }
    let node = node_for(apex, name).await;
    let node: &dyn WritableZoneNode = match &node {
        Some(n) => n.as_ref(),
        None => apex,
    };
    // remove types no longer present
    for t in types_of(&oldset) {
        if c.rrset(name, t).is_empty() {
            if churn && (t == Rtype::A || t == Rtype::TXT) {
                let other = if t == Rtype::A { Rd::A(250) } else { Rd::Txt("churn".into()) };
                node.update_rrset(rrset_of(&[other])).await.unwrap();
            }
            node.remove_rrset(t).await.unwrap();
        }
    }
    let below_cut = (1..name.len()).any(|i| c.is_cut(&name[..i].to_vec()));
    if below_cut {
        // glue is carried by the cut; nothing stored at the name itself
        for t in types_of(&oldset) {
            if !c.rrset(name, t).is_empty() {
                node.remove_rrset(t).await.unwrap();
            }
        }
        return;
    }
    if c.is_cut(name) {
        let ns = rrset_of(&c.rrset(name, Rtype::NS));
        let ds = c.rrset(name, Rtype::DS);
        let ds = if ds.is_empty() { None } else { Some(rrset_of(&ds)) };
        node.make_zone_cut(ZoneCut { name: abs_name(name), ns, ds, glue: glue_for(c, name) }).await.unwrap();
        return;
    }
    let cn = c.rrset(name, Rtype::CNAME);
    if !cn.is_empty() {
        node.make_cname(SharedRr::new(Ttl::from_secs(TTL), cn[0].data())).await.unwrap();
        return;
    }
    if !name.is_empty() {
        node.make_regular().await.unwrap();
    }
    for t in types_of(&set) {
        node.update_rrset(rrset_of(&c.rrset(name, t))).await.unwrap();
    }
}

pub fn msg_from(octets: Vec<u8>) -> Message<Vec<u8>> {
    Message::from_octets(octets).unwrap()
}
