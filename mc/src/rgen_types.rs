//------------ per-type generators ---------------------------------------------

/// All type generators, in a fixed order.
pub fn generators() -> Vec<TypeGen> {
    macro_rules! g {
        ($m:expr, $t:expr, $z:expr, $f:expr) => {
            TypeGen { mnemonic: $m, rtype: $t, zone: $z, gen: $f }
        };
    }
    vec![
        g!("A", 1, true, gen_a),
        g!("AAAA", 28, true, gen_aaaa),
        g!("NS", 2, true, |m, s| gen_name1(m, s, |n| Rd::Ns(rdata::Ns::new(n)))),
        g!("MD", 3, true, |m, s| gen_name1(m, s, |n| Rd::Md(rdata::Md::new(n)))),
        g!("MF", 4, true, |m, s| gen_name1(m, s, |n| Rd::Mf(rdata::Mf::new(n)))),
        g!("CNAME", 5, true, |m, s| gen_name1(m, s, |n| Rd::Cname(rdata::Cname::new(n)))),
        g!("MB", 7, true, |m, s| gen_name1(m, s, |n| Rd::Mb(rdata::Mb::new(n)))),
        g!("MG", 8, true, |m, s| gen_name1(m, s, |n| Rd::Mg(rdata::Mg::new(n)))),
        g!("MR", 9, true, |m, s| gen_name1(m, s, |n| Rd::Mr(rdata::Mr::new(n)))),
        g!("PTR", 12, true, |m, s| gen_name1(m, s, |n| Rd::Ptr(rdata::Ptr::new(n)))),
        g!("DNAME", 39, true, |m, s| gen_name1(m, s, |n| Rd::Dname(rdata::Dname::new(n)))),
        g!("MINFO", 14, true, |m, s| gen_name2(m, s, |a, b| Rd::Minfo(rdata::Minfo::new(a, b)))),
        g!("RP", 17, true, |m, s| gen_name2(m, s, |a, b| Rd::Rp(rdata::Rp::new(a, b)))),
        g!("MX", 15, true, gen_mx),
        g!("SOA", 6, true, gen_soa),
        g!("TXT", 16, true, gen_txt),
        g!("HINFO", 13, true, gen_hinfo),
        g!("NULL", 10, false, gen_null),
        g!("SRV", 33, true, gen_srv),
        g!("NAPTR", 35, true, gen_naptr),
        g!("CAA", 257, true, gen_caa),
        g!("DS", 43, true, |m, s| gen_ds(m, s, false)),
        g!("CDS", 59, true, |m, s| gen_ds(m, s, true)),
        g!("DNSKEY", 48, true, |m, s| gen_dnskey(m, s, false)),
        g!("CDNSKEY", 60, true, |m, s| gen_dnskey(m, s, true)),
        g!("RRSIG", 46, true, gen_rrsig),
        g!("NSEC", 47, true, gen_nsec),
        g!("NSEC3", 50, true, gen_nsec3),
        g!("NSEC3PARAM", 51, true, gen_nsec3param),
        g!("SVCB", 64, true, |m, s| gen_svcb(m, s, false)),
        g!("HTTPS", 65, true, |m, s| gen_svcb(m, s, true)),
        g!("TLSA", 52, true, gen_tlsa),
        g!("SSHFP", 44, true, gen_sshfp),
        g!("IPSECKEY", 45, true, gen_ipseckey),
        g!("OPENPGPKEY", 61, true, gen_openpgpkey),
        g!("ZONEMD", 63, true, gen_zonemd),
        g!("TSIG", 250, false, gen_tsig),
        g!("OPT", 41, false, gen_opt),
        g!("TYPE65280", 65280, true, |m, s| gen_unknown(m, s, 65280)),
        g!("TYPE99", 99, true, |m, s| gen_unknown(m, s, 99)),
        g!("TYPE65535", 65535, true, |m, s| gen_unknown(m, s, 65535)),
    ]
}

fn addrs4(m: &Menus) -> Vec<[u8; 4]> {
    if m.tier == Tier::Compact {
        vec![[192, 0, 2, 1], [192, 0, 2, 2]]
    } else {
        vec![[0, 0, 0, 0], [1, 2, 3, 4], [255, 255, 255, 255]]
    }
}

fn addrs6(m: &Menus) -> Vec<[u8; 16]> {
    let mut a = [0u8; 16];
    for (i, b) in a.iter_mut().enumerate() {
        *b = (i as u8) * 16 + 1;
    }
    if m.tier == Tier::Compact {
        vec![a]
    } else {
        vec![[0; 16], a, [255; 16]]
    }
}

fn gen_a(m: &Menus, s: &mut Sink) {
    for a in addrs4(m) {
        if !s.want() {
            continue;
        }
        let mut r = Ref::new();
        r.raw("addr", &a);
        s.offer(r, || Ok(Rd::A(rdata::A::new(Ipv4Addr::from(a)))));
    }
    // the second constructor
    if m.tier != Tier::Compact && s.want() {
        let mut r = Ref::new();
        r.raw("addr(from_octets)", &[9, 8, 7, 6]);
        s.offer(r, || Ok(Rd::A(rdata::A::from_octets(9, 8, 7, 6))));
    }
}

fn gen_aaaa(m: &Menus, s: &mut Sink) {
    for a in addrs6(m) {
        if !s.want() {
            continue;
        }
        let mut r = Ref::new();
        r.raw("addr", &a);
        s.offer(r, || Ok(Rd::Aaaa(rdata::Aaaa::new(Ipv6Addr::from(a)))));
    }
}

fn gen_name1(m: &Menus, s: &mut Sink, mk: fn(Nm) -> Rd) {
    for n in m.names(1) {
        if !s.want() {
            continue;
        }
        let mut r = Ref::new();
        let n = r.name("name", &n);
        s.offer(r, || Ok(mk(n)));
    }
}

fn gen_name2(m: &Menus, s: &mut Sink, mk: fn(Nm, Nm) -> Rd) {
    let ns = m.names(2);
    prod(&[ns.len(), ns.len()], |i| {
        if !s.want() {
            return;
        }
        let mut r = Ref::new();
        let a = r.name("n1", &ns[i[0]]);
        let b = r.name("n2", &ns[i[1]]);
        s.offer(r, || Ok(mk(a, b)));
    });
}

fn gen_mx(m: &Menus, s: &mut Sink) {
    let (ps, ns) = (m.u16s(2), m.names(2));
    prod(&[ps.len(), ns.len()], |i| {
        if !s.want() {
            return;
        }
        let mut r = Ref::new();
        let p = r.u16("pref", ps[i[0]]);
        let n = r.name("exchange", &ns[i[1]]);
        s.offer(r, || Ok(Rd::Mx(rdata::Mx::new(p, n))));
    });
}

fn gen_soa(m: &Menus, s: &mut Sink) {
    let (ns, us) = (m.names(7), m.u32s(7));
    prod(&[ns.len(), ns.len(), us.len(), us.len(), us.len(), us.len(), us.len()], |i| {
        if !s.want() {
            return;
        }
        let mut r = Ref::new();
        let mname = r.name("mname", &ns[i[0]]);
        let rname = r.name("rname", &ns[i[1]]);
        let serial = r.u32("serial", us[i[2]]);
        let refresh = r.u32("refresh", us[i[3]]);
        let retry = r.u32("retry", us[i[4]]);
        let expire = r.u32("expire", us[i[5]]);
        let minimum = r.u32("minimum", us[i[6]]);
        s.offer(r, || {
            Ok(Rd::Soa(rdata::Soa::new(
                mname,
                rname,
                Serial(serial),
                Ttl::from_secs(refresh),
                Ttl::from_secs(retry),
                Ttl::from_secs(expire),
                Ttl::from_secs(minimum),
            )))
        });
    });
}

/// Largest text length n whose TXT encoding n + ceil(n/255) fits 65535.
fn txt_max_text() -> usize {
    let mut n = 65535usize;
    while n + n.div_ceil(255) > 65535 {
        n -= 1;
    }
    n
}

fn gen_txt(m: &Menus, s: &mut Sink) {
    // (a) explicit character-string sequences through Txt::from_octets
    let mut seqs: Vec<(&'static str, Vec<Vec<u8>>)> = vec![
        ("one-empty", vec![vec![]]),
        ("one-Ab", vec![b"Ab".to_vec()]),
        ("one-255", vec![fill_alpha(255)]),
        ("two", vec![b"x y".to_vec(), b"\"q\\".to_vec()]),
    ];
    if m.tier != Tier::Compact {
        seqs.push(("none", vec![]));
        seqs.push(("255+255", vec![fill_alpha(255), fill(255, 9)]));
        seqs.push(("empty,empty,1", vec![vec![], vec![], vec![0]]));
        // exactly 65535 octets: 255 strings of 255 octets + one of 254
        let mut big: Vec<Vec<u8>> = (0..255).map(|k| fill(255, k as u8)).collect();
        big.push(fill(254, 77));
        seqs.push(("65535", big.clone()));
        // 65536 octets: expected refusal
        big.pop();
        big.push(fill(255, 78));
        seqs.push(("65536", big));
    }
    for (tag, seq) in seqs {
        if !s.want() {
            continue;
        }
        let mut r = Ref::new();
        r.note(format!("from_octets:{tag}"));
        for c in &seq {
            r.len8("s", c);
        }
        let w = r.wire.clone();
        s.offer(r, || rdata::Txt::from_octets(w).map(Rd::Txt).map_err(|e| format!("TxtError: {e}")));
    }
    // (b) the builder: text split into 255-octet chunks
    let mut texts: Vec<usize> = vec![0, 1, 255];
    if m.tier != Tier::Compact {
        texts.extend([254, 256, 510, 511, txt_max_text(), txt_max_text() + 1]);
    }
    for n in texts {
        if !s.want() {
            continue;
        }
        let text = fill(n, 5);
        let mut r = Ref::new();
        r.note(format!("build_from_slice:{n}"));
        if n == 0 {
            // an empty text is one empty string (TXT needs >= 1 string)
            r.len8("s", &[]);
        }
        for c in text.chunks(255) {
            r.len8("s", c);
        }
        s.offer(r, || {
            rdata::Txt::<Octs>::build_from_slice(&text).map(Rd::Txt).map_err(|e| format!("TxtAppendError: {e}"))
        });
    }
    // (c) the builder fed piecewise: append_slice in pieces, append_charstr
    if m.tier != Tier::Compact {
        let plans: Vec<(&'static str, Vec<(bool, usize)>)> = vec![
            // (is_charstr, len)
            ("slice200+slice55", vec![(false, 200), (false, 55)]),
            ("slice200+slice56", vec![(false, 200), (false, 56)]),
            ("slice255+slice1", vec![(false, 255), (false, 1)]),
            ("slice10+cs3+slice4", vec![(false, 10), (true, 3), (false, 4)]),
            ("cs0+cs255", vec![(true, 0), (true, 255)]),
            ("slice300+cs0", vec![(false, 300), (true, 0)]),
            ("slice0+slice0", vec![(false, 0), (false, 0)]),
        ];
        for (tag, plan) in plans {
            if !s.want() {
                continue;
            }
            // reference: slices concatenate into a run that is chunked at
            // 255; a charstr closes the run and stands alone
            let mut r = Ref::new();
            r.note(format!("builder:{tag}"));
            let mut strings: Vec<Vec<u8>> = Vec::new();
            let mut run: Option<Vec<u8>> = None;
            let mut k = 0u8;
            let mut pieces: Vec<(bool, Vec<u8>)> = Vec::new();
            for (is_cs, n) in &plan {
                k += 1;
                let b = fill(*n, k);
                pieces.push((*is_cs, b.clone()));
                if *is_cs {
                    if let Some(run) = run.take() {
                        for c in run.chunks(255) {
                            strings.push(c.to_vec());
                        }
                    }
                    strings.push(b);
                } else if !b.is_empty() {
                    run.get_or_insert_with(Vec::new).extend_from_slice(&b);
                }
            }
            if let Some(run) = run.take() {
                for c in run.chunks(255) {
                    strings.push(c.to_vec());
                }
            }
            if strings.is_empty() {
                strings.push(vec![]);
            }
            for c in &strings {
                r.len8("s", c);
            }
            s.offer(r, || {
                let mut b = rdata::rfc1035::TxtBuilder::<Vec<u8>>::new();
                for (is_cs, p) in &pieces {
                    if *is_cs {
                        b.append_charstr(&cs(p)?).map_err(|e| format!("TxtAppendError: {e}"))?;
                    } else {
                        b.append_slice(p).map_err(|e| format!("TxtAppendError: {e}"))?;
                    }
                }
                b.finish().map(Rd::Txt).map_err(|e| format!("TxtAppendError: {e}"))
            });
        }
    }
}

fn gen_hinfo(m: &Menus, s: &mut Sink) {
    let mut cs_menu = m.charstrs(2);
    if m.tier != Tier::Compact {
        cs_menu.push(fill_alpha(256)); // expected CharStrError
    }
    prod(&[cs_menu.len(), cs_menu.len()], |i| {
        if !s.want() {
            return;
        }
        let mut r = Ref::new();
        let a = r.len8("cpu", &cs_menu[i[0]]);
        let b = r.len8("os", &cs_menu[i[1]]);
        s.offer(r, || Ok(Rd::Hinfo(rdata::Hinfo::new(cs(&a)?, cs(&b)?))));
    });
}

fn gen_null(m: &Menus, s: &mut Sink) {
    for l in m.lens(1) {
        if !s.want() {
            continue;
        }
        let n = Ref::resolve(l, 0);
        let mut r = Ref::new();
        let d = r.raw("data", &fill(n, 1));
        s.offer(r, || rdata::Null::from_octets(d).map(Rd::Null).map_err(es));
    }
}

fn gen_unknown(m: &Menus, s: &mut Sink, rtype: u16) {
    for l in m.lens(1) {
        if !s.want() {
            continue;
        }
        let n = Ref::resolve(l, 0);
        let mut r = Ref::new();
        let d = r.raw("data", &fill(n, 2));
        s.offer(r, || UnknownRecordData::from_octets(Rtype::from_int(rtype), d).map(Rd::Unknown).map_err(es));
    }
}

fn gen_srv(m: &Menus, s: &mut Sink) {
    let (us, ns) = (m.u16s(4), m.names(4));
    prod(&[us.len(), us.len(), us.len(), ns.len()], |i| {
        if !s.want() {
            return;
        }
        let mut r = Ref::new();
        let p = r.u16("prio", us[i[0]]);
        let w = r.u16("weight", us[i[1]]);
        let port = r.u16("port", us[i[2]]);
        let t = r.name("target", &ns[i[3]]);
        s.offer(r, || Ok(Rd::Srv(rdata::Srv::new(p, w, port, t))));
    });
}

fn gen_naptr(m: &Menus, s: &mut Sink) {
    let (us, ns) = (m.u16s(6), m.names(6));
    let mut cm = m.charstrs(6);
    let with_long = m.tier != Tier::Compact;
    if with_long {
        cm.push(fill_alpha(256)); // expected CharStrError
    }
    prod(&[us.len(), us.len(), cm.len(), cm.len(), cm.len(), ns.len()], |i| {
        if !s.want() {
            return;
        }
        let mut r = Ref::new();
        let o = r.u16("order", us[i[0]]);
        let p = r.u16("pref", us[i[1]]);
        let f = r.len8("flags", &cm[i[2]]);
        let sv = r.len8("services", &cm[i[3]]);
        let re = r.len8("regexp", &cm[i[4]]);
        let n = r.name("replacement", &ns[i[5]]);
        s.offer(r, || Ok(Rd::Naptr(rdata::Naptr::new(o, p, cs(&f)?, cs(&sv)?, cs(&re)?, n))));
    });
}

fn gen_caa(m: &Menus, s: &mut Sink) {
    let fl = m.u8s(3);
    // (tag octets, via CharStr?) — both tag constructors
    let mut tags: Vec<(Vec<u8>, bool)> = vec![(b"issue".to_vec(), false), (b"IssueWild9".to_vec(), true)];
    if m.tier != Tier::Compact {
        tags.push((vec![], false));
        tags.push((b"a".to_vec(), true));
        tags.push((fill_alpha(255), false));
        tags.push((fill_alpha(255), true));
        tags.push((fill_alpha(256), false)); // from_octets: must be refused
        tags.push((fill_alpha(256), true)); // via CharStr: CharStrError
        tags.push((b"a-b".to_vec(), false)); // not alphanumeric: refused
    }
    let lens = m.lens(3);
    prod(&[fl.len(), tags.len(), lens.len()], |i| {
        if !s.want() {
            return;
        }
        let (tag, via_cs) = tags[i[1]].clone();
        let mut r = Ref::new();
        let f = r.u8("flags", fl[i[0]]);
        let t = r.len8(if via_cs { "tag(new)" } else { "tag(from_octets)" }, &tag);
        let n = Ref::resolve(lens[i[2]], 1 + 1 + tag.len().min(255));
        let v = r.raw("value", &fill(n, 3));
        s.offer(r, || {
            let tag = if via_cs {
                rdata::caa::CaaTag::new(cs(&t)?).map_err(es)?
            } else {
                rdata::caa::CaaTag::from_octets(t).map_err(es)?
            };
            Ok(Rd::Caa(rdata::Caa::new(rdata::caa::CaaFlags::new(f), tag, v)))
        });
    });
}

fn gen_ds(m: &Menus, s: &mut Sink, cds: bool) {
    let (kt, al, lens) = (m.u16s(4), m.u8s(4), m.lens(4));
    prod(&[kt.len(), al.len(), al.len(), lens.len()], |i| {
        if !s.want() {
            return;
        }
        let mut r = Ref::new();
        let k = r.u16("keytag", kt[i[0]]);
        let a = r.u8("alg", al[i[1]]);
        let dt = r.u8("digtype", al[i[2]]);
        let d = r.raw("digest", &fill(Ref::resolve(lens[i[3]], 4), 4));
        s.offer(r, || {
            let (a, dt) = (SecurityAlgorithm::from_int(a), DigestAlgorithm::from_int(dt));
            if cds {
                rdata::Cds::new(k, a, dt, d).map(Rd::Cds).map_err(es)
            } else {
                rdata::Ds::new(k, a, dt, d).map(Rd::Ds).map_err(es)
            }
        });
    });
}

fn gen_dnskey(m: &Menus, s: &mut Sink, cdnskey: bool) {
    let (fl, pr, lens) = (m.u16s(4), m.u8s(4), m.lens(4));
    prod(&[fl.len(), pr.len(), pr.len(), lens.len()], |i| {
        if !s.want() {
            return;
        }
        let mut r = Ref::new();
        let f = r.u16("flags", fl[i[0]]);
        let p = r.u8("proto", pr[i[1]]);
        let a = r.u8("alg", pr[i[2]]);
        let k = r.raw("key", &fill(Ref::resolve(lens[i[3]], 4), 5));
        s.offer(r, || {
            let a = SecurityAlgorithm::from_int(a);
            if cdnskey {
                rdata::Cdnskey::new(f, p, a, k).map(Rd::Cdnskey).map_err(es)
            } else {
                rdata::Dnskey::new(f, p, a, k).map(Rd::Dnskey).map_err(es)
            }
        });
    });
}

fn gen_rrsig(m: &Menus, s: &mut Sink) {
    let (u16s, u8s, u32s, ns, lens) = (m.u16s(9), m.u8s(9), m.u32s(9), m.names(9), m.lens(9));
    prod(
        &[u16s.len(), u8s.len(), u8s.len(), u32s.len(), u32s.len(), u32s.len(), u16s.len(), ns.len(), lens.len()],
        |i| {
            if !s.want() {
                return;
            }
            let mut r = Ref::new();
            let tc = r.u16("covered", u16s[i[0]]);
            let a = r.u8("alg", u8s[i[1]]);
            let l = r.u8("labels", u8s[i[2]]);
            let ttl = r.u32("ottl", u32s[i[3]]);
            let exp = r.u32("exp", u32s[i[4]]);
            let inc = r.u32("inc", u32s[i[5]]);
            let kt = r.u16("keytag", u16s[i[6]]);
            let nspec = &ns[i[7]];
            let n = r.name("signer", nspec);
            let sig = r.raw("sig", &fill(Ref::resolve(lens[i[8]], 18 + nspec.wire().len()), 6));
            s.offer(r, || {
                rdata::Rrsig::new(
                    Rtype::from_int(tc),
                    SecurityAlgorithm::from_int(a),
                    l,
                    Ttl::from_secs(ttl),
                    rdata::dnssec::Timestamp::from(exp),
                    rdata::dnssec::Timestamp::from(inc),
                    kt,
                    n,
                    sig,
                )
                .map(Rd::Rrsig)
                .map_err(es)
            });
        },
    );
}

fn mk_bitmap(types: &[u16]) -> rdata::dnssec::RtypeBitmap<Octs> {
    let mut b = rdata::dnssec::RtypeBitmapBuilder::<Vec<u8>>::new_vec();
    for t in types {
        b.add(Rtype::from_int(*t)).expect("vec");
    }
    b.finalize()
}

/// Insertion orders for the bitmap builder: as listed and reversed.
fn bitmap_orders(m: &Menus) -> Vec<(Vec<u16>, &'static str)> {
    let mut out = Vec::new();
    for b in m.bitmaps() {
        out.push((b.clone(), "fwd"));
        if b.len() > 1 && m.tier != Tier::Compact {
            let mut rev = b.clone();
            rev.reverse();
            out.push((rev, "rev"));
        }
    }
    out
}

fn gen_nsec(m: &Menus, s: &mut Sink) {
    let (ns, bm) = (m.names(2), bitmap_orders(m));
    prod(&[ns.len(), bm.len()], |i| {
        if !s.want() {
            return;
        }
        let mut r = Ref::new();
        let n = r.name("next", &ns[i[0]]);
        let (types, ord) = &bm[i[1]];
        r.raw("bitmap", &bitmap_wire(types));
        r.note(format!("types={types:?}/{ord}"));
        s.offer(r, || Ok(Rd::Nsec(rdata::Nsec::new(n, mk_bitmap(types)))));
    });
}

fn len8_menu(m: &Menus, nfields: usize) -> Vec<usize> {
    if m.tier == Tier::Compact {
        vec![0, 4]
    } else if m.reduced(nfields) {
        vec![0, 255]
    } else {
        vec![0, 1, 255, 256]
    }
}

fn gen_nsec3(m: &Menus, s: &mut Sink) {
    let (u8s, its, ls, bm) = (m.u8s(6), m.u16s(6), len8_menu(m, 6), bitmap_orders(m));
    prod(&[u8s.len(), u8s.len(), its.len(), ls.len(), ls.len(), bm.len()], |i| {
        if !s.want() {
            return;
        }
        let mut r = Ref::new();
        let a = r.u8("hashalg", u8s[i[0]]);
        let f = r.u8("flags", u8s[i[1]]);
        let it = r.u16("iter", its[i[2]]);
        let salt = r.len8("salt", &fill(ls[i[3]], 7));
        let next = r.len8("next", &fill(ls[i[4]], 8));
        let (types, ord) = &bm[i[5]];
        r.raw("bitmap", &bitmap_wire(types));
        r.note(format!("types={types:?}/{ord}"));
        s.offer(r, || {
            Ok(Rd::Nsec3(rdata::Nsec3::new(
                Nsec3HashAlgorithm::from_int(a),
                f,
                it,
                rdata::nsec3::Nsec3Salt::from_octets(salt).map_err(es)?,
                rdata::nsec3::OwnerHash::from_octets(next).map_err(es)?,
                mk_bitmap(types),
            )))
        });
    });
}

fn gen_nsec3param(m: &Menus, s: &mut Sink) {
    let (u8s, its, ls) = (m.u8s(4), m.u16s(4), len8_menu(m, 4));
    prod(&[u8s.len(), u8s.len(), its.len(), ls.len()], |i| {
        if !s.want() {
            return;
        }
        let mut r = Ref::new();
        let a = r.u8("hashalg", u8s[i[0]]);
        let f = r.u8("flags", u8s[i[1]]);
        let it = r.u16("iter", its[i[2]]);
        let salt = r.len8("salt", &fill(ls[i[3]], 7));
        s.offer(r, || {
            Ok(Rd::Nsec3param(rdata::Nsec3param::new(
                Nsec3HashAlgorithm::from_int(a),
                f,
                it,
                rdata::nsec3::Nsec3Salt::from_octets(salt).map_err(es)?,
            )))
        });
    });
}

fn gen_tlsa(m: &Menus, s: &mut Sink) {
    let (u8s, lens) = (m.u8s(4), m.lens(4));
    prod(&[u8s.len(), u8s.len(), u8s.len(), lens.len()], |i| {
        if !s.want() {
            return;
        }
        let mut r = Ref::new();
        let u = r.u8("usage", u8s[i[0]]);
        let se = r.u8("selector", u8s[i[1]]);
        let mt = r.u8("mtype", u8s[i[2]]);
        let d = r.raw("data", &fill(Ref::resolve(lens[i[3]], 3), 9));
        s.offer(r, || Ok(Rd::Tlsa(rdata::Tlsa::new(u.into(), se.into(), mt.into(), d))));
    });
}

fn gen_sshfp(m: &Menus, s: &mut Sink) {
    let (u8s, lens) = (m.u8s(3), m.lens(3));
    prod(&[u8s.len(), u8s.len(), lens.len()], |i| {
        if !s.want() {
            return;
        }
        let mut r = Ref::new();
        let a = r.u8("alg", u8s[i[0]]);
        let t = r.u8("fptype", u8s[i[1]]);
        let d = r.raw("fp", &fill(Ref::resolve(lens[i[2]], 2), 10));
        s.offer(r, || Ok(Rd::Sshfp(rdata::Sshfp::new(a.into(), t.into(), d))));
    });
}

fn gen_openpgpkey(m: &Menus, s: &mut Sink) {
    for l in m.lens(1) {
        if !s.want() {
            continue;
        }
        let mut r = Ref::new();
        let d = r.raw("key", &fill(Ref::resolve(l, 0), 11));
        s.offer(r, || Ok(Rd::Openpgpkey(rdata::Openpgpkey::new(d))));
    }
}

fn gen_zonemd(m: &Menus, s: &mut Sink) {
    let (u32s, u8s) = (m.u32s(4), m.u8s(4));
    let mut lens = m.lens(4);
    if m.tier != Tier::Compact {
        // RFC 8976 2.2.4: the digest MUST NOT be shorter than 12 octets
        lens.push(Len::Fixed(11));
        lens.push(Len::Fixed(12));
    } else {
        lens = vec![Len::Fixed(48)];
    }
    prod(&[u32s.len(), u8s.len(), u8s.len(), lens.len()], |i| {
        if !s.want() {
            return;
        }
        let mut r = Ref::new();
        let se = r.u32("serial", u32s[i[0]]);
        let sc = r.u8("scheme", u8s[i[1]]);
        let a = r.u8("alg", u8s[i[2]]);
        let d = r.raw("digest", &fill(Ref::resolve(lens[i[3]], 6), 12));
        s.offer(r, || Ok(Rd::Zonemd(rdata::Zonemd::new(Serial(se), sc.into(), a.into(), d))));
    });
}

fn gen_ipseckey(m: &Menus, s: &mut Sink) {
    use rdata::ipseckey::IpseckeyGateway as Gw;
    #[derive(Clone)]
    enum G {
        None,
        V4([u8; 4]),
        V6([u8; 16]),
        Name(NameSpec),
    }
    let mut gws = vec![G::None];
    gws.extend(addrs4(m).into_iter().map(G::V4));
    gws.extend(addrs6(m).into_iter().map(G::V6));
    gws.extend(m.names(4).into_iter().map(G::Name));
    let (u8s, lens) = (m.u8s(4), m.lens(4));
    prod(&[u8s.len(), u8s.len(), gws.len(), lens.len()], |i| {
        if !s.want() {
            return;
        }
        let mut r = Ref::new();
        let p = r.u8("prec", u8s[i[0]]);
        let alg = u8s[i[1]];
        let g = gws[i[2]].clone();
        let gt = match g {
            G::None => 0,
            G::V4(_) => 1,
            G::V6(_) => 2,
            G::Name(_) => 3,
        };
        r.u8("gwtype", gt);
        r.u8("alg", alg);
        let gw: Gw<Nm> = match &g {
            G::None => Gw::None,
            G::V4(a) => {
                r.raw("gw4", a);
                Gw::Ipv4(rdata::A::new(Ipv4Addr::from(*a)))
            }
            G::V6(a) => {
                r.raw("gw6", a);
                Gw::Ipv6(rdata::Aaaa::new(Ipv6Addr::from(*a)))
            }
            G::Name(n) => Gw::Name(r.name("gwname", n)),
        };
        let rest = r.wire.len();
        let k = r.raw("key", &fill(Ref::resolve(lens[i[3]], rest), 13));
        s.offer(r, || Ok(Rd::Ipseckey(rdata::Ipseckey::new(p, alg.into(), gw, k))));
    });
}

fn gen_tsig(m: &Menus, s: &mut Sink) {
    let (ns, u16s, lens) = (m.names(7), m.u16s(7), m.lens(7));
    let times: Vec<u64> = match m.tier {
        Tier::Compact => vec![1_700_000_000],
        Tier::Quick => vec![0, 0x1_0000_0000, 0xFFFF_FFFF_FFFF],
        Tier::Thorough => vec![0, 1, 0x1_0000_0000, 0xFFFF_FFFF_FFFF, 0x1_0000_0000_0000],
    };
    prod(&[ns.len(), times.len(), u16s.len(), lens.len(), u16s.len(), u16s.len(), lens.len()], |i| {
        if !s.want() {
            return;
        }
        let nspec = &ns[i[0]];
        let fixed = nspec.wire().len() + 16;
        let (lm, lo) = (lens[i[3]], lens[i[6]]);
        // a Max/MaxPlus1 field gets the whole budget left by the fixed
        // part and by the other field's *fixed* length
        let fixlen = |l: Len| if let Len::Fixed(n) = l { n } else { 0 };
        let mac_len = Ref::resolve(lm, fixed + fixlen(lo));
        let other_len = match lo {
            Len::Fixed(n) => n,
            _ => Ref::resolve(lo, fixed + mac_len).min(Ref::resolve(lo, fixed + fixlen(lm))),
        };
        let mut r = Ref::new();
        let alg = r.name("alg", nspec);
        let t = r.u48("time", times[i[1]]);
        let fudge = r.u16("fudge", u16s[i[2]]);
        let mac = r.len16("mac", &fill(mac_len, 14));
        let id = r.u16("origid", u16s[i[4]]);
        let err = r.u16("error", u16s[i[5]]);
        let other = r.len16("other", &fill(other_len, 15));
        s.offer(r, || {
            rdata::Tsig::new(
                alg,
                rdata::tsig::Time48::from_u64(t),
                fudge,
                mac,
                id,
                domain::base::iana::TsigRcode::from_int(err),
                other,
            )
            .map(Rd::Tsig)
            .map_err(es)
        });
    });
}
